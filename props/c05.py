"""C05 - Resampling onto any oriented grid matches an independent reference resampler."""
from __future__ import annotations

import copy as _copy
import math

import numpy as np
import torch
from hypothesis import strategies as st

from vlib import gen, ref
from vlib.case import hash_noise, make_grid, smooth_field, tdtype
from vlib.core import EPS32, Facet, Skip, Violation, check_close
from props import c03 as C3  # float64 reference model of grid derivation (State / model_apply), see props/c03.py

PROPERTY = "C05"
MANIFEST = {
    "text": "Generated pairs of independently oriented anisotropic source/target grids with overlapping domains (D in {2,3}, "
            "either align_corners on either side, batch 1..3 with shared or per-image grids, channels 1..3, hash-noise and smooth "
            "content, float32/float64) are resampled by Image.sample / ImageBatch.sample(grid | grids | coords) and by the "
            "SampleImage / AlignImage / TransformImage modules, with linear and nearest interpolation and zeros / border / constant "
            "padding. Inside the source field of view every target sample is compared with SimpleITK's ResampleImageFilter "
            "(identity or generated affine world transform) run on a float64 image built directly from the case descriptor; "
            "everywhere (also outside the field of view) it is compared with a numpy multilinear/nearest interpolator evaluated at "
            "float64 model indices. Identity on the own grid (and real resampling of the other images of such a batch) and "
            "coordinate-tensor sampling are checked as well. Grids are not only built fresh: in the derived_grids facet the source "
            "and target grids are first used (origin, points, coords, transforms, a checked sample call) and then derived by "
            "deepali's own methods (resample incl. min/max, resize, reshape, downsample, upsample, pyramid level, Cube.grid, crop, "
            "pad, center_crop, center_pad, narrow, region_of_interest, pool, align_corners(flag), clone/copy/deepcopy, the "
            "center/origin/spacing/direction setters in new-grid and in-place form; target chain starting from the target, from "
            "the derived source or from the source's parent; batches whose items share one Grid object), the reference headers "
            "being the float64 model of the derivation applied to the descriptors, and the parents are sampled again afterwards. "
            "The image_dtypes facet stores the image as float16, bfloat16, uint8, int16, int32 or int64 (one case in three with "
            "a 48-160 sample axis), asserts the result dtype documented by grid_sample and requires half-precision / integer "
            "results to lie in the interval obtained by rounding (float64 reference of the stored voxel values +- float32 bound) "
            "to the result dtype, i.e. nothing but the final cast may lose precision. The object_history facet resamples images "
            "that are not fresh: one live Image / ImageBatch (built directly, by from_images, or taken from a batch) goes through "
            "2-6 steps - earlier checked sample(grid | coords) calls on reused / rebuilt / warmed / derived target Grid objects of "
            "one size, read-only uses, in-place header replacement grid_(), grid(g), in-place data edits, in-place setters on the "
            "live Grid, dtype conversion, clone/copy/deepcopy, item / sub-batch / batch() / from_images / append / cat, return to "
            "the parent object - and every sample must agree with ITK / numpy for the data the object holds and the header(s) the "
            "documented effect of the steps puts it on at the time of the call (the reported headers are compared with that model "
            "first). Exploration: no absence proof; the derived "
            "bound (64 eps32 x condition x intensity range) is 2-4 orders of magnitude below the effect of a half-sample shift, a "
            "transposed/inverted matrix, a wrong convention or a stale matrix of the grid a grid was derived from.",
    "note": "Trusted: SimpleITK's resampler, the float64 grid model and numpy interpolator of vlib/ref.py (self-tested against "
            "SimpleITK on a world-coordinate ramp before every run), the float64 model of grid derivation of props/c03.py "
            "(State/model_apply, written from the docstrings, self-tested there and here) and torch's float64 -> float16/bfloat16 "
            "conversion (monotone; also what the final cast of the result uses). Nearest-neighbour ties, the ITK inside-test and "
            "derived sizes decided by float32 rounding are generated around or accepted either way, not tolerated.",
    "technique": "property-based testing (Hypothesis) with a differential oracle (SimpleITK resampler) and a float64 numpy "
                 "reference model, incl. use-derive-use operation sequences against a float64 model of grid derivation and "
                 "operation histories on one live Image / ImageBatch object against a float64 model of its headers; "
                 "metamorphic identity / coordinate-tensor relations",
}
ASSUMPTIONS = [
    "grids: 2..12 samples per axis (2-D) / 2..7 (3-D), spacing in [0.1, 10], |anchor| <= 200, |det direction| = 1; the target "
    "centre is constructed inside every source domain; derived grids 2..40 (2-D) / 2..14 (3-D) samples per axis; image_dtypes: "
    "one source axis up to 160 samples",
    "intensities in [0, 100]; bound = range * D * 64 eps32 * ((|c| + extent) / min spacing + max(n, |index|)); nearest exact "
    "away (>= max(0.02, index bound)) from half-integer source indices",
    "padding semantics outside the field of view are those of torch.nn.functional.grid_sample (out-of-range neighbours "
    "contribute the padding value), which is what deepali documents it forwards to; ITK is only consulted inside",
    "TransformImage with a linear (N, D, D+1) transform is generated for D = 3 only: in 2-D its `ndim == D + 1` test treats a "
    "(1, 2, 3) matrix as an unbatched flow field (recorded observation, not asserted)",
    "sample(own grid with the other align_corners flag) is only required to return unchanged data; which align_corners flag "
    "the returned image carries is not asserted",
    "derived grids: operations and arguments are those inside the documented domain of props/c03.py (every axis keeps >= 2 "
    "samples; no upsample of an undetermined fractional size; min_size ties not generated); a derived size that float32 "
    "rounding decides (resample to a spacing dividing the extent, 'min'/'max') is accepted either way and ends the chain; "
    "the center/origin/spacing/direction setters change only the named attribute of a grid that stores its centre (class "
    "docstring), origin(o) places index 0 at o; the align_corners flag of a derived grid is not asserted here (C03 does)",
    "image dtypes: result dtype as documented by grid_sample (image dtype if floating point or mode nearest, else the dtype of "
    "the sampling coordinates: float32 for Grid arguments and modules); integer images get padding constants representable "
    "in their dtype (the cast of a fractional constant is not documented); coordinates are float32 or float64 (half-precision "
    "coordinate tensors passed by the caller are the caller's choice and not generated); bool images are not generated",
    "object histories: an Image / ImageBatch is resampled as it is at the time of the call - data = what its tensor() holds then "
    "(in-place edits through the object itself, tensor() views and normalize_ are visible by construction of torch views, their "
    "arithmetic is not asserted), header = the Grid object last attached by the constructor / grid_() / grid(g) with the in-place "
    "Grid setters applied; to/float/double/type, detach, copy, [...], item, iteration, sub-batch, batch(), from_images, append and "
    "cat keep the header of every image, clone / deepcopy give equal independent headers; out-of-place steps leave the object "
    "they were applied to unchanged (a conversion that returns the object itself is the same object); Image.batch() shares the "
    "Grid object reference (docstring). torch functions that permute the batch dimension (flip(0), roll, index_select) are not "
    "generated: which grid each image of such a result carries is not documented",
]

K = 64.0
VMAX = 100.0


# ---------------------------------------------------------------------------------------
# reference helpers (no deepali)


def cube_axes(ac: bool) -> str:
    return "cube_corners" if ac else "cube"


def content(case, shape) -> np.ndarray:
    """Closed-form image content, array (N, C) + shape with values in [0, VMAX]."""
    N, C = case["N"], case["C"]
    if case["content"] == "noise":
        return hash_noise((N, C) + tuple(shape), case["key"], 0.0, VMAX)
    D = len(shape)
    w = case["waves"]
    out = np.zeros((N, C) + tuple(shape))
    for b in range(N):
        for c in range(C):
            ww = [w[(k + b + c) % D] for k in range(D)]
            sign = -1.0 if (b + c) % 2 else 1.0
            out[b, c] = VMAX / 2 + sign * smooth_field(tuple(shape), ww, VMAX / 2 * (1 - 0.2 * c))
    return out


_SITK = []


def _sitk():
    """SimpleITK, restricted to one thread (the images are tiny; ITK's default thread pool only adds overhead)."""
    if not _SITK:
        import SimpleITK as sitk

        sitk.ProcessObject.SetGlobalDefaultNumberOfThreads(1)
        _SITK.append(sitk)
    return _SITK[0]


def sitk_image(m: ref.GridModel, arr: np.ndarray):
    sitk = _sitk()
    img = sitk.GetImageFromArray(np.ascontiguousarray(arr, dtype=np.float64))
    img.SetOrigin([float(v) for v in m.o])
    img.SetSpacing([float(v) for v in m.s])
    img.SetDirection([float(v) for v in m.R.flatten()])
    return img


def itk_resample(ms: ref.GridModel, arr: np.ndarray, mt: ref.GridModel, mode: str, world_affine=None) -> np.ndarray:
    """sitk.Resample of the float64 image (arr on header ms) onto the header mt; NaN outside ITK's buffer."""
    sitk = _sitk()
    D = ms.D
    if world_affine is None:
        tx = sitk.Transform(D, sitk.sitkIdentity)
    else:
        tx = sitk.AffineTransform(D)
        tx.SetCenter([0.0] * D)
        tx.SetMatrix([float(v) for v in world_affine[:, :D].flatten()])
        tx.SetTranslation([float(v) for v in world_affine[:, D]])
    interp = sitk.sitkLinear if mode == "linear" else sitk.sitkNearestNeighbor
    out = sitk.Resample(sitk_image(ms, arr), [int(v) for v in mt.n], tx, interp, [float(v) for v in mt.o],
                        [float(v) for v in mt.s], [float(v) for v in mt.R.flatten()], float("nan"), sitk.sitkFloat64)
    return sitk.GetArrayFromImage(out)


def world_span(*models) -> float:
    return max(float(np.abs(m.c).max() + np.abs(m.s * m.n).sum()) for m in models)


def index_cond(ms: ref.GridModel, mt: ref.GridModel, idx: np.ndarray, extra: float = 0.0) -> float:
    """(|c| + extent) / min spacing + n  (DESIGN section 3), with n replaced by the largest |source index| reached."""
    W = max(world_span(ms, mt), extra)
    return W / float(ms.s.min()) + max(float(ms.n.max()), float(np.abs(idx).max()))


def masks(idx: np.ndarray, n: np.ndarray, mode: str, idx_bound: float):
    """(inside, stable): inside = ITK comparison domain; stable = not within the tie margin of a half-integer index."""
    inside = np.all((idx >= 0.01) & (idx <= n - 1.01), axis=-1)
    if mode == "nearest":
        margin = max(0.02, idx_bound)
        frac = np.abs(idx - np.floor(idx) - 0.5)
        stable = np.all(frac >= margin, axis=-1)
    else:
        stable = np.ones(idx.shape[:-1], dtype=bool)
    return inside, stable


def mode_name(mode) -> str:
    return "nearest" if mode in ("nearest", "nn") else "linear"


def padding_arg(p):
    """Case value -> (argument passed to deepali, reference padding, extra value range)."""
    if p is None or p == "zeros":
        return p, "zeros", 0.0
    if p == "border":
        return p, "border", None
    if isinstance(p, dict):  # {"int": 7}
        return int(p["int"]), float(p["int"]), float(p["int"])
    return float(p), float(p), float(p)


def value_range(data: np.ndarray, pad_value) -> float:
    lo, hi = float(data.min()), float(data.max())
    if pad_value is not None:
        lo, hi = min(lo, pad_value), max(hi, pad_value)
    return max(hi - lo, 1e-3)


def rotation_between(g1: dict, g2: dict) -> float:
    """Smallest angle (degrees) between an axis of g1 and the closest axis (up to sign) of g2, maximised over axes."""
    R1 = ref.direction_matrix(g1["rot"], g1["perm"], g1["flip"])
    R2 = ref.direction_matrix(g2["rot"], g2["perm"], g2["flip"])
    c = np.clip(np.abs(R1.T @ R2).max(axis=1), 0, 1)
    return float(np.degrees(np.arccos(c)).max())


def anisotropy(g: dict) -> float:
    return max(g["spacing"]) / min(g["spacing"])


def selftest():
    """The ITK wrapper, the grid model and the numpy interpolator agree on a world-coordinate ramp and on noise."""
    for D, sdesc, tdesc in (
        (2, {"size": [7, 5], "spacing": [0.5, 1.5], "center": [3.0, -2.0], "rot": [0.3], "perm": [1, 0], "flip": [1, -1], "ac": True},
         {"size": [4, 6], "spacing": [0.4, 0.3], "center": [3.2, -1.7], "rot": [-0.7], "perm": [0, 1], "flip": [1, 1], "ac": False}),
        (3, {"size": [5, 4, 6], "spacing": [0.5, 1.5, 0.8], "center": [3.0, -2.0, 7.0], "rot": [0.3, -0.2, 0.5], "perm": [2, 0, 1],
             "flip": [1, 1, 1], "ac": False},
         {"size": [3, 4, 3], "spacing": [0.4, 0.3, 0.6], "center": [3.1, -1.9, 7.2], "rot": [-0.7, 0.1, 0.2], "perm": [0, 1, 2],
          "flip": [1, 1, 1], "ac": True}),
    ):
        ms, mt = ref.GridModel.from_desc(sdesc), ref.GridModel.from_desc(tdesc)
        shape = tuple(int(v) for v in ms.n[::-1])
        idx = mt.points(mt.index_points(), "grid", "grid", ms)
        inside, _ = masks(idx, ms.n, "linear", 0.0)
        assert inside.sum() >= 4, "self-test geometry has too few inside samples"
        wt = mt.world_points()
        for k in range(D):
            ramp = ms.world_points()[..., k]
            assert ramp.shape == shape
            out = itk_resample(ms, ramp, mt, "linear")
            assert np.allclose(out[inside], wt[..., k][inside], atol=1e-9), "ITK wrapper / grid model disagree on a world ramp"
            assert np.allclose(ref.interp(ramp, idx, "linear", "border")[inside], wt[..., k][inside], atol=1e-9)
        noise = hash_noise(shape, 5, 0.0, VMAX)
        for mode in ("linear", "nearest"):
            out = itk_resample(ms, noise, mt, mode)
            ins, stable = masks(idx, ms.n, mode, 0.0)
            m = ins & stable
            assert np.allclose(out[m], ref.interp(noise, idx, mode, "zeros")[m], atol=1e-9), "numpy interpolator != ITK"
        far = np.full((1, D), -3.0)
        assert np.allclose(ref.interp(noise, far, "linear", 7.5), 7.5) and np.allclose(ref.interp(noise, far, "linear", "zeros"), 0.0)
        assert np.allclose(ref.interp(noise, far, "linear", "border"), noise[(0,) * D])
        # derivation model of the extra routes: setters / copies, and its conversion to a reference header
        s0 = C3.State.from_desc(sdesc)
        m0 = state_model(s0)
        assert np.allclose(m0.o, ms.o) and np.allclose(m0.A, ms.A) and np.allclose(m0.n, ms.n)
        o = [1.5, -2.0, 0.25][:D]
        assert np.allclose(state_model(derive_model(s0, {"op": "set_origin", "value": o})[0]).o, o)
        s1 = derive_model(s0, {"op": "set_spacing", "value": [2.0] * D})[0]
        assert np.allclose(s1.c, s0.c) and np.allclose(state_model(s1).s, 2.0) and derive_model(s0, {"op": "deepcopy"})[0] is s0
        s2 = derive_model(s0, {"op": "resample", "form": "list", "spacing": [float(v) * 0.8 for v in s0.s]})[0]
        assert np.allclose(s2.c, s0.c) and np.all(s2.extent() >= s0.extent() - 1e-12) and s2.n == [int(math.ceil(v / 0.8 - 1e-9)) for v in s0.n]
    # rounding helper: exact on representable values, nearest otherwise, monotone
    x = np.array([0.1, 0.5, 100.03, -3.3, 65.0])
    assert np.array_equal(round_to(x, torch.float16), x.astype(np.float16).astype(np.float64))
    assert np.array_equal(round_to(np.array([0.5, 96.0, -2.0]), torch.bfloat16), np.array([0.5, 96.0, -2.0]))
    assert abs(round_to(np.array([100.3]), torch.bfloat16)[0] - 100.3) <= 0.25 and np.all(np.diff(round_to(np.sort(x), torch.bfloat16)) >= 0)


# ---------------------------------------------------------------------------------------
# generators


def _sig(x: float, digits: int = 4) -> float:
    return float(f"{x:.{digits}g}")


def max_n(D: int) -> int:
    return 12 if D == 2 else 7


@st.composite
def grid_sets(draw, D: int, N: int, src_mode: str, tgt_mode: str, cover=(0.2, 1.4), mag: float = 200.0, ssize=None, tsize=None):
    """Source/target grid descriptors whose domains overlap by construction.

    An anchor point is drawn in world space; every source grid (independent spacing/direction/align_corners, common
    size) is placed so that the anchor sits at a relative position in [0.2, 0.8] of its index range; every target grid
    (independent direction/align_corners, common size, extent = cover x geometric-mean source extent) is centred at
    the anchor plus a jitter of at most half a target sample.
    """
    anchor = np.array(draw(gen.centers(D, mag)), dtype=np.float64)
    ns = N if src_mode == "per_image" else 1
    nt = N if tgt_mode == "per_image" else 1
    ssize = draw(gen.sizes(D, 2, max_n(D))) if ssize is None else list(ssize)
    tsize = draw(gen.sizes(D, 2, max_n(D))) if tsize is None else list(tsize)
    srcs, tgts = [], []
    for _ in range(ns):
        d = draw(gen.directions(D))
        g = {"size": ssize, "spacing": draw(gen.spacings(D, 0.1, 10.0)), "rot": d["rot"], "perm": d["perm"], "flip": d["flip"],
             "kind": d["kind"], "ac": draw(st.booleans())}
        rel = np.array(draw(st.lists(gen.qfloat(0.2, 0.8, 0.01), min_size=D, max_size=D)))
        A = ref.direction_matrix(g["rot"], g["perm"], g["flip"]) @ np.diag(g["spacing"])
        n1 = np.array(ssize, dtype=np.float64) - 1
        c = anchor - A @ (rel * n1 - n1 / 2)
        g["center"] = [round(float(v), 3) for v in c]
        srcs.append(g)
    ext = np.array([(n - 1) * s for n, s in zip(srcs[0]["size"], srcs[0]["spacing"])])
    L = float(np.exp(np.log(ext).mean()))
    for _ in range(nt):
        d = draw(gen.directions(D))
        cov = draw(st.one_of(gen.logfloat(*cover).map(lambda v: [v] * D), st.lists(gen.logfloat(*cover), min_size=D, max_size=D)))
        sp = [_sig(cv * L / (n - 1)) for cv, n in zip(cov, tsize)]
        jit = np.array(draw(st.lists(gen.qfloat(-0.5, 0.5, 0.01), min_size=D, max_size=D))) * np.array(sp)
        g = {"size": tsize, "spacing": sp, "rot": d["rot"], "perm": d["perm"], "flip": d["flip"], "kind": d["kind"],
             "ac": draw(st.booleans()), "center": [round(float(v), 3) for v in anchor + jit]}
        tgts.append(g)
    return srcs, tgts


def paddings():
    return st.one_of(st.just("zeros"), st.none(), st.just("border"), st.just("border"), gen.qfloat(-50.0, 150.0, 0.5),
                     st.integers(-20, 120).map(lambda v: {"int": v}))


def modes():
    return st.sampled_from(["linear", "linear", "nearest", "nearest", None, "bilinear", "nn"])


@st.composite
def content_fields(draw, D):
    return {"content": draw(st.sampled_from(["noise", "noise", "smooth"])), "key": draw(st.integers(0, 10 ** 6)),
            "waves": draw(st.lists(st.integers(1, 3), min_size=D, max_size=D)),
            "dtype": draw(st.sampled_from(["float32", "float32", "float32", "float64"]))}


@st.composite
def resample_cases(draw, cover=(0.2, 1.4)):
    D = draw(gen.dims())
    N = draw(st.sampled_from([1, 1, 2, 3]))
    via = draw(st.sampled_from(["Image", "ImageBatch"])) if N == 1 else "ImageBatch"
    src_mode = draw(st.sampled_from(["shared", "per_image"])) if N > 1 else "shared"
    tgt_mode = draw(st.sampled_from(["single", "per_image"])) if N > 1 else "single"
    srcs, tgts = draw(grid_sets(D, N, src_mode, tgt_mode, cover))
    if via == "Image":
        tgt_arg = "grid"
    elif tgt_mode == "per_image":
        tgt_arg = "list"
    else:
        tgt_arg = draw(st.sampled_from(["grid", "list_of_one", "replicated"]))
    case = {"D": D, "N": N, "C": draw(st.integers(1, 3)), "via": via, "src": srcs, "tgt": tgts, "tgt_arg": tgt_arg,
            "src_arg": draw(st.sampled_from(["grid", "list"])) if len(srcs) == 1 and via == "ImageBatch" else "list",
            "mode": draw(modes()), "padding": draw(paddings())}
    case.update(draw(content_fields(D)))
    return case


# ---------------------------------------------------------------------------------------
# shared evaluation


class Geometry:
    """Float64 reference quantities for one (source, target) pair."""

    def __init__(self, sdesc, tdesc, mode, src_index=None, extra_world=0.0, models=None):
        if models is None:
            self.ms = ref.GridModel.from_desc(sdesc)
            self.mt = ref.GridModel.from_desc(tdesc)
        else:  # reference headers modelled elsewhere (derived grids)
            self.ms, self.mt = models
        self.idx = self.mt.points(self.mt.index_points(), "grid", "grid", self.ms) if src_index is None else src_index
        self.cond = index_cond(self.ms, self.mt, self.idx, extra_world)
        self.idx_bound = K * EPS32 * self.cond
        self.inside, self.stable = masks(self.idx, self.ms.n, mode, self.idx_bound)


def value_bound(refdata: np.ndarray, pad_value, mode: str, exact_values: bool) -> float:
    """Rounding of the intensity arithmetic itself (independent of the geometry).

    float32 multilinear interpolation: D + 2 roundings per weight, one per product, 2^D - 1 in the sum -> at most
    (D + 2 + 2^D) / 2 <= 6.5 eps32 max|v|; the constant-padding emulation (v - c) + c adds eps32 (|v| + |c|); a float64
    image sampled at float32 coordinates is cast to float32 (eps32 |v| / 2).  16 eps32 (max|v| + |c|) covers all three.
    Nearest-neighbour sampling of a float32 image with zeros/border padding involves no arithmetic on the values: exact."""
    if mode == "nearest" and exact_values:
        return 1e-12
    vmax = float(np.abs(refdata).max()) + (abs(pad_value) if pad_value else 0.0)
    return 16 * EPS32 * max(vmax, 1e-3)


def compare(out: np.ndarray, refdata: np.ndarray, geo: Geometry, mode: str, ref_pad, pad_value, what: str,
            world_affine=None, use_itk=True, prefix="resample", exact_values=True):
    """Compare one image (C, ...) with ITK inside the field of view and with the numpy reference everywhere.
    Returns (max ratio, number of ITK-compared samples, number of samples compared outside the field of view)."""
    D = geo.ms.D
    rng = value_range(refdata, pad_value)
    bound = value_bound(refdata, pad_value, mode, exact_values) + (0.0 if mode == "nearest" else rng * D * geo.idx_bound)
    worst = 0.0
    valid = geo.inside & geo.stable
    for c in range(refdata.shape[0]):
        if use_itk and valid.any():
            itk = itk_resample(geo.ms, refdata[c], geo.mt, mode, world_affine)
            v = valid & np.isfinite(itk)
            worst = max(worst, check_close(out[c][v], itk[v], bound, f"{prefix}_vs_itk_{mode}", f"{what} channel {c}"))
        expect = ref.interp(refdata[c], geo.idx, mode, ref_pad)
        s = geo.stable
        worst = max(worst, check_close(out[c][s], expect[s], bound, f"{prefix}_vs_reference_{mode}_padding_{pad_kind(ref_pad)}",
                                       f"{what} channel {c}"))
    n_out = int((geo.stable & ~np.all((geo.idx >= 0) & (geo.idx <= geo.ms.n - 1), axis=-1)).sum())
    return worst if mode != "nearest" else 0.0, int(valid.sum()), n_out


def values_exact(dtype_name: str, coords_dtype_name: str, pad_value) -> bool:
    """No arithmetic touches the values in nearest mode: no constant-padding emulation and no cast to the coordinate dtype."""
    return (not pad_value) and (dtype_name == "float32" or coords_dtype_name == "float64")


def pad_kind(ref_pad) -> str:
    return ref_pad if isinstance(ref_pad, str) else "constant"


def geometry_labels(case, sdesc, tdesc):
    return [f"D={case['D']}", f"src_ac={sdesc['ac']}", f"tgt_ac={tdesc['ac']}", f"src={sdesc['kind']}", f"tgt={tdesc['kind']}"]


def pair_nontrivial(sdesc, tdesc) -> bool:
    return rotation_between(sdesc, tdesc) >= 5.0 and max(anisotropy(sdesc), anisotropy(tdesc)) >= 1.5


def grids_equal(a, b) -> bool:
    return a == b and a.align_corners() == b.align_corners()


# ---------------------------------------------------------------------------------------
# facet 1 + 2: Image.sample(grid) / ImageBatch.sample(grid | grids)


def run_resample(case):
    from deepali.data import Image, ImageBatch

    D, N, C = case["D"], case["N"], case["C"]
    srcs, tgts = case["src"], case["tgt"]
    mode = mode_name(case["mode"])
    pad, ref_pad, pad_value = padding_arg(case["padding"])
    dt = tdtype(case["dtype"])
    sshape = tuple(srcs[0]["size"][::-1])
    tshape = tuple(tgts[0]["size"][::-1])
    data = torch.tensor(content(case, sshape), dtype=dt)
    data0 = data.clone()
    refdata = data.double().numpy()
    sgrids = [make_grid(g) for g in srcs]
    tgrids = [make_grid(g) for g in tgts]
    kw = {}
    if case["mode"] is not None:
        kw["mode"] = case["mode"]
    if pad is not None:
        kw["padding"] = pad
    if case["via"] == "Image":
        img = Image(data[0], sgrids[0])
        res = img.sample(tgrids[0], **kw)
        if not isinstance(res, Image):
            raise Violation("result_type", f"Image.sample(Grid) returned {type(res).__name__}")
        out = res.tensor().unsqueeze(0)
        out_grids = [res.grid()]
    else:
        batch = ImageBatch(data, sgrids[0] if case["src_arg"] == "grid" else (sgrids * N if len(sgrids) == 1 else sgrids))
        if len(batch.grids()) != N:
            raise Violation("batch_grid_count", f"ImageBatch of {N} images constructed with {len(batch.grids())} grids")
        arg = {"grid": tgrids[0], "list_of_one": [tgrids[0]], "replicated": [tgrids[0]] * N, "list": tgrids}[case["tgt_arg"]]
        res = batch.sample(arg, **kw)
        if not isinstance(res, ImageBatch):
            raise Violation("result_type", f"ImageBatch.sample(grid) returned {type(res).__name__}")
        out = res.tensor()
        out_grids = list(res.grids())
    if not torch.equal(data, data0):
        raise Violation("input_modified", "sample() modified the image data in place")
    if tuple(out.shape) != (N, C) + tshape:
        raise Violation("result_shape", f"sampled data has shape {tuple(out.shape)}, expected {(N, C) + tshape}")
    if out.dtype != dt:
        raise Violation("result_dtype", f"sampled data has dtype {out.dtype} for {dt} image")
    if len(out_grids) != N:
        raise Violation("single_target_grid_count" if len(tgts) == 1 and case["tgt_arg"] != "replicated" else "result_grid_count",
                        f"sampling {N} images on target argument '{case['tgt_arg']}' returned {len(out_grids)} grid(s) for "
                        f"{out.shape[0]} images")
    for i, g in enumerate(out_grids):
        if not grids_equal(g, tgrids[min(i, len(tgrids) - 1)]):
            raise Violation("result_grid", f"image {i} of the result does not carry its target grid")
    if case["via"] == "ImageBatch" and N > 1:
        item = res[N - 1]
        if not grids_equal(item.grid(), tgrids[-1]):
            raise Violation("result_grid", f"item {N - 1} of the result does not carry its target grid")
    out_np = out.detach().double().numpy()
    worst, n_valid, n_out, nt = 0.0, 0, 0, False
    for b in range(N):
        sdesc, tdesc = srcs[min(b, len(srcs) - 1)], tgts[min(b, len(tgts) - 1)]
        geo = Geometry(sdesc, tdesc, mode)
        r, nv, no = compare(out_np[b], refdata[b], geo, mode, ref_pad, pad_value,
                            f"{case['via']}.sample image {b} mode={case['mode']} padding={case['padding']}",
                            exact_values=values_exact(case["dtype"], "float32", pad_value))
        worst = max(worst, r)
        n_valid += nv
        n_out += no
        nt = nt or (pair_nontrivial(sdesc, tdesc) and nv >= 8)
    s0, t0 = srcs[0], tgts[0]
    labels = geometry_labels(case, s0, t0) + [
        f"mode={mode}", f"pad={pad_kind(ref_pad)}", f"N={N}", f"C={C}", f"via={case['via']}", case["content"], case["dtype"],
        f"src_grids={'per_image' if len(srcs) > 1 else 'shared'}", f"tgt_arg={case['tgt_arg']}",
        "ac_differs" if s0["ac"] != t0["ac"] else "ac_same", "outside>=8" if n_out >= 8 else "outside<8",
        "valid>=8" if n_valid >= 8 else "valid<8"]
    return {"ratio": worst, "nontrivial": nt, "labels": labels, "n_out": n_out}


def run_padding(case):
    info = run_resample(case)
    info["nontrivial"] = bool(info["n_out"] >= 8 and pair_nontrivial(case["src"][0], case["tgt"][0]))
    return info


# ---------------------------------------------------------------------------------------
# facet 3: sampling on the own grid


@st.composite
def own_grid_cases(draw):
    D = draw(gen.dims())
    N = draw(st.sampled_from([1, 2, 3]))
    srcs, _ = draw(grid_sets(D, N, "per_image" if N > 1 else "shared", "single"))
    case = {"D": D, "N": N, "C": draw(st.integers(1, 2)), "src": srcs, "via": draw(st.sampled_from(["Image", "ImageBatch"])) if N == 1 else "ImageBatch",
            "target": draw(st.sampled_from(["same_object", "rebuilt", "other_align_corners"])),
            "mode": draw(st.sampled_from(["linear", "nearest"])), "padding": draw(st.sampled_from(["zeros", "border", 30.0]))}
    case.update(draw(content_fields(D)))
    return case


def run_own_grid(case):
    from deepali.data import Image, ImageBatch

    D, N = case["D"], case["N"]
    srcs = case["src"]
    dt = tdtype(case["dtype"])
    sshape = tuple(srcs[0]["size"][::-1])
    data = torch.tensor(content(case, sshape), dtype=dt)
    refdata = data.double().numpy()
    sgrids = [make_grid(g) for g in srcs]
    how = case["target"]

    def variant(g, desc):
        if how == "same_object":
            return g
        if how == "rebuilt":
            return make_grid(desc)
        return make_grid(dict(desc, ac=not desc["ac"]))

    targets = [variant(g, d) for g, d in zip(sgrids, srcs)]
    kw = {"mode": case["mode"], "padding": case["padding"]}
    rng = value_range(refdata, None)
    pv = padding_arg(case["padding"])[2]
    worst = 0.0
    if case["via"] == "Image":
        img = Image(data[0], sgrids[0])
        res = img.sample(targets[0], **kw)
        if not isinstance(res, Image):
            raise Violation("result_type", f"Image.sample(own grid) returned {type(res).__name__}")
        outs = [res.tensor().unsqueeze(0)]
        rgrids = [[res.grid()]]
    else:
        batch = ImageBatch(data, sgrids)
        res = batch.sample(targets if N > 1 else targets[0], **kw)
        if not isinstance(res, ImageBatch):
            raise Violation("result_type", f"ImageBatch.sample(own grids) returned {type(res).__name__}")
        outs = [res.tensor()]
        rgrids = [list(res.grids())]
    for out, gs in zip(outs, rgrids):
        if tuple(out.shape) != tuple(data.shape):
            raise Violation("own_grid_shape", f"sample(own grid) has shape {tuple(out.shape)} for image of shape {tuple(data.shape)}")
        if len(gs) != N:
            raise Violation("result_grid_count", f"sample(own grids) returned {len(gs)} grids for {N} images")
        for b in range(N):
            ms = ref.GridModel.from_desc(srcs[b])
            idx = ms.index_points()
            bound = rng * D * K * EPS32 * index_cond(ms, ms, idx) + value_bound(refdata[b], pv, "linear", False)
            worst = max(worst, check_close(out[b], refdata[b], bound, "own_grid_identity",
                                           f"{case['via']}.sample({how}) image {b} mode={case['mode']}"))
            if not gs[b] == sgrids[b]:
                raise Violation("own_grid_result_grid", f"result image {b} does not carry its own grid")
    # identity through the computing path: a batch whose second grid differs is sampled on [g0, g0]
    nt = gen.grid_is_anisotropic(srcs[0])
    if N > 1 and how != "same_object":
        batch = ImageBatch(data, sgrids)
        res = batch.sample([targets[0]] * N, **kw)
        out = res.tensor().double().numpy()
        ms = ref.GridModel.from_desc(srcs[0])
        bound = value_bound(refdata[0], pv, case["mode"], values_exact(case["dtype"], "float32", pv))
        if case["mode"] != "nearest":
            bound += rng * D * K * EPS32 * index_cond(ms, ms, ms.index_points())
        worst = max(worst, check_close(out[0], refdata[0], bound, "own_grid_identity_computed",
                                       f"image 0 of a batch with different grids sampled on its own grid ({how}) mode={case['mode']}"))
        if len(res.grids()) != N:
            raise Violation("result_grid_count", f"sample({N} grids) returned {len(res.grids())} grids")
        # the other images do not live on targets[0]: they must really be resampled (no identity short-cut for the batch)
        tdesc = srcs[0] if how == "rebuilt" else dict(srcs[0], ac=not srcs[0]["ac"])
        _, ref_pad, pad_value = padding_arg(case["padding"])
        for b in range(1, N):
            # (when every image already lives on the target's sample positions deepali returns the batch itself: Grid.__eq__
            # ignores the align_corners flag by design, so the flag of the result is only asserted when image b was resampled)
            same_positions = all(sgrids[k] == targets[0] for k in range(N))
            if not (res.grids()[b] == targets[0] and (same_positions or res.grids()[b].align_corners() == targets[0].align_corners())):
                raise Violation("result_grid", f"image {b} of the result does not carry its target grid")
            geo = Geometry(srcs[b], tdesc, case["mode"])
            r, _, _ = compare(out[b], refdata[b], geo, case["mode"], ref_pad, pad_value,
                              f"image {b} of a batch with different grids sampled on the grid of image 0 ({how})",
                              prefix="own_grid_other_image", exact_values=values_exact(case["dtype"], "float32", pad_value))
            worst = max(worst, r)
        nt = nt and gen.grid_is_oblique(srcs[0])
    return {"ratio": worst if case["mode"] != "nearest" else 0.0, "nontrivial": nt,
            "labels": [f"target={how}", f"via={case['via']}", f"N={N}", f"D={D}", f"ac={srcs[0]['ac']}", f"mode={case['mode']}"]}


# ---------------------------------------------------------------------------------------
# facet 4: sample(coords)


@st.composite
def coords_cases(draw):
    D = draw(gen.dims())
    N = draw(st.sampled_from([1, 1, 2]))
    via = draw(st.sampled_from(["Image", "ImageBatch"])) if N == 1 else "ImageBatch"
    src_mode = draw(st.sampled_from(["shared", "per_image"])) if N > 1 else "shared"
    srcs, tgts = draw(grid_sets(D, N, src_mode, "single", cover=(0.3, 2.0)))
    case = {"D": D, "N": N, "C": draw(st.integers(1, 2)), "via": via, "src": srcs, "tgt": tgts,
            "form": draw(st.sampled_from(["grid", "flat", "function"])),
            "coords_batch": draw(st.sampled_from(["one", "N"])) if src_mode == "shared" else "N",
            "coords_dtype": draw(st.sampled_from(["float32", "float32", "float64"])),
            "mode": draw(st.sampled_from(["linear", "nearest"])), "padding": draw(paddings())}
    case.update(draw(content_fields(D)))
    return case


def run_coords(case):
    from deepali.core import functional as U
    from deepali.data import Image, ImageBatch

    D, N, C = case["D"], case["N"], case["C"]
    srcs, tdesc = case["src"], case["tgt"][0]
    mode = case["mode"]
    pad, ref_pad, pad_value = padding_arg(case["padding"])
    dt = tdtype(case["dtype"])
    cdt = tdtype(case["coords_dtype"])
    sshape = tuple(srcs[0]["size"][::-1])
    tshape = tuple(tdesc["size"][::-1])
    data = torch.tensor(content(case, sshape), dtype=dt)
    refdata = data.double().numpy()
    sgrids = [make_grid(g) for g in srcs]
    tgrid = make_grid(tdesc)
    ac0 = srcs[0]["ac"]  # convention of the batch = convention of its first grid (ImageBatch.align_corners)
    geos = [Geometry(srcs[min(b, len(srcs) - 1)], tdesc, mode) for b in range(N)]
    # normalised coordinates from the float64 model: target index -> world -> source cube (convention of the image)
    cube = [g.mt.points(g.mt.index_points(), "grid", cube_axes(ac0), g.ms) for g in geos]
    nb = N if case["coords_batch"] == "N" else 1
    cnp = np.stack(cube[:nb], 0)
    flat = case["form"] == "flat"
    if flat:
        cnp = cnp.reshape(nb, -1, D)
    coords = torch.tensor(cnp, dtype=cdt)
    c0 = coords.clone()
    kw = {"mode": mode}
    if pad is not None:
        kw["padding"] = pad
    if case["form"] == "function":
        out = U.sample_image(data, coords, align_corners=ac0, **kw)
    elif case["via"] == "Image":
        out = Image(data[0], sgrids[0]).sample(coords[0], **kw).unsqueeze(0)
    else:
        batch = ImageBatch(data, sgrids if len(sgrids) > 1 else sgrids[0])
        out = batch.sample(coords, **kw)
    if type(out) is not torch.Tensor:
        raise Violation("coords_result_type", f"sample(coords) returned {type(out).__name__}, documented: Tensor")
    if not torch.equal(coords, c0):
        raise Violation("input_modified", "sample(coords) modified the coordinates")
    exp_shape = (N, C) + ((int(np.prod(tshape)),) if flat else tshape)
    if tuple(out.shape) != exp_shape:
        raise Violation("coords_result_shape", f"sample(coords {tuple(coords.shape)}) has shape {tuple(out.shape)}, expected {exp_shape}")
    if out.dtype != dt:
        raise Violation("result_dtype", f"sampled data has dtype {out.dtype} for {dt} image")
    out_np = out.double().numpy().reshape((N, C) + tshape)
    worst, n_valid = 0.0, 0
    for b in range(N):
        r, nv, _ = compare(out_np[b], refdata[b], geos[b], mode, ref_pad, pad_value,
                           f"sample(coords) form={case['form']} image {b} padding={case['padding']}", prefix="coords",
                           exact_values=values_exact(case["dtype"], case["coords_dtype"], pad_value))
        worst = max(worst, r)
        n_valid += nv
    # agreement with sample(target grid): same values through deepali's own coordinate computation
    batch = ImageBatch(data, sgrids if len(sgrids) > 1 else sgrids[0])
    via_grid = batch.sample([tgrid] * N, **kw).tensor().double().numpy()
    for b in range(N):
        g = geos[b]
        rng = value_range(refdata[b], pad_value)
        bound = 2 * value_bound(refdata[b], pad_value, mode, values_exact(case["dtype"], "float32", pad_value)
                                and values_exact(case["dtype"], case["coords_dtype"], pad_value))
        if mode != "nearest":
            bound += 2 * rng * D * g.idx_bound
        worst = max(worst, check_close(out_np[b][:, g.stable], via_grid[b][:, g.stable], bound, f"coords_vs_grid_{mode}",
                                       f"sample(coords) vs sample(target grid) image {b}"))
    nt = pair_nontrivial(srcs[0], tdesc) and n_valid >= 8
    return {"ratio": worst if mode != "nearest" else 0.0, "nontrivial": nt,
            "labels": geometry_labels(case, srcs[0], tdesc) + [f"form={case['form']}", f"via={case['via']}", f"N={N}", f"mode={mode}",
                                                               f"pad={pad_kind(ref_pad)}", f"coords={case['coords_dtype']}",
                                                               f"coords_batch={case['coords_batch']}", case["dtype"]]}


# ---------------------------------------------------------------------------------------
# facet 5: modules


@st.composite
def module_cases(draw):
    D = draw(gen.dims())
    module = draw(st.sampled_from(["SampleImage", "AlignImage", "AlignImage", "TransformImage"]))
    if module == "SampleImage":
        transform = "none"
    elif module == "AlignImage":
        transform = draw(st.sampled_from(["none", "identity", "affine", "affine", "linear"]))
    else:
        opts = ["none", "flow", "flow_unbatched"] + (["identity", "affine", "affine"] if D == 3 else [])
        transform = draw(st.sampled_from(opts))
    N = draw(st.sampled_from([1, 2]))
    srcs, tgts = draw(grid_sets(D, 1, "shared", "single", cover=(0.2, 1.6)))
    axes = draw(st.sampled_from([None, None, "cube", "cube_corners", "world", "grid"]))
    if transform == "linear" and axes in ("world", "grid"):
        # a (D, D) matrix has no translation: it is linear about the origin of the module axes, which for world/grid axes is
        # not the target centre (a generated rotation/shear would move the target far out of the source domain)
        transform = "affine"
    case = {"D": D, "N": N, "C": draw(st.integers(1, 2)), "module": module, "transform": transform, "src": srcs, "tgt": tgts,
            "axes": axes,
            "E": draw(st.lists(gen.qfloat(-0.3, 0.3, 0.01), min_size=D * D, max_size=D * D)),
            "t": draw(st.lists(gen.qfloat(-0.3, 0.3, 0.01), min_size=D, max_size=D)),
            "tbatch": draw(st.sampled_from(["one", "N"])),
            "call": draw(st.sampled_from(["positional", "positional", "dict", "unbatched", "data_keyword"])),
            "mode": draw(st.sampled_from(["linear", "nearest"])), "padding": draw(paddings()),
            "amp": draw(gen.qfloat(0.0, 0.3, 0.01))}
    case.update(draw(content_fields(D)))
    return case


def run_modules(case):
    from deepali import modules as M

    D, N, C = case["D"], case["N"], case["C"]
    sdesc, tdesc = case["src"][0], case["tgt"][0]
    mode = case["mode"]
    pad, ref_pad, pad_value = padding_arg(case["padding"])
    dt = tdtype(case["dtype"])
    ms, mt = ref.GridModel.from_desc(sdesc), ref.GridModel.from_desc(tdesc)
    sshape, tshape = tuple(sdesc["size"][::-1]), tuple(tdesc["size"][::-1])
    call = case["call"]
    if call == "unbatched":
        N = 1
    data = torch.tensor(content(dict(case, N=N), sshape), dtype=dt)
    refdata = data.double().numpy()
    sgrid, tgrid = make_grid(sdesc), make_grid(tdesc)
    axes = case["axes"]
    ax = cube_axes(tdesc["ac"]) if axes is None else axes  # documented default: cube axes of the target's convention
    x = mt.points(mt.index_points(), "grid", ax)  # target samples w.r.t. the module's axes, (..., X, D)
    transform = case["transform"]
    nb = N if case["tbatch"] == "N" else 1
    mats, src_idx, world_aff = None, [], []
    extra_world = float(np.abs(x).max()) if ax == "world" else 0.0
    if transform in ("identity", "affine", "linear"):
        mats = []
        for b in range(nb):
            if transform == "identity":
                Ac = ref.hom(np.eye(D), np.zeros(D))
            else:
                E = np.array(case["E"]).reshape(D, D) / (b + 1)
                t = np.array(case["t"]) * (0.0 if transform == "linear" else 1.0) / (b + 1)
                Ac = ref.hom(np.eye(D) + E, t)  # w.r.t. the target cube of the target's convention
            cb = cube_axes(tdesc["ac"])
            A = ref.hmul(mt.matrix(cb, ax), Ac, mt.matrix(ax, cb))
            mats.append(A)
        for b in range(N):
            A = mats[min(b, nb - 1)]
            y = ref.happly(A, x)
            src_idx.append(mt.points(y, ax, "grid", ms))
            world_aff.append(ref.hmul(mt.matrix(ax, "world"), A, mt.matrix("world", ax)))
            if ax == "world":
                extra_world = max(extra_world, float(np.abs(y).max()))
        T = np.stack(mats, 0)
        if transform == "linear":
            T = T[:, :, :D]
        targ = torch.tensor(T, dtype=torch.float32)
    elif transform in ("flow", "flow_unbatched"):
        # displacement of the target samples in `ax` units: smooth field scaled by the axis-wise extent of the samples
        span = (x.reshape(-1, D).max(0) - x.reshape(-1, D).min(0)) / 2
        nbf = 1 if transform == "flow_unbatched" else nb
        flows = []
        for b in range(nbf):
            u = np.stack([smooth_field(tshape, [1 + (k + b) % 2] * D, case["amp"] * span[k] * (1 if k % 2 == 0 else -1)) for k in range(D)], 0)
            flows.append(u)
        for b in range(N):
            u = flows[min(b, nbf - 1)]
            y = x + np.moveaxis(u, 0, -1)
            src_idx.append(mt.points(y, ax, "grid", ms))
            world_aff.append(None)
            if ax == "world":
                extra_world = max(extra_world, float(np.abs(y).max()))
        U_ = np.stack(flows, 0)
        targ = torch.tensor(U_[0] if transform == "flow_unbatched" else U_, dtype=torch.float32)
    else:
        targ = None
        for b in range(N):
            src_idx.append(mt.points(x, ax, "grid", ms))
            world_aff.append(None)
    kw = dict(sampling=mode)
    if pad is not None:
        kw["padding"] = pad
    else:
        ref_pad, pad_value = ("zeros", 0.0) if case["module"] == "SampleImage" else ("border", None)  # documented defaults
    if axes is not None:
        kw["axes"] = axes
    mod = getattr(M, case["module"])(tgrid, sgrid, **kw)
    first = torch.tensor(x, dtype=torch.float32) if case["module"] == "SampleImage" else targ
    if case["module"] == "SampleImage" and case["tbatch"] == "N":
        first = first.unsqueeze(0)
    inp = data[0] if call == "unbatched" else data
    if call == "dict":
        res = mod(first, {"img": inp})
        if not isinstance(res, dict) or set(res) != {"img"}:
            raise Violation("module_result_type", f"{case['module']}(.., dict) returned {type(res).__name__}")
        out = res["img"]
    elif call == "data_keyword":
        # forward(grid|transform, input=None, data=None, mask=None): "'input', 'data', and/or 'mask' is required"
        out = mod(first, data=inp)
    else:
        out = mod(first, inp)
    if not isinstance(out, torch.Tensor):
        raise Violation("module_result_type", f"{case['module']} returned {type(out).__name__}")
    if call == "unbatched":
        if tuple(out.shape) == (1, C) + tshape and transform != "none" and case["module"] != "SampleImage":
            out = out[0]  # a batched transform applied to an unbatched image: leading batch dimension is acceptable
        if tuple(out.shape) != (C,) + tshape:
            raise Violation("module_result_shape", f"{case['module']} unbatched input: result shape {tuple(out.shape)}, expected {(C,) + tshape}")
        out = out.unsqueeze(0)
    if tuple(out.shape) != (N, C) + tshape:
        raise Violation("module_result_shape", f"{case['module']} result shape {tuple(out.shape)}, expected {(N, C) + tshape}")
    out_np = out.detach().double().numpy()
    worst, n_valid = 0.0, 0
    for b in range(N):
        geo = Geometry(sdesc, tdesc, mode, src_index=src_idx[b], extra_world=extra_world)
        r, nv, _ = compare(out_np[b], refdata[b], geo, mode, ref_pad, pad_value,
                           f"{case['module']}(axes={axes}, transform={transform}, call={call}) image {b} padding={case['padding']}",
                           world_affine=world_aff[b], use_itk=transform not in ("flow", "flow_unbatched"), prefix="module",
                           exact_values=values_exact(case["dtype"], "float32", pad_value))
        worst = max(worst, r)
        n_valid += nv
    moved = transform in ("affine", "linear") or (transform.startswith("flow") and case["amp"] >= 0.05)
    nt = pair_nontrivial(sdesc, tdesc) and n_valid >= 8 and (moved or transform in ("none", "identity"))
    return {"ratio": worst if mode != "nearest" else 0.0, "nontrivial": nt,
            "labels": geometry_labels(case, sdesc, tdesc) + [case["module"], f"transform={transform}", f"axes={axes}", f"call={call}",
                                                            f"N={N}", f"mode={mode}", f"pad={pad_kind(ref_pad)}", f"tbatch={case['tbatch']}"]}


# ---------------------------------------------------------------------------------------
# facet 6: grids derived by deepali's own methods from grids that were used before
#
# A case is a source and a target descriptor plus, for either side, a chain of 0-2 derivation operations.  The grids are
# built from the descriptors, *used* (origin(), points(), coords(), transform(), a sample call ...), then the derived
# grids are produced by deepali (Grid.resample / resize / ... / clone) - optionally with the intermediate grid used again
# between two operations - and finally an image living on the derived source grid is sampled on the derived target grid.
# The reference headers come from the float64 model of the derivation (props/c03.State / model_apply, which is what
# the docstrings of the derivation methods promise) applied to the descriptors; deepali's derived grids are never read
# except for their integer size (needed to allocate the image).  ITK / the numpy interpolator then give the expected data.

COPY_OPS = ("clone", "copy", "deepcopy")
SETTER_OPS = ("set_center", "set_origin", "set_spacing", "set_direction")
RESIZE_OPS = ["resample", "resample", "resample", "resize", "resize", "downsample", "upsample", "pyramid", "cube_grid"]
INDEX_OPS = ["crop", "pad", "center_crop", "center_pad", "narrow", "roi", "pool"]
OTHER_OPS = ["align_corners", "clone", "copy", "deepcopy"] + list(SETTER_OPS)
PRIMES = ("origin", "points", "coords", "transform", "index", "domain")


def derive_cap(D: int) -> int:
    return 40 if D == 2 else 14


def state_model(stt) -> ref.GridModel:
    return ref.GridModel(stt.n, stt.s, center=stt.c, direction=stt.R, align_corners=stt.ac)


def derive_model(stt, op):
    """Reference state after one derivation; returns (state, acceptable sizes per axis or None).

    Raises C3.DomainError if the operation is outside the documented domain or its outcome is implementation-defined."""
    name = op["op"]
    if name in COPY_OPS:
        return stt, None
    if name == "set_center":  # Grid stores its centre: the other attributes stay
        return stt.with_(c=np.asarray(op["value"], dtype=np.float64)), None
    if name == "set_origin":  # origin = world position of index 0  =>  centre = origin + A (n - 1) / 2
        o = np.asarray(op["value"], dtype=np.float64)
        return stt.with_(c=o + (stt.R * stt.s) @ ((stt.nn() - 1) / 2)), None
    if name == "set_spacing":
        return stt.with_(s=np.asarray(op["value"], dtype=np.float64)), None
    if name == "set_direction":
        return stt.with_(R=ref.direction_matrix(op["rot"], op["perm"], op["flip"])), None
    res = C3.model_apply(stt, op)
    if res.extra.get("skip"):
        raise C3.DomainError("outcome not determined by the documentation")
    new = res.states[res.pick if name == "pyramid" else 0]
    return new, (res.alt_sizes if res.tie and res.alt_sizes else None)


def derive_call(g, op):
    """The same derivation executed by deepali."""
    name = op["op"]
    if name == "clone":
        return g.clone()
    if name == "copy":
        return _copy.copy(g)
    if name == "deepcopy":
        return _copy.deepcopy(g)
    if name in SETTER_OPS:
        attr = name[4:]
        if name == "set_direction":
            v = torch.tensor(ref.direction_matrix(op["rot"], op["perm"], op["flip"]), dtype=torch.float64)
        else:
            v = [float(x) for x in op["value"]]
        if op.get("inplace"):
            return getattr(g, attr + "_")(v)
        return getattr(g, attr)(v)
    out = C3.call_op(g, op)
    if name == "pyramid":
        out = out[int(op["pick"])]
    return out


def use_grid(g, how: str, other=None):
    """A use of the grid that has no documented side effect."""
    D = g.ndim
    if how == "origin":
        g.origin()
    elif how == "points":
        g.points()
    elif how == "coords":
        g.coords()
        g.coords(align_corners=not g.align_corners())
    elif how == "transform":
        g.transform()
        g.inverse_transform()
    elif how == "index":
        g.world_to_index(g.index_to_world([0.0] * D))
    elif how == "domain":
        g.same_domain_as(g if other is None else other)
        g.cube()
        g.extent()


# --- generators -----------------------------------------------------------------------


def _acceptable(stt, alt, cap: int) -> bool:
    hi = [max(a) for a in alt] if alt else stt.n
    return min(stt.n) >= 2 and max(hi) <= cap


def g_resize_small(draw, stt, cap):
    D = stt.D
    form = draw(st.sampled_from(["list", "args", "int"]))
    name = draw(st.sampled_from(["resize", "resize", "reshape"]))
    top = [max(2, min(cap, 2 * stt.n[d] + 2)) for d in range(D)]
    if form == "int":
        v = draw(st.integers(2, min(top)))
    else:
        v = [draw(st.integers(2, top[d])) for d in range(D)]
        if name == "reshape":
            v = v[::-1]
    op = {"op": name, "form": form, "ac": draw(st.sampled_from([None, None, True, False]))}
    op["size" if name == "resize" else "shape"] = v
    return op


def g_resample_small(draw, stt, cap):
    D = stt.D
    ext = stt.extent()
    form = draw(st.sampled_from(["list", "list", "args", "scalar", "str", "str"]))
    ms = draw(st.sampled_from([None, None, 2]))

    def cells(nmax):
        return draw(st.integers(2, max(2, nmax))) + draw(st.sampled_from([0.25, 0.5, 0.75, 0.4, 0.0]))

    if form == "str":
        return {"op": "resample", "form": "str", "spacing": draw(st.sampled_from(["min", "max"])), "min_size": ms}
    if form == "scalar":
        return {"op": "resample", "form": "scalar", "spacing": C3._round_sig(float(ext.max()) / cells(min(cap - 1, 2 * max(stt.n) + 3))),
                "min_size": 2}
    sp = [C3._round_sig(float(ext[d]) / cells(min(cap - 1, 2 * stt.n[d] + 3))) for d in range(D)]
    return {"op": "resample", "form": form, "spacing": sp, "min_size": ms}


def g_setter(draw, stt, name):
    D = stt.D
    op = {"op": name, "inplace": draw(st.booleans())}
    if name in ("set_center", "set_origin"):
        rel = np.array(draw(st.lists(gen.qfloat(-0.25, 0.25, 0.01), min_size=D, max_size=D)))
        p = (stt.c if name == "set_center" else stt.origin()) + (stt.R * stt.s) @ (rel * stt.nn())
        op["value"] = [round(float(v), 3) for v in p]
    elif name == "set_spacing":
        f = draw(st.one_of(gen.logfloat(0.6, 1.6).map(lambda v: [v] * D), st.lists(gen.logfloat(0.6, 1.6), min_size=D, max_size=D)))
        op["value"] = [_sig(float(s) * k) for s, k in zip(stt.s, f)]
    else:
        d = draw(gen.directions(D))
        op.update(rot=d["rot"], perm=d["perm"], flip=d["flip"])
    return op


def draw_derivation(draw, stt, cap):
    """One operation inside the domain whose result has 2..cap samples per axis: (op, new state, tie) or None."""
    for _ in range(4):
        name = draw(st.sampled_from(draw(st.sampled_from([RESIZE_OPS, RESIZE_OPS, INDEX_OPS, OTHER_OPS]))))
        if name == "resize":
            op = g_resize_small(draw, stt, cap)
        elif name == "resample":
            op = g_resample_small(draw, stt, cap)
        elif name in COPY_OPS:
            op = {"op": name}
        elif name in SETTER_OPS:
            op = g_setter(draw, stt, name)
        else:
            op = C3.GENERATORS[name](draw, stt)
        if op is None:
            continue
        try:
            new, alt = derive_model(stt, op)
        except C3.DomainError:
            if op.get("ac") is None or op["ac"] is False or op["op"] in SETTER_OPS:
                continue
            op = dict(op, ac=False)
            try:
                new, alt = derive_model(stt, op)
            except C3.DomainError:
                continue
        if _acceptable(new, alt, cap):
            return op, new, alt is not None
    return None


def draw_chain(draw, stt, cap, lengths):
    ops = []
    for _ in range(draw(st.sampled_from(lengths))):
        got = draw_derivation(draw, stt, cap)
        if got is None:
            break
        op, stt, tie = got
        ops.append(op)
        if tie:  # size decided by float32 rounding: accepted either way, nothing is derived from it afterwards
            return ops, stt, True
    return ops, stt, False


@st.composite
def derived_cases(draw):
    D = draw(gen.dims())
    cap = derive_cap(D)
    srcs, tgts = draw(grid_sets(D, 1, "shared", "single", cover=(0.3, 1.4)))
    sdesc, tdesc = srcs[0], tgts[0]
    s0 = C3.State.from_desc(sdesc)
    tgt_from = draw(st.sampled_from(["target", "target", "target", "source", "source", "source_parent"]))
    src_ops, s1, tie = draw_chain(draw, s0, cap, [0, 1, 1, 1, 2])
    if tie and tgt_from == "source":
        tgt_from = "source_parent"
    base = {"target": C3.State.from_desc(tdesc), "source": s1, "source_parent": s0}[tgt_from]
    # an in-place setter of the source chain changes the parent object itself
    if tgt_from == "source_parent":
        for op in src_ops:
            if not op.get("inplace"):
                break
            base = derive_model(base, op)[0]
    tgt_ops, _, _ = draw_chain(draw, base, cap, [1, 1, 2] if tgt_from != "target" else [0, 1, 1, 2])
    primes = draw(st.sampled_from([["sample"], ["origin"], ["points"], ["transform"], ["index"], ["coords", "domain"],
                                   ["sample", "points"], ["origin", "coords"], []]))
    N = draw(st.sampled_from([1, 1, 2]))
    case = {"D": D, "N": N, "C": draw(st.integers(1, 2)), "src": sdesc, "tgt": tdesc, "tgt_from": tgt_from,
            "src_ops": src_ops, "tgt_ops": tgt_ops, "prime": primes, "reprime": draw(st.booleans()),
            "via": draw(st.sampled_from(["Image", "ImageBatch"])) if N == 1 else draw(st.sampled_from(["batch_one_grid", "batch_same_object"])),
            "mode": draw(st.sampled_from(["linear", "linear", "nearest"])), "padding": draw(paddings())}
    case.update(draw(content_fields(D)))
    return case


# --- evaluation -----------------------------------------------------------------------


class Tracked:
    """deepali Grid objects and the reference state each of them must have."""

    def __init__(self):
        self.entries = {}
        self.undetermined = set()
        self.span = 0.0

    def put(self, grid, stt):
        self.entries[id(grid)] = (grid, stt)
        self.span = max(self.span, stt.W())
        return grid

    def state(self, grid):
        return self.entries[id(grid)][1]


def derive_chain(tr: Tracked, grid, ops, reprime: bool, side: str, labels):
    stt = tr.state(grid)
    for k, op in enumerate(ops):
        if id(grid) in tr.undetermined:
            raise Skip("derivation from a grid whose size was decided by float32 rounding")
        try:
            new, alt = derive_model(stt, op)
        except C3.DomainError as e:
            # only reachable when an operation that returned the grid itself was followed by an in-place setter, so that the
            # state the generator planned the remaining chain for is not the state of the object
            raise Skip(f"{op['op']} outside the documented domain for the actual state: {e}") from None
        if min(new.n) < 2:
            raise Skip("derived grid with a single sample along an axis")
        out = derive_call(grid, op)
        from deepali.core import Grid
        if not isinstance(out, Grid):
            raise Violation("derived_grid_type", f"{op['op']} returned {type(out).__name__}")
        size = tuple(int(v) for v in out.size())
        if alt is not None:
            if len(size) != new.D or any(size[i] not in alt[i] for i in range(new.D)):
                raise Violation("derived_grid_size", f"{op} of grid with size {stt.n}: size {size}, expected one of {alt}")
            new = new.with_(n=list(size))
            tr.undetermined.add(id(out))
        elif size != tuple(new.n):
            raise Violation("derived_grid_size", f"{op} of grid with size {stt.n}: size {size}, expected {tuple(new.n)}")
        tr.put(out, new)
        labels.append(f"{side}:{op['op']}" + ("_inplace" if op.get("inplace") else ""))
        grid, stt = out, new
        if reprime and k + 1 < len(ops):
            use_grid(grid, "origin")
            use_grid(grid, "coords")
    return grid


def sample_on(case, tr: Tracked, sgrid, tgrid, via: str, tag: str):
    """Sample an image living on sgrid on tgrid and compare with ITK / numpy on the modelled headers."""
    from deepali.data import Image, ImageBatch

    D, C = case["D"], case["C"]
    N = case["N"] if via.startswith("batch") else 1
    ss, ts = tr.state(sgrid), tr.state(tgrid)
    ms, mt = state_model(ss), state_model(ts)
    mode = mode_name(case["mode"])
    pad, ref_pad, pad_value = padding_arg(case["padding"])
    dt = tdtype(case["dtype"])
    sshape, tshape = tuple(ss.n[::-1]), tuple(ts.n[::-1])
    data = torch.tensor(content(dict(case, N=N), sshape), dtype=dt)
    refdata = data.double().numpy()
    kw = {}
    if case["mode"] is not None:
        kw["mode"] = case["mode"]
    if pad is not None:
        kw["padding"] = pad
    if via == "Image":
        res = Image(data[0], sgrid).sample(tgrid, **kw)
        if not isinstance(res, Image):
            raise Violation("result_type", f"Image.sample(Grid) returned {type(res).__name__}")
        out, out_grids = res.tensor().unsqueeze(0), [res.grid()]
    else:
        batch = ImageBatch(data, sgrid if via != "batch_same_object" else [sgrid] * N)
        res = batch.sample(tgrid if via != "batch_same_object" else [tgrid] * N, **kw)
        if not isinstance(res, ImageBatch):
            raise Violation("result_type", f"ImageBatch.sample(grid) returned {type(res).__name__}")
        out, out_grids = res.tensor(), list(res.grids())
    if tuple(out.shape) != (N, C) + tshape:
        raise Violation(f"{tag}_result_shape", f"sampled data has shape {tuple(out.shape)}, expected {(N, C) + tshape}")
    if len(out_grids) != N:
        raise Violation("result_grid_count", f"sampling {N} images returned {len(out_grids)} grid(s)")
    # own grid up to the align_corners flag: documented short-cut returns the image itself (flag of the result not asserted)
    own = ss.n == ts.n and all(np.allclose(getattr(ss, a), getattr(ts, a), rtol=1e-4, atol=1e-6) for a in ("s", "c", "R"))
    for i, g in enumerate(out_grids):
        if not (g == tgrid and (own or g.align_corners() == tgrid.align_corners())):
            raise Violation(f"{tag}_result_grid", f"image {i} of the result does not carry the target grid")
    geo = Geometry(None, None, mode, models=(ms, mt), extra_world=tr.span)
    out_np = out.detach().double().numpy()
    worst, n_valid = 0.0, 0
    for b in range(N):
        r, nv, _ = compare(out_np[b], refdata[b], geo, mode, ref_pad, pad_value,
                           f"{tag}: {via}.sample image {b} mode={case['mode']} padding={case['padding']} "
                           f"source size {ss.n} target size {ts.n}", prefix=tag,
                           exact_values=values_exact(case["dtype"], "float32", pad_value))
        worst = max(worst, r)
        n_valid += nv
    return worst, n_valid


def run_derived(case):
    sdesc, tdesc = case["src"], case["tgt"]
    tr = Tracked()
    S0 = tr.put(make_grid(sdesc), C3.State.from_desc(sdesc))
    T0 = tr.put(make_grid(tdesc), C3.State.from_desc(tdesc))
    labels = [f"D={case['D']}", f"tgt_from={case['tgt_from']}", f"via={case['via']}", f"mode={mode_name(case['mode'])}",
              "prime=" + ("+".join(case["prime"]) or "none"), f"reprime={case['reprime']}"]
    worst = 0.0
    for how in case["prime"]:
        if how == "sample":
            r, _ = sample_on(case, tr, S0, T0, "Image", "derived_parent_before")
            worst = max(worst, r)
        else:
            use_grid(S0, how, T0)
            use_grid(T0, how, S0)
    S1 = derive_chain(tr, S0, case["src_ops"], case["reprime"], "src", labels)
    base = {"target": T0, "source": S1, "source_parent": S0}[case["tgt_from"]]
    T1 = derive_chain(tr, base, case["tgt_ops"], case["reprime"], "tgt", labels)
    r, n_valid = sample_on(case, tr, S1, T1, case["via"], "derived")
    worst = max(worst, r)
    # the grids the derived ones came from still mean what they meant (or what an in-place setter made of them)
    if S1 is not S0 or T1 is not T0:
        r, _ = sample_on(case, tr, S0, T0, "Image", "derived_parent_after")
        worst = max(worst, r)
    if S1 is not S0 and T1 is not T0:
        r, _ = sample_on(case, tr, S0, T1, "Image", "derived_parent_source")
        worst = max(worst, r)
    derived = bool(case["src_ops"] or case["tgt_ops"])
    if case["tgt_from"] == "target":
        geom_nt = pair_nontrivial(sdesc, tdesc)
    else:
        geom_nt = gen.grid_is_oblique(sdesc) and gen.grid_is_anisotropic(sdesc)
    nt = derived and bool(case["prime"]) and geom_nt and n_valid >= 8
    if not case["src_ops"]:
        labels.append("src:none")
    if not case["tgt_ops"]:
        labels.append("tgt:none")
    labels.append("valid>=8" if n_valid >= 8 else "valid<8")
    return {"ratio": worst if mode_name(case["mode"]) != "nearest" else 0.0, "nontrivial": nt, "labels": labels}


# ---------------------------------------------------------------------------------------
# facet 7: image dtypes (half precision, integer) and long axes
#
# grid_sample documents: "The data type of the returned tensor is data.dtype if it is a floating point type or
# mode="nearest". Otherwise, the output data type matches grid.dtype".  Sampling coordinates are float32 (grids) or what
# the caller passes; the stored voxel values (already rounded to the image dtype) are the input.  The result must therefore
# be the float32 interpolation of those values, rounded once to the result dtype: with e the float64 reference value and
# b the float32 bound used everywhere else in this module, out must lie in [round(e - b), round(e + b)] (rounding to the
# result dtype is monotone).  Nothing else may lose precision - in particular not the coordinates.

HALF_EPS = {"float16": 2.0 ** -10, "bfloat16": 2.0 ** -7}
INT_DTYPES = ("uint8", "int16", "int32", "int64")


def xdtype(name: str) -> torch.dtype:
    return getattr(torch, name)


def round_to(x: np.ndarray, dt: torch.dtype) -> np.ndarray:
    """float64 values rounded to dtype dt (torch's own conversion, the same one deepali's final cast uses)."""
    return torch.from_numpy(np.ascontiguousarray(x, dtype=np.float64)).to(dt).double().numpy()


def compare_cast(out: np.ndarray, refdata: np.ndarray, geo: Geometry, mode: str, ref_pad, pad_value, dtype_name: str, what: str,
                 prefix: str):
    """As compare(), for results stored in a half-precision or integer dtype: interval test after rounding."""
    D = geo.ms.D
    rng = value_range(refdata, pad_value)
    dt = xdtype(dtype_name)
    if mode == "nearest":
        b = 0.0 if not pad_value else value_bound(refdata, pad_value, "linear", False)
    else:
        b = value_bound(refdata, pad_value, "linear", False) + rng * D * geo.idx_bound
    if dtype_name in INT_DTYPES:
        b = 0.0  # nearest neighbour of integers, integer padding constant: (v - c) + c is exact in float32
    worst = 0.0
    valid = geo.inside & geo.stable
    for c in range(refdata.shape[0]):
        cands = [(ref.interp(refdata[c], geo.idx, mode, ref_pad), geo.stable, f"{prefix}_vs_reference_{mode}_padding_{pad_kind(ref_pad)}")]
        if valid.any():
            itk = itk_resample(geo.ms, refdata[c], geo.mt, mode)
            cands.append((itk, valid & np.isfinite(itk), f"{prefix}_vs_itk_{mode}"))
        for e, m, kind in cands:
            o, e = out[c][m], e[m]
            if o.size == 0:
                continue
            if not np.all(np.isfinite(o)):
                raise Violation(kind + ":nonfinite", f"{what} channel {c}: non-finite result")
            lo, hi = round_to(e - b, dt), round_to(e + b, dt)
            bad = (o < lo) | (o > hi)
            if bad.any():
                i = int(np.argmax(np.where(bad, np.abs(o - e), -1.0)))
                raise Violation(kind, f"{what} channel {c}: {int(bad.sum())} of {o.size} samples outside the rounded interval; worst: actual "
                                      f"{o[i]:.9g}, float64 reference {e[i]:.9g}, float32 bound {b:.3g}, admissible [{lo[i]:.9g}, {hi[i]:.9g}] "
                                      f"in {dtype_name}")
            slack = b + HALF_EPS.get(dtype_name, 0.0) * np.maximum(np.abs(e), 1e-3) + 1e-12
            worst = max(worst, float((np.abs(o - e) / slack).max()))
    return worst, int(valid.sum())


def long_sizes(draw, D: int, top: int):
    """Source size with one long axis (coordinate precision matters there), short other axes."""
    k = draw(st.integers(0, D - 1))
    L = draw(st.one_of(st.integers(48, 96), st.integers(48, top)))
    other = 6 if D == 2 else 3
    return [L if d == k else draw(st.integers(2, other)) for d in range(D)]


def dtype_cases(top: int):
    @st.composite
    def cases(draw):
        D = draw(gen.dims())
        N = draw(st.sampled_from([1, 1, 2]))
        dtype = draw(st.sampled_from(["float16", "float16", "float16", "bfloat16", "bfloat16", "bfloat16", "uint8", "int16", "int32", "int64",
                                      "float32", "float64"]))
        long_axis = draw(st.integers(0, 2)) == 0
        ssize = long_sizes(draw, D, top) if long_axis else None
        srcs, tgts = draw(grid_sets(D, 1, "shared", "single", cover=(0.3, 1.6), ssize=ssize))
        route = draw(st.sampled_from(["Image.sample", "ImageBatch.sample", "Image.sample(coords)", "ImageBatch.sample(coords)", "sample_image",
                                      "grid_sample", "SampleImage", "AlignImage"]))
        if route.startswith("Image."):
            N = 1
        if dtype in INT_DTYPES:  # padding constants representable in the image dtype
            padding = draw(st.one_of(st.just("zeros"), st.none(), st.just("border"), st.integers(0, 120).map(lambda v: {"int": v}),
                                     st.integers(0, 120).map(float)))
        else:
            padding = draw(paddings())
        case = {"D": D, "N": N, "C": draw(st.integers(1, 2)), "src": srcs, "tgt": tgts, "route": route, "long": long_axis,
                "coords_dtype": draw(st.sampled_from(["float32", "float32", "float64"])),
                "coords_batch": draw(st.sampled_from(["one", "N"])),
                "mode": draw(st.sampled_from(["linear", "linear", "nearest"])), "padding": padding}
        case.update(draw(content_fields(D)))
        case["dtype"] = dtype
        return case

    return cases


def run_dtypes(case):
    from deepali import modules as M
    from deepali.core import functional as U
    from deepali.data import Image, ImageBatch

    D, N, C = case["D"], case["N"], case["C"]
    sdesc, tdesc = case["src"][0], case["tgt"][0]
    mode = case["mode"]
    route = case["route"]
    pad, ref_pad, pad_value = padding_arg(case["padding"])
    name = case["dtype"]
    dt = xdtype(name)
    sshape, tshape = tuple(sdesc["size"][::-1]), tuple(tdesc["size"][::-1])
    raw = content(case, sshape)
    if name in INT_DTYPES:
        raw = np.floor(raw)
    data = torch.tensor(raw, dtype=torch.float64).to(dt)  # the stored voxel values are the input of the property
    data0 = data.clone()
    refdata = data.double().numpy()
    sgrid, tgrid = make_grid(sdesc), make_grid(tdesc)
    geo = Geometry(sdesc, tdesc, mode)
    kw = {"mode": mode}
    if pad is not None:
        kw["padding"] = pad
    uses_coords = route in ("Image.sample(coords)", "ImageBatch.sample(coords)", "sample_image", "grid_sample")
    cdt_name = case["coords_dtype"] if uses_coords else "float32"
    if uses_coords:
        cube = geo.mt.points(geo.mt.index_points(), "grid", cube_axes(sdesc["ac"]), geo.ms)
        nb = N if case["coords_batch"] == "N" and route != "Image.sample(coords)" else 1
        coords = torch.tensor(np.stack([cube] * nb, 0), dtype=tdtype(cdt_name))
    if route == "Image.sample":
        out = Image(data[0], sgrid).sample(tgrid, **kw).tensor().unsqueeze(0)
    elif route == "ImageBatch.sample":
        out = ImageBatch(data, sgrid).sample(tgrid, **kw).tensor()
    elif route == "Image.sample(coords)":
        out = Image(data[0], sgrid).sample(coords[0], **kw).unsqueeze(0)
    elif route == "ImageBatch.sample(coords)":
        out = ImageBatch(data, sgrid).sample(coords, **kw)
    elif route == "sample_image":
        out = U.sample_image(data, coords.reshape(nb, -1, D), align_corners=sdesc["ac"], **kw)
        out = out.reshape(tuple(out.shape[:2]) + tshape)
    elif route == "grid_sample":
        out = U.grid_sample(data, coords if case["coords_batch"] == "N" else coords[0], align_corners=sdesc["ac"], **kw)
    else:
        mkw = dict(sampling=mode)
        if pad is not None:
            mkw["padding"] = pad
        else:
            ref_pad, pad_value = ("zeros", 0.0) if route == "SampleImage" else ("border", None)  # documented defaults
        mod = getattr(M, route)(tgrid, sgrid, **mkw)
        if route == "SampleImage":
            x = geo.mt.points(geo.mt.index_points(), "grid", cube_axes(tdesc["ac"]))
            out = mod(torch.tensor(x, dtype=torch.float32), data)
        else:
            out = mod(None, data)
    if not isinstance(out, torch.Tensor):
        raise Violation("dtype_result_type", f"{route} returned {type(out).__name__}")
    if not torch.equal(data, data0):
        raise Violation("input_modified", f"{route} modified the {name} image data in place")
    if tuple(out.shape) != (N, C) + tshape:
        raise Violation("dtype_result_shape", f"{route}: result shape {tuple(out.shape)}, expected {(N, C) + tshape}")
    # documented result dtype
    exp_name = name if (name not in INT_DTYPES or mode == "nearest") else cdt_name
    if out.dtype != xdtype(exp_name):
        raise Violation("dtype_result_dtype", f"{route}: {name} image, mode={mode}, {cdt_name} coordinates: result dtype {out.dtype}, "
                                              f"documented {xdtype(exp_name)}")
    out_np = out.detach().double().numpy()
    worst, n_valid = 0.0, 0
    what = f"{route} {name} image size {sdesc['size']} mode={mode} padding={case['padding']}"
    for b in range(N):
        if exp_name in ("float32", "float64"):
            r, nv, _ = compare(out_np[b], refdata[b], geo, mode, ref_pad, pad_value, f"{what} image {b}", prefix="dtype",
                               exact_values=values_exact(name, cdt_name, pad_value))
        else:
            r, nv = compare_cast(out_np[b], refdata[b], geo, mode, ref_pad, pad_value, exp_name, f"{what} image {b}", "dtype")
        worst = max(worst, r)
        n_valid += nv
    nt = pair_nontrivial(sdesc, tdesc) and n_valid >= 8
    return {"ratio": worst, "nontrivial": nt,
            "labels": geometry_labels(case, sdesc, tdesc) + [name, f"route={route}", f"mode={mode}", f"pad={pad_kind(ref_pad)}", f"N={N}",
                                                            f"coords={cdt_name}" if uses_coords else "coords=grid",
                                                            "long_axis" if case["long"] else "short_axes",
                                                            f"result={exp_name}"]}


# ---------------------------------------------------------------------------------------
# facet 8: Image / ImageBatch objects with a history
#
# The statement quantifies over images, not over freshly constructed objects: whatever sequence of public calls produced
# the Image / ImageBatch and whatever was done with it before, sample() must resample the image *as it is at the time of
# the call* - the voxel values its tensor holds now on the header(s) its grid()/grids() report now.  A case is a root
# object (Image, ImageBatch with a shared Grid / per-image Grids, ImageBatch.from_images, an item of a batch) plus a short
# list of steps executed on ONE live object: checked sample(grid | coords) calls, read-only uses, in-place header
# replacement grid_(), the out-of-place with-er grid(g), in-place data edits, in-place setters on the live Grid object,
# dtype conversion, clone/copy/deepcopy, taking an item / a sub-batch, batch() / from_images / append / cat, and going
# back to the object a step was applied to (parents must be unaffected by out-of-place steps).  The harness keeps a
# float64 descriptor per Grid *object* (updated by the in-place setters) and per live object the list of descriptors its
# images must be on (the documented effect of every step); before every sample the header each image reports is compared
# with that descriptor, the data are read from the object's tensor at the time of the call, and the result is compared
# with ITK / the numpy interpolator on the descriptor headers.  Target Grid objects are built once (warmed, optionally
# derived by deepali's own methods - then their reported attributes are the reference header) and reused between steps.

HIST_USES = ("batch", "accessors", "sitk", "resize", "center_crop", "normalize", "repr", "getitem", "arith", "sample_self")
HIST_DATA = ("copy_", "tensor_copy_", "mul_", "tensor_add_", "setitem", "normalize_")
HIST_INPLACE = ("grid_", "data", "grid_attr")
N_SRC_POOL, N_TGT_POOL = 4, 3
HIST_PLANS = [  # categories of steps; most plans contain the pattern use -> in-place change -> sample
    ["warm", "inplace", "sample"], ["warm", "inplace", "sample"], ["any", "warm", "inplace", "sample"], ["warm", "inplace", "any", "sample"],
    ["warm", "any", "inplace", "sample"], ["any", "warm", "inplace", "any", "sample"], ["warm", "inplace", "warm", "inplace", "sample"],
    ["derive", "warm", "inplace", "sample"], ["warm", "derive", "inplace", "back", "sample"], ["warm", "derive", "warm", "inplace", "sample"],
    ["warm", "inplace", "derive", "sample"], ["derive", "derive", "warm", "inplace", "sample"], ["warm", "derive", "back", "inplace", "sample"],
    ["derive", "sample"], ["derive", "derive", "sample"], ["derive", "back", "sample"], ["warm", "derive", "back", "sample"],
    ["derive", "inplace", "back", "sample"], ["derive", "warm", "back", "inplace", "sample"],
    ["any", "sample"], ["any", "any", "sample"], ["any", "any", "any", "any", "sample"], ["any", "any", "any", "any", "any", "sample"],
]


@st.composite
def history_cases(draw):
    D = draw(gen.dims())
    srcs, tgts = draw(grid_sets(D, N_SRC_POOL, "per_image", "per_image", cover=(0.3, 1.4)))
    tgts = tgts[:N_TGT_POOL]
    root = draw(st.sampled_from(["Image", "Image", "ImageBatch_grid", "ImageBatch_list", "ImageBatch_list", "from_images", "batch_item"]))
    N = 1 if root == "Image" else draw(st.sampled_from([1, 2, 3]))
    stack = [("Image" if root in ("Image", "batch_item") else "batch", 1 if root in ("Image", "batch_item") else N)]
    pool = lambda: draw(st.integers(0, N_SRC_POOL - 1))  # noqa: E731
    steps = []
    plan = draw(st.sampled_from(HIST_PLANS))
    for cat in plan:
        kind, n = stack[-1]
        warm = ["sample"] * 3 + ["coords", "use", "use"]
        inplace = ["grid_"] * 3 + ["data", "data", "grid_attr"]
        derive = ["grid", "to", "copy"] + (["item", "item"] + (["sub", "sub"] if n >= 2 else []) + (["grow"] if n <= 2 else []) if kind == "batch"
                                           else ["batch", "batch"])
        back = ["back"] if len(stack) > 1 else []
        names = {"warm": warm, "inplace": inplace, "derive": derive, "sample": ["sample"], "back": back or warm,
                 "any": warm + inplace + derive + back}[cat]
        name = draw(st.sampled_from(names))
        step = {"op": name}
        if name in ("sample", "coords"):
            one = kind == "Image" or name == "coords" or draw(st.booleans())
            step["t"] = [draw(st.integers(0, N_TGT_POOL - 1)) for _ in range(1 if one else n)]
            step["alt"] = draw(st.sampled_from([False, False, False, True]))
            if name == "sample":
                step["fresh"] = draw(st.sampled_from([False, False, True]))
                step["form"] = draw(st.sampled_from(["grid", "list"]))
                earlier = [s for s in steps if s["op"] == "sample" and len(s["t"]) in (1, len(step["t"]))]
                if earlier and draw(st.sampled_from([True, True, False])):  # the same target object(s) and settings as in an earlier call
                    step.update(t=list(earlier[-1]["t"]), alt=earlier[-1]["alt"], fresh=False, form=earlier[-1]["form"])
            else:
                step["cdtype"] = draw(st.sampled_from(["float32", "float32", "float64"]))
        elif name == "use":
            step["how"] = draw(st.sampled_from(HIST_USES))
        elif name in ("grid_", "grid"):
            step["g"] = [pool() for _ in range(1 if kind == "Image" or draw(st.booleans()) else n)]
            step["form"] = draw(st.sampled_from(["grid", "list"]))
            step["warm"] = draw(st.sampled_from([0, 0, (1 << gen.N_WARM) - 1, 0x0F0F, 0x5A5A]))
            if name == "grid":
                stack.append((kind, n))
        elif name == "data":
            step["how"] = draw(st.sampled_from(HIST_DATA))
            step["key"] = draw(st.integers(0, 10 ** 6))
            step["k"] = draw(st.sampled_from([0.5, 0.25, 2.0]))
        elif name == "grid_attr":
            step["b"] = draw(st.integers(0, n - 1))
            step["attr"] = draw(st.sampled_from(["center", "origin", "spacing", "direction"]))
            step["k"] = pool()
        elif name == "to":
            step["dtype"] = draw(st.sampled_from(["float32", "float64"]))
            step["how"] = draw(st.sampled_from(["to", "named", "type"]))
            stack.append((kind, n))
        elif name == "copy":
            step["how"] = draw(st.sampled_from(["clone", "copy", "deepcopy", "detach"] + (["ellipsis"] if kind == "batch" else [])))
            stack.append((kind, n))
        elif name == "item":
            step["i"] = draw(st.integers(0, n - 1))
            step["how"] = draw(st.sampled_from(["getitem", "iter"]))
            stack.append(("Image", 1))
        elif name == "sub":
            idx = draw(st.one_of(st.permutations(list(range(n))).map(list), st.lists(st.integers(0, n - 1), min_size=1, max_size=3)))
            how = draw(st.sampled_from(["list", "tensor", "slice"]))
            if how == "slice":
                a = draw(st.integers(0, n - 1))
                idx = list(range(a, draw(st.integers(a + 1, n))))
            step.update(idx=idx, how=how)
            stack.append(("batch", len(idx)))
        elif name == "grow":
            step["how"] = draw(st.sampled_from(["append", "cat"]))
            stack.append(("batch", 2 * n))
        elif name == "batch":
            step["how"] = draw(st.sampled_from(["batch", "batch", "from_images"]))
            step["n"] = draw(st.integers(1, 2)) if step["how"] == "from_images" else 1
            stack.append(("batch", step["n"]))
        elif name == "back":
            stack.pop()
        steps.append(step)
    derive = draw(st.sampled_from([False, False, False, True]))
    case = {"D": D, "N": N, "C": draw(st.integers(1, 2)), "root": root, "root_g": [pool() for _ in range(N)],
            "root_i": draw(st.integers(0, N - 1)), "src": srcs, "tgt": tgts, "steps": steps,
            "tgt_warm": [draw(st.sampled_from([0, 0, (1 << gen.N_WARM) - 1, 0x00FF, 0xA5A5])) for _ in range(N_TGT_POOL)],
            "tgt_steps": [draw(gen.derivation_steps(D, 1)) if derive and k == 0 else None for k in range(N_TGT_POOL)],
            "mode": draw(st.sampled_from(["linear", "linear", "nearest"])), "padding": draw(paddings()),
            "mode_alt": draw(st.sampled_from(["linear", "nearest"])), "padding_alt": draw(paddings())}
    case.update(draw(content_fields(D)))
    return case


class Live:
    """One deepali Image / ImageBatch object and, per image, the record {"desc": descriptor} of the Grid object it must be on."""

    def __init__(self, obj, recs):
        self.obj, self.recs = obj, recs


def hist_grids(obj):
    from deepali.data import ImageBatch

    return tuple(obj.grids()) if isinstance(obj, ImageBatch) else (obj.grid(),)


def header_mismatch(g, desc):
    """Which attribute of the Grid object differs from the float64 descriptor by more than float32 storage explains (or None)."""
    from vlib.case import model_of_grid

    m, e = model_of_grid(g), ref.GridModel.from_desc(desc)
    if m.D != e.D or not np.array_equal(m.n, e.n):
        return f"size {m.n.tolist()} != {e.n.tolist()}"
    span = float(np.abs(e.c).max() + np.abs(e.s * e.n).sum()) + 1.0
    if np.abs(m.s - e.s).max() > 16 * EPS32 * float(e.s.max()):
        return f"spacing {m.s.tolist()} != {e.s.tolist()}"
    if np.abs(m.R - e.R).max() > 16 * EPS32:
        return f"direction {m.R.tolist()} != {e.R.tolist()}"
    if np.abs(m.c - e.c).max() > 16 * EPS32 * span:
        return f"center {m.c.tolist()} != {e.c.tolist()}"
    if m.ac != e.ac:
        return f"align_corners {m.ac} != {e.ac}"
    return None


class History:
    def __init__(self, case):
        from vlib.case import derive_grid, model_of_grid, warm_grid

        self.case = case
        self.reg = {}  # id(Grid object) -> (Grid object, record)
        self.labels = []
        self.worst = 0.0
        self.n_valid = 0
        self.last_nt = False
        self.targets, self.tmodels, self.tderived = [], [], []
        for k, tdesc in enumerate(case["tgt"]):
            g = make_grid(tdesc)
            warm_grid(g, int(case["tgt_warm"][k]))
            steps = case["tgt_steps"][k]
            if steps:
                g, applied = derive_grid(g, steps, min_size=2)
                if int(g.numel()) > 30000:
                    raise Skip("derived target grid too large")
                self.labels.append("tgt_derived:" + "+".join(applied))
                self.tmodels.append(model_of_grid(g))
            else:
                self.tmodels.append(ref.GridModel.from_desc(tdesc))
            self.tderived.append(bool(steps))
            self.targets.append(g)

    # -- grid objects --------------------------------------------------------------------
    def pool_grid(self, k: int, warm: int = 0):
        from vlib.case import warm_grid

        g = make_grid(self.case["src"][k])
        warm_grid(g, int(warm))
        rec = {"desc": _copy.deepcopy(self.case["src"][k])}
        self.reg[id(g)] = (g, rec)
        return g, rec

    def bind(self, obj, expected, what: str):
        """Records of the images of `obj`, which the documented effect of the step puts on the headers `expected`."""
        grids = hist_grids(obj)
        if len(grids) != len(expected):
            raise Violation("history_grid_count", f"{what}: object of {len(expected)} image(s) reports {len(grids)} grid(s)")
        recs = []
        for b, (g, exp) in enumerate(zip(grids, expected)):
            bad = header_mismatch(g, exp["desc"])
            if bad:
                raise Violation("history_reported_grid", f"{what}: image {b} reports a grid other than the one it must be on: {bad}")
            ent = self.reg.get(id(g))
            if ent is None:
                ent = (g, {"desc": _copy.deepcopy(exp["desc"])})
                self.reg[id(g)] = ent
            recs.append(ent[1])
        return recs

    # -- checked sampling ----------------------------------------------------------------
    def settings(self, step):
        case = self.case
        mode, padding = (case["mode_alt"], case["padding_alt"]) if step.get("alt") else (case["mode"], case["padding"])
        pad, ref_pad, pad_value = padding_arg(padding)
        kw = {"mode": mode}
        if pad is not None:
            kw["padding"] = pad
        return mode, padding, kw, ref_pad, pad_value

    def sample(self, live: Live, step, k: int):
        from deepali.data import Image, ImageBatch

        obj = live.obj
        is_img = isinstance(obj, Image)
        N = 1 if is_img else int(obj.shape[0])
        what = f"step {k} ({'Image' if is_img else 'ImageBatch'}.sample after {'/'.join(s['op'] for s in self.case['steps'][:k]) or 'nothing'})"
        for b, (g, rec) in enumerate(zip(hist_grids(obj), live.recs)):
            bad = header_mismatch(g, rec["desc"])
            if bad:
                raise Violation("history_reported_grid", f"{what}: image {b} reports a grid other than the one it must be on: {bad}")
        data = obj.tensor().detach()
        data0 = data.clone()
        refdata = data.double().numpy()
        if is_img:
            refdata = refdata[None]
        C = refdata.shape[1]
        dtype_name = str(obj.dtype).replace("torch.", "")
        mode, padding, kw, ref_pad, pad_value = self.settings(step)
        tl = [int(t) for t in step["t"]]
        if len({tuple(self.tmodels[t].n.tolist()) for t in tl}) > 1:  # a derived target has its own size: one target for all images
            tl = tl[:1]
        tms = [self.tmodels[t] for t in tl]
        if step["op"] == "sample":
            tgs = [make_grid(self.case["tgt"][t]) if step["fresh"] and not self.tderived[t] else self.targets[t] for t in tl]
            if is_img:
                res = obj.sample(tgs[0], **kw)
                if not isinstance(res, Image):
                    raise Violation("result_type", f"{what}: Image.sample(Grid) returned {type(res).__name__}")
                out, out_grids = res.tensor().unsqueeze(0), [res.grid()]
            else:
                res = obj.sample(tgs[0] if len(tgs) == 1 and step["form"] == "grid" else list(tgs), **kw)
                if not isinstance(res, ImageBatch):
                    raise Violation("result_type", f"{what}: ImageBatch.sample(grid) returned {type(res).__name__}")
                out, out_grids = res.tensor(), list(res.grids())
            if len(out_grids) != N:
                raise Violation("history_result_grid_count", f"{what}: sampling {N} images returned {len(out_grids)} grid(s)")
            for b, g in enumerate(out_grids):
                if not grids_equal(g, tgs[min(b, len(tgs) - 1)]):
                    raise Violation("history_result_grid", f"{what}: image {b} of the result does not carry its target grid")
            cdt_name, prefix = "float32", "history"
        else:
            ac0 = bool(live.recs[0]["desc"]["ac"])  # convention of the batch = convention of its first grid
            mt = tms[0]
            cube = [mt.points(mt.index_points(), "grid", cube_axes(ac0), ref.GridModel.from_desc(rec["desc"])) for rec in live.recs]
            coords = torch.tensor(np.stack(cube, 0), dtype=tdtype(step["cdtype"]))
            out = obj.sample(coords[0], **kw).unsqueeze(0) if is_img else obj.sample(coords, **kw)
            if type(out) is not torch.Tensor:
                raise Violation("coords_result_type", f"{what}: sample(coords) returned {type(out).__name__}, documented: Tensor")
            cdt_name, prefix = step["cdtype"], "history_coords"
        if not torch.equal(data, data0):
            raise Violation("input_modified", f"{what}: sample() modified the image data in place")
        tshape = tuple(int(v) for v in tms[0].n[::-1])
        if tuple(out.shape) != (N, C) + tshape:
            raise Violation("history_result_shape", f"{what}: sampled data has shape {tuple(out.shape)}, expected {(N, C) + tshape}")
        if out.dtype != obj.dtype:
            raise Violation("result_dtype", f"{what}: sampled data has dtype {out.dtype} for {obj.dtype} image")
        out_np = out.detach().double().numpy()
        nv_total, nt = 0, False
        for b in range(N):
            ms, mt = ref.GridModel.from_desc(live.recs[b]["desc"]), tms[min(b, len(tms) - 1)]
            geo = Geometry(None, None, mode, models=(ms, mt))
            r, nv, _ = compare(out_np[b], refdata[b], geo, mode, ref_pad, pad_value,
                               f"{what} image {b} mode={mode} padding={padding} dtype={dtype_name}", prefix=prefix,
                               exact_values=values_exact(dtype_name, cdt_name, pad_value))
            self.worst = max(self.worst, r)
            nv_total += nv
            cosines = np.clip(np.abs(ms.R.T @ mt.R).max(axis=1), 0, 1)
            nt = nt or (nv >= 8 and float(np.degrees(np.arccos(cosines)).max()) >= 5.0
                        and max(float(ms.s.max() / ms.s.min()), float(mt.s.max() / mt.s.min())) >= 1.5)
        self.n_valid, self.last_nt = nv_total, nt

    # -- steps ---------------------------------------------------------------------------
    def use(self, live: Live, how: str):
        from deepali.data import Image

        obj = live.obj
        is_img = isinstance(obj, Image)
        size = [int(v) for v in hist_grids(obj)[0].size()]
        if how == "batch":
            b = obj.batch() if is_img else obj[...]
            if is_img and b.grids()[0] is not obj.grid():
                raise Violation("history_batch_grid_reference", "Image.batch() does not use the Grid object reference of the image (documented)")
        elif how == "accessors":
            obj.grid(), obj.center(), obj.origin(), obj.spacing(), obj.direction(), obj.cube(), obj.domain(), obj.align_corners()
            obj.sdim, obj.nchannels, len(obj)
        elif how == "sitk":
            obj.sitk() if is_img else [im.grid().origin() for im in obj]
        elif how == "resize":
            obj.resize([n + 1 for n in size])
        elif how == "center_crop":
            obj.center_crop([max(n - 1, 1) for n in size])
        elif how == "normalize":
            obj.normalize()
        elif how == "repr":
            repr(obj), str(obj)
        elif how == "getitem":
            obj[0], obj[..., 0], obj[:1]
        elif how == "arith":
            (obj * 2 + 1).sum(), obj.tensor().mean(), obj.clamp(0, 1), obj.flatten()
        elif how == "sample_self":
            obj.sample(obj.grid() if is_img else list(obj.grids()))

    def edit_data(self, live: Live, step):
        obj = live.obj
        how = step["how"]
        shape = tuple(obj.shape)
        if how in ("copy_", "tensor_copy_"):
            lead = shape[:len(shape) - self.case["D"]]
            new = content(dict(self.case, N=int(np.prod(lead[:-1])) if len(lead) > 1 else 1, C=lead[-1], key=step["key"]), shape[len(lead):])
            new = torch.tensor(new.reshape(shape), dtype=obj.dtype)
            (obj if how == "copy_" else obj.tensor()).copy_(new)
        elif how == "mul_":
            obj.mul_(float(step["k"]))
        elif how == "tensor_add_":
            obj.tensor().add_(10.0 * float(step["k"]))
        elif how == "setitem":
            obj[..., 0] = 25.0 * float(step["k"])
        elif how == "normalize_":
            obj.normalize_()

    def grid_attr(self, live: Live, step):
        b = int(step["b"])
        g, rec = hist_grids(live.obj)[b], live.recs[b]
        src = self.case["src"][int(step["k"])]
        desc = rec["desc"]
        attr = step["attr"]
        if attr == "center":
            g.center_([float(v) for v in src["center"]])
            desc["center"] = list(src["center"])
        elif attr == "spacing":  # the Grid stores its centre: the other attributes stay
            g.spacing_([float(v) for v in src["spacing"]])
            desc["spacing"] = list(src["spacing"])
        elif attr == "direction":
            g.direction_(torch.tensor(ref.direction_matrix(src["rot"], src["perm"], src["flip"]), dtype=torch.float64))
            desc.update(rot=list(src["rot"]), perm=list(src["perm"]), flip=list(src["flip"]), kind=src["kind"])
        else:  # origin = world position of index 0  =>  centre = origin + A (n - 1) / 2
            o = ref.GridModel.from_desc(src).o
            g.origin_([float(v) for v in o])
            cur = ref.GridModel.from_desc(desc)
            desc["center"] = [float(v) for v in o + cur.A @ ((cur.n - 1) / 2)]

    def new_grids(self, live: Live, step):
        from deepali.data import Image

        N = len(live.recs)
        made = {}
        for k in step["g"]:
            if k not in made:
                made[k] = self.pool_grid(int(k), step["warm"])
        gl = [made[k] for k in step["g"]]
        if isinstance(live.obj, Image):
            return gl[0][0], [gl[0][1]]
        if len(gl) == 1:
            return (gl[0][0] if step["form"] == "grid" else [gl[0][0]] * N), [gl[0][1]] * N
        return [g for g, _ in gl], [r for _, r in gl]


def run_history(case):
    from deepali.data import Image, ImageBatch

    D, N, C = case["D"], case["N"], case["C"]
    h = History(case)
    dt = tdtype(case["dtype"])
    sshape = tuple(case["src"][0]["size"][::-1])
    data = torch.tensor(content(case, sshape), dtype=dt)
    made = {}
    for k in case["root_g"]:
        if k not in made:
            made[k] = h.pool_grid(int(k))
    pairs = [made[k] for k in case["root_g"]]
    root = case["root"]
    if root == "Image":
        live = Live(Image(data[0], pairs[0][0]), [pairs[0][1]])
    elif root == "ImageBatch_grid":
        live = Live(ImageBatch(data, pairs[0][0]), [pairs[0][1]] * N)
    elif root == "ImageBatch_list":
        live = Live(ImageBatch(data, [g for g, _ in pairs]), [r for _, r in pairs])
    elif root == "from_images":
        live = Live(ImageBatch.from_images([Image(data[b], pairs[b][0]) for b in range(N)]), [r for _, r in pairs])
    else:  # item of a batch with per-image grids
        i = int(case["root_i"])
        live = Live(ImageBatch(data, [g for g, _ in pairs])[i], [pairs[i][1]])
    live.recs = h.bind(live.obj, live.recs, f"root {root}")
    stack = [live]
    warmed = changed_after_use = derived = False

    def push(child, expected, what):
        # a conversion that returns the object itself (e.g. to() of the same dtype) yields no second object with its own state
        stack.append(stack[-1] if child is stack[-1].obj else Live(child, h.bind(child, expected, what)))

    for k, step in enumerate(case["steps"]):
        live = stack[-1]
        obj = live.obj
        name = step["op"]
        is_img = isinstance(obj, Image)
        n = len(live.recs)
        what = f"step {k} {name}"
        if name in ("sample", "coords"):
            h.sample(live, step, k)
            warmed = True
        elif name == "use":
            h.use(live, step["how"])
            warmed = True
        elif name == "grid_":
            arg, exp = h.new_grids(live, step)
            obj.grid_(arg)
            live.recs = h.bind(obj, exp, what)
        elif name == "grid":
            arg, exp = h.new_grids(live, step)
            child = obj.grid(arg)
            push(child, exp, what)
        elif name == "data":
            h.edit_data(live, step)
        elif name == "grid_attr":
            h.grid_attr(live, step)
        elif name == "to":
            tdt = tdtype(step["dtype"])
            if step["how"] == "to":
                child = obj.to(tdt)
            elif step["how"] == "type":
                child = obj.type(tdt)
            else:
                child = obj.float() if step["dtype"] == "float32" else obj.double()
            if type(child) is not type(obj) or child.dtype != tdt:
                raise Violation("history_conversion_result", f"{what}: {type(obj).__name__} -> {type(child).__name__} of dtype {child.dtype}")
            push(child, live.recs, what)
        elif name == "copy":
            how = step["how"]
            child = {"clone": lambda: obj.clone(), "copy": lambda: _copy.copy(obj), "deepcopy": lambda: _copy.deepcopy(obj),
                     "detach": lambda: obj.detach(), "ellipsis": lambda: obj[...]}[how]()
            if type(child) is not type(obj):
                raise Violation("history_conversion_result", f"{what} ({how}): {type(obj).__name__} -> {type(child).__name__}")
            push(child, live.recs, f"{what} ({how})")
        elif name == "item":
            i = int(step["i"])
            child = obj[i] if step["how"] == "getitem" else list(obj)[i]
            if not isinstance(child, Image):
                raise Violation("history_conversion_result", f"{what}: item of an ImageBatch is a {type(child).__name__}")
            push(child, [live.recs[i]], f"{what} ({step['how']} {i} of {n})")
        elif name == "sub":
            idx = [int(i) for i in step["idx"]]
            if step["how"] == "slice":
                child = obj[idx[0]:idx[-1] + 1]
            else:
                child = obj[idx if step["how"] == "list" else torch.tensor(idx)]
            if not isinstance(child, ImageBatch):
                raise Violation("history_conversion_result", f"{what}: sub-batch {idx} is a {type(child).__name__}")
            push(child, [live.recs[i] for i in idx], f"{what} ({step['how']} {idx} of {n})")
        elif name == "grow":
            child = obj.append(obj) if step["how"] == "append" else torch.cat([obj, obj], dim=0)
            if not isinstance(child, ImageBatch):
                raise Violation("history_conversion_result", f"{what}: {step['how']} of two batches is a {type(child).__name__}")
            push(child, live.recs + live.recs, f"{what} ({step['how']})")
        elif name == "batch":
            if step["how"] == "batch":
                child = obj.batch()
                if child.grids()[0] is not obj.grid():
                    raise Violation("history_batch_grid_reference", "Image.batch() does not use the Grid object reference of the image (documented)")
            else:
                child = ImageBatch.from_images([obj] * int(step["n"]))
            push(child, live.recs * int(step["n"]), f"{what} ({step['how']})")
        elif name == "back":
            if len(stack) > 1:
                stack.pop()
        else:
            raise ValueError(name)
        if name in HIST_INPLACE and warmed:
            changed_after_use = True
        if len(stack) > 1:
            derived = True
    ops = sorted({s["op"] + ("_" + s["how"] if s["op"] in ("data", "use") else "") for s in case["steps"]})
    final = stack[-1]
    labels = h.labels + [f"D={D}", f"root={root}", f"final={'Image' if isinstance(final.obj, Image) else 'ImageBatch'}", f"N_final={len(final.recs)}",
                         f"mode={case['mode']}", case["dtype"], f"steps={len(case['steps'])}", f"depth={len(stack)}",
                         "changed_after_use" if changed_after_use else "no_change_after_use",
                         "valid>=8" if h.n_valid >= 8 else "valid<8"] + ["op:" + o for o in ops]
    return {"ratio": h.worst, "nontrivial": bool(h.last_nt and (changed_after_use or derived)), "labels": labels}


FACETS = [
    Facet("itk_resample", run_resample, strategy=lambda: resample_cases((0.2, 1.4)),
          rule="anchor-constructed overlapping source/target grid sets (target extent 0.2-1.4 x source extent), Image/ImageBatch, shared or "
               "per-image grids, all target argument forms; non-trivial = some image pair with rotation between the grids >= 5 deg, "
               "anisotropy >= 1.5 on either grid and >= 8 target samples compared with ITK",
          quick=700, thorough=10000, shards=16, quick_shards=4),
    Facet("padding_outside", run_padding, strategy=lambda: resample_cases((0.8, 3.0)),
          rule="as itk_resample with target extent 0.8-3 x source extent so that many samples fall outside the field of view; every sample "
               "is compared with the numpy reference interpolator (zeros/border/constant padding); non-trivial = rotation >= 5 deg, "
               "anisotropy >= 1.5, >= 8 compared samples outside the source index range",
          quick=400, thorough=6000, shards=16, quick_shards=2),
    Facet("own_grid", run_own_grid, strategy=own_grid_cases,
          rule="image or batch (per-image grids) sampled on its own grid(s): same object, rebuilt equal grid, grid with the other "
               "align_corners; plus image 0 of a batch with different grids sampled through the computing path; non-trivial = anisotropic "
               "(and oblique for the computing path)",
          quick=250, thorough=3000, shards=8, quick_shards=2),
    Facet("sample_coords", run_coords, strategy=coords_cases,
          rule="normalised coordinates computed by the float64 model (target index -> world -> source cube), grid-shaped or flat point "
               "lists, batch 1|N, float32|float64, Image/ImageBatch/sample_image; compared with ITK, numpy reference and sample(target "
               "grid); non-trivial = rotation >= 5 deg, anisotropy >= 1.5, >= 8 samples compared with ITK",
          quick=400, thorough=6000, shards=16, quick_shards=2),
    Facet("modules", run_modules, strategy=module_cases,
          rule="SampleImage / AlignImage (None, identity, affine, linear) / TransformImage (None, flow; identity/affine for D=3) with "
               "axes in {default, cube, cube_corners, world, grid}; affine generated in the target cube (|E|,|t| <= 0.3) and conjugated "
               "to the module axes by the float64 model; ITK with the equivalent world affine + numpy reference; non-trivial = rotation "
               ">= 5 deg, anisotropy >= 1.5, >= 8 samples compared inside the field of view",
          quick=500, thorough=8000, shards=16, quick_shards=3),
    Facet("derived_grids", run_derived, strategy=derived_cases,
          rule="source and target grids built from descriptors, used (origin / points / coords / transform / index maps / domain / a "
               "checked sample call), then derived by 0-2 operations per side (resample incl. min/max, resize, reshape, downsample, "
               "upsample, pyramid level, crop, pad, center_crop, center_pad, narrow, region_of_interest, pool, align_corners(flag), "
               "clone / copy / deepcopy, center / origin / spacing / direction setters in both the new-grid and the in-place form), "
               "the target chain starting from the target, the derived source or the source's parent; Image / ImageBatch whose items "
               "share one Grid object; the parents are sampled again afterwards; non-trivial = some derivation, some prior use, "
               "oblique anisotropic geometry and >= 8 samples compared with ITK",
          quick=700, thorough=12000, shards=16, quick_shards=4),
    Facet("image_dtypes", run_dtypes, strategy=dtype_cases(160),
          rule="image dtype in {float16, bfloat16, uint8, int16, int32, int64, float32, float64}, one case in three with a source axis "
               "of 48-160 samples; Image/ImageBatch.sample(grid | coords), sample_image, grid_sample, SampleImage, AlignImage; float32 "
               "or float64 coordinates; result dtype as documented by grid_sample; half-precision / integer results must lie in the "
               "interval obtained by rounding (float64 reference +- float32 bound) to the result dtype; non-trivial = rotation >= 5 "
               "deg, anisotropy >= 1.5, >= 8 samples compared with ITK",
          quick=500, thorough=8000, shards=16, quick_shards=3),
    Facet("object_history", run_history, strategy=history_cases,
          rule="one live Image / ImageBatch (root: Image, ImageBatch with a shared Grid or per-image Grids, from_images, item of a batch) "
               "taken through 2-6 steps (planned so that most cases contain use -> in-place change -> sample): checked sample(grid | grids | coords) on a pool of 3 equally sized target Grid objects (reused, "
               "rebuilt, warmed, one in four derived by deepali), read-only uses (batch(), accessors, sitk, resize, center_crop, normalize, "
               "repr, indexing, arithmetic, sample on the own grid), grid_() with a warmed same-size grid of other geometry, grid(g), in-place "
               "data edits (copy_, mul_, add_ / copy_ through tensor(), item assignment, normalize_), in-place setters on the live Grid, "
               "to/float/double/type, clone/copy/deepcopy/detach/[...], item / iteration, sub-batch by list / tensor / slice, batch() / "
               "from_images / append / cat, back to the parent object; last step is a sample; every sample is compared with ITK / numpy on "
               "the float64 descriptors the documented effect of the steps puts the images on, data read from the object at the call; "
               "non-trivial = last sample rotated >= 5 deg, anisotropy >= 1.5, >= 8 ITK samples, and an in-place change after a prior use or an object derived from the root",
          quick=500, thorough=10000, shards=16, quick_shards=3),
]
