"""C05 - Resampling onto any oriented grid matches an independent reference resampler."""
from __future__ import annotations

import math

import numpy as np
import torch
from hypothesis import strategies as st

from vlib import gen, ref
from vlib.case import hash_noise, make_grid, smooth_field, tdtype
from vlib.core import EPS32, Facet, Skip, Violation, check_close

PROPERTY = "C05"
MANIFEST = {
    "text": "Generated pairs of independently oriented anisotropic source/target grids with overlapping domains (D in {2,3}, "
            "either align_corners on either side, batch 1..3 with shared or per-image grids, channels 1..3, hash-noise and smooth "
            "content, float32/float64) are resampled by Image.sample / ImageBatch.sample(grid | grids | coords) and by the "
            "SampleImage / AlignImage / TransformImage modules, with linear and nearest interpolation and zeros / border / constant "
            "padding. Inside the source field of view every target sample is compared with SimpleITK's ResampleImageFilter "
            "(identity or generated affine world transform) run on a float64 image built directly from the case descriptor; "
            "everywhere (also outside the field of view) it is compared with a numpy multilinear/nearest interpolator evaluated at "
            "float64 model indices. Identity on the own grid and coordinate-tensor sampling are checked as well. Exploration: no "
            "absence proof; the derived bound (64 eps32 x condition x intensity range) is 2-4 orders of magnitude below the effect "
            "of a half-sample shift, a transposed/inverted matrix or a wrong convention.",
    "note": "Trusted: SimpleITK's resampler, the float64 grid model and numpy interpolator of vlib/ref.py (self-tested against "
            "SimpleITK on a world-coordinate ramp before every run). Nearest-neighbour ties and the ITK inside-test are generated "
            "around (margins derived from the float64 model index), not tolerated.",
    "technique": "property-based testing (Hypothesis) with a differential oracle (SimpleITK resampler) and a float64 numpy "
                 "reference model; metamorphic identity / coordinate-tensor relations",
}
ASSUMPTIONS = [
    "grids: 2..12 samples per axis (2-D) / 2..7 (3-D), spacing in [0.1, 10], |anchor| <= 200, |det direction| = 1; the target "
    "centre is constructed inside every source domain",
    "intensities in [0, 100]; bound = range * D * 64 eps32 * ((|c| + extent) / min spacing + max(n, |index|)); nearest exact "
    "away (>= max(0.02, index bound)) from half-integer source indices",
    "padding semantics outside the field of view are those of torch.nn.functional.grid_sample (out-of-range neighbours "
    "contribute the padding value), which is what deepali documents it forwards to; ITK is only consulted inside",
    "TransformImage with a linear (N, D, D+1) transform is generated for D = 3 only: in 2-D its `ndim == D + 1` test treats a "
    "(1, 2, 3) matrix as an unbatched flow field (recorded observation, not asserted)",
    "sample(own grid with the other align_corners flag) is only required to return unchanged data; which align_corners flag "
    "the returned image carries is not asserted",
]

K = 64.0
VMAX = 100.0


# ---------------------------------------------------------------------------------------
# reference helpers (no deepali)


def cube_axes(ac: bool) -> str:
    return "cube_corners" if ac else "cube"


def content(case, shape) -> np.ndarray:
    """Closed-form image content, array (N, C) + shape with values in [0, VMAX]."""
    N, C = case["N"], case["C"]
    if case["content"] == "noise":
        return hash_noise((N, C) + tuple(shape), case["key"], 0.0, VMAX)
    D = len(shape)
    w = case["waves"]
    out = np.zeros((N, C) + tuple(shape))
    for b in range(N):
        for c in range(C):
            ww = [w[(k + b + c) % D] for k in range(D)]
            sign = -1.0 if (b + c) % 2 else 1.0
            out[b, c] = VMAX / 2 + sign * smooth_field(tuple(shape), ww, VMAX / 2 * (1 - 0.2 * c))
    return out


_SITK = []


def _sitk():
    """SimpleITK, restricted to one thread (the images are tiny; ITK's default thread pool only adds overhead)."""
    if not _SITK:
        import SimpleITK as sitk

        sitk.ProcessObject.SetGlobalDefaultNumberOfThreads(1)
        _SITK.append(sitk)
    return _SITK[0]


def sitk_image(m: ref.GridModel, arr: np.ndarray):
    sitk = _sitk()
    img = sitk.GetImageFromArray(np.ascontiguousarray(arr, dtype=np.float64))
    img.SetOrigin([float(v) for v in m.o])
    img.SetSpacing([float(v) for v in m.s])
    img.SetDirection([float(v) for v in m.R.flatten()])
    return img


def itk_resample(ms: ref.GridModel, arr: np.ndarray, mt: ref.GridModel, mode: str, world_affine=None) -> np.ndarray:
    """sitk.Resample of the float64 image (arr on header ms) onto the header mt; NaN outside ITK's buffer."""
    sitk = _sitk()
    D = ms.D
    if world_affine is None:
        tx = sitk.Transform(D, sitk.sitkIdentity)
    else:
        tx = sitk.AffineTransform(D)
        tx.SetCenter([0.0] * D)
        tx.SetMatrix([float(v) for v in world_affine[:, :D].flatten()])
        tx.SetTranslation([float(v) for v in world_affine[:, D]])
    interp = sitk.sitkLinear if mode == "linear" else sitk.sitkNearestNeighbor
    out = sitk.Resample(sitk_image(ms, arr), [int(v) for v in mt.n], tx, interp, [float(v) for v in mt.o],
                        [float(v) for v in mt.s], [float(v) for v in mt.R.flatten()], float("nan"), sitk.sitkFloat64)
    return sitk.GetArrayFromImage(out)


def world_span(*models) -> float:
    return max(float(np.abs(m.c).max() + np.abs(m.s * m.n).sum()) for m in models)


def index_cond(ms: ref.GridModel, mt: ref.GridModel, idx: np.ndarray, extra: float = 0.0) -> float:
    """(|c| + extent) / min spacing + n  (DESIGN section 3), with n replaced by the largest |source index| reached."""
    W = max(world_span(ms, mt), extra)
    return W / float(ms.s.min()) + max(float(ms.n.max()), float(np.abs(idx).max()))


def masks(idx: np.ndarray, n: np.ndarray, mode: str, idx_bound: float):
    """(inside, stable): inside = ITK comparison domain; stable = not within the tie margin of a half-integer index."""
    inside = np.all((idx >= 0.01) & (idx <= n - 1.01), axis=-1)
    if mode == "nearest":
        margin = max(0.02, idx_bound)
        frac = np.abs(idx - np.floor(idx) - 0.5)
        stable = np.all(frac >= margin, axis=-1)
    else:
        stable = np.ones(idx.shape[:-1], dtype=bool)
    return inside, stable


def mode_name(mode) -> str:
    return "nearest" if mode in ("nearest", "nn") else "linear"


def padding_arg(p):
    """Case value -> (argument passed to deepali, reference padding, extra value range)."""
    if p is None or p == "zeros":
        return p, "zeros", 0.0
    if p == "border":
        return p, "border", None
    if isinstance(p, dict):  # {"int": 7}
        return int(p["int"]), float(p["int"]), float(p["int"])
    return float(p), float(p), float(p)


def value_range(data: np.ndarray, pad_value) -> float:
    lo, hi = float(data.min()), float(data.max())
    if pad_value is not None:
        lo, hi = min(lo, pad_value), max(hi, pad_value)
    return max(hi - lo, 1e-3)


def rotation_between(g1: dict, g2: dict) -> float:
    """Smallest angle (degrees) between an axis of g1 and the closest axis (up to sign) of g2, maximised over axes."""
    R1 = ref.direction_matrix(g1["rot"], g1["perm"], g1["flip"])
    R2 = ref.direction_matrix(g2["rot"], g2["perm"], g2["flip"])
    c = np.clip(np.abs(R1.T @ R2).max(axis=1), 0, 1)
    return float(np.degrees(np.arccos(c)).max())


def anisotropy(g: dict) -> float:
    return max(g["spacing"]) / min(g["spacing"])


def selftest():
    """The ITK wrapper, the grid model and the numpy interpolator agree on a world-coordinate ramp and on noise."""
    for D, sdesc, tdesc in (
        (2, {"size": [7, 5], "spacing": [0.5, 1.5], "center": [3.0, -2.0], "rot": [0.3], "perm": [1, 0], "flip": [1, -1], "ac": True},
         {"size": [4, 6], "spacing": [0.4, 0.3], "center": [3.2, -1.7], "rot": [-0.7], "perm": [0, 1], "flip": [1, 1], "ac": False}),
        (3, {"size": [5, 4, 6], "spacing": [0.5, 1.5, 0.8], "center": [3.0, -2.0, 7.0], "rot": [0.3, -0.2, 0.5], "perm": [2, 0, 1],
             "flip": [1, 1, 1], "ac": False},
         {"size": [3, 4, 3], "spacing": [0.4, 0.3, 0.6], "center": [3.1, -1.9, 7.2], "rot": [-0.7, 0.1, 0.2], "perm": [0, 1, 2],
          "flip": [1, 1, 1], "ac": True}),
    ):
        ms, mt = ref.GridModel.from_desc(sdesc), ref.GridModel.from_desc(tdesc)
        shape = tuple(int(v) for v in ms.n[::-1])
        idx = mt.points(mt.index_points(), "grid", "grid", ms)
        inside, _ = masks(idx, ms.n, "linear", 0.0)
        assert inside.sum() >= 4, "self-test geometry has too few inside samples"
        wt = mt.world_points()
        for k in range(D):
            ramp = ms.world_points()[..., k]
            assert ramp.shape == shape
            out = itk_resample(ms, ramp, mt, "linear")
            assert np.allclose(out[inside], wt[..., k][inside], atol=1e-9), "ITK wrapper / grid model disagree on a world ramp"
            assert np.allclose(ref.interp(ramp, idx, "linear", "border")[inside], wt[..., k][inside], atol=1e-9)
        noise = hash_noise(shape, 5, 0.0, VMAX)
        for mode in ("linear", "nearest"):
            out = itk_resample(ms, noise, mt, mode)
            ins, stable = masks(idx, ms.n, mode, 0.0)
            m = ins & stable
            assert np.allclose(out[m], ref.interp(noise, idx, mode, "zeros")[m], atol=1e-9), "numpy interpolator != ITK"
        far = np.full((1, D), -3.0)
        assert np.allclose(ref.interp(noise, far, "linear", 7.5), 7.5) and np.allclose(ref.interp(noise, far, "linear", "zeros"), 0.0)
        assert np.allclose(ref.interp(noise, far, "linear", "border"), noise[(0,) * D])


# ---------------------------------------------------------------------------------------
# generators


def _sig(x: float, digits: int = 4) -> float:
    return float(f"{x:.{digits}g}")


def max_n(D: int) -> int:
    return 12 if D == 2 else 7


@st.composite
def grid_sets(draw, D: int, N: int, src_mode: str, tgt_mode: str, cover=(0.2, 1.4), mag: float = 200.0):
    """Source/target grid descriptors whose domains overlap by construction.

    An anchor point is drawn in world space; every source grid (independent spacing/direction/align_corners, common
    size) is placed so that the anchor sits at a relative position in [0.2, 0.8] of its index range; every target grid
    (independent direction/align_corners, common size, extent = cover x geometric-mean source extent) is centred at
    the anchor plus a jitter of at most half a target sample.
    """
    anchor = np.array(draw(gen.centers(D, mag)), dtype=np.float64)
    ns = N if src_mode == "per_image" else 1
    nt = N if tgt_mode == "per_image" else 1
    ssize = draw(gen.sizes(D, 2, max_n(D)))
    tsize = draw(gen.sizes(D, 2, max_n(D)))
    srcs, tgts = [], []
    for _ in range(ns):
        d = draw(gen.directions(D))
        g = {"size": ssize, "spacing": draw(gen.spacings(D, 0.1, 10.0)), "rot": d["rot"], "perm": d["perm"], "flip": d["flip"],
             "kind": d["kind"], "ac": draw(st.booleans())}
        rel = np.array(draw(st.lists(gen.qfloat(0.2, 0.8, 0.01), min_size=D, max_size=D)))
        A = ref.direction_matrix(g["rot"], g["perm"], g["flip"]) @ np.diag(g["spacing"])
        n1 = np.array(ssize, dtype=np.float64) - 1
        c = anchor - A @ (rel * n1 - n1 / 2)
        g["center"] = [round(float(v), 3) for v in c]
        srcs.append(g)
    ext = np.array([(n - 1) * s for n, s in zip(srcs[0]["size"], srcs[0]["spacing"])])
    L = float(np.exp(np.log(ext).mean()))
    for _ in range(nt):
        d = draw(gen.directions(D))
        cov = draw(st.one_of(gen.logfloat(*cover).map(lambda v: [v] * D), st.lists(gen.logfloat(*cover), min_size=D, max_size=D)))
        sp = [_sig(cv * L / (n - 1)) for cv, n in zip(cov, tsize)]
        jit = np.array(draw(st.lists(gen.qfloat(-0.5, 0.5, 0.01), min_size=D, max_size=D))) * np.array(sp)
        g = {"size": tsize, "spacing": sp, "rot": d["rot"], "perm": d["perm"], "flip": d["flip"], "kind": d["kind"],
             "ac": draw(st.booleans()), "center": [round(float(v), 3) for v in anchor + jit]}
        tgts.append(g)
    return srcs, tgts


def paddings():
    return st.one_of(st.just("zeros"), st.none(), st.just("border"), st.just("border"), gen.qfloat(-50.0, 150.0, 0.5),
                     st.integers(-20, 120).map(lambda v: {"int": v}))


def modes():
    return st.sampled_from(["linear", "linear", "nearest", "nearest", None, "bilinear", "nn"])


@st.composite
def content_fields(draw, D):
    return {"content": draw(st.sampled_from(["noise", "noise", "smooth"])), "key": draw(st.integers(0, 10 ** 6)),
            "waves": draw(st.lists(st.integers(1, 3), min_size=D, max_size=D)),
            "dtype": draw(st.sampled_from(["float32", "float32", "float32", "float64"]))}


@st.composite
def resample_cases(draw, cover=(0.2, 1.4)):
    D = draw(gen.dims())
    N = draw(st.sampled_from([1, 1, 2, 3]))
    via = draw(st.sampled_from(["Image", "ImageBatch"])) if N == 1 else "ImageBatch"
    src_mode = draw(st.sampled_from(["shared", "per_image"])) if N > 1 else "shared"
    tgt_mode = draw(st.sampled_from(["single", "per_image"])) if N > 1 else "single"
    srcs, tgts = draw(grid_sets(D, N, src_mode, tgt_mode, cover))
    if via == "Image":
        tgt_arg = "grid"
    elif tgt_mode == "per_image":
        tgt_arg = "list"
    else:
        tgt_arg = draw(st.sampled_from(["grid", "list_of_one", "replicated"]))
    case = {"D": D, "N": N, "C": draw(st.integers(1, 3)), "via": via, "src": srcs, "tgt": tgts, "tgt_arg": tgt_arg,
            "src_arg": draw(st.sampled_from(["grid", "list"])) if len(srcs) == 1 and via == "ImageBatch" else "list",
            "mode": draw(modes()), "padding": draw(paddings())}
    case.update(draw(content_fields(D)))
    return case


# ---------------------------------------------------------------------------------------
# shared evaluation


class Geometry:
    """Float64 reference quantities for one (source, target) pair."""

    def __init__(self, sdesc, tdesc, mode, src_index=None, extra_world=0.0):
        self.ms = ref.GridModel.from_desc(sdesc)
        self.mt = ref.GridModel.from_desc(tdesc)
        self.idx = self.mt.points(self.mt.index_points(), "grid", "grid", self.ms) if src_index is None else src_index
        self.cond = index_cond(self.ms, self.mt, self.idx, extra_world)
        self.idx_bound = K * EPS32 * self.cond
        self.inside, self.stable = masks(self.idx, self.ms.n, mode, self.idx_bound)


def value_bound(refdata: np.ndarray, pad_value, mode: str, exact_values: bool) -> float:
    """Rounding of the intensity arithmetic itself (independent of the geometry).

    float32 multilinear interpolation: D + 2 roundings per weight, one per product, 2^D - 1 in the sum -> at most
    (D + 2 + 2^D) / 2 <= 6.5 eps32 max|v|; the constant-padding emulation (v - c) + c adds eps32 (|v| + |c|); a float64
    image sampled at float32 coordinates is cast to float32 (eps32 |v| / 2).  16 eps32 (max|v| + |c|) covers all three.
    Nearest-neighbour sampling of a float32 image with zeros/border padding involves no arithmetic on the values: exact."""
    if mode == "nearest" and exact_values:
        return 1e-12
    vmax = float(np.abs(refdata).max()) + (abs(pad_value) if pad_value else 0.0)
    return 16 * EPS32 * max(vmax, 1e-3)


def compare(out: np.ndarray, refdata: np.ndarray, geo: Geometry, mode: str, ref_pad, pad_value, what: str,
            world_affine=None, use_itk=True, prefix="resample", exact_values=True):
    """Compare one image (C, ...) with ITK inside the field of view and with the numpy reference everywhere.
    Returns (max ratio, number of ITK-compared samples, number of samples compared outside the field of view)."""
    D = geo.ms.D
    rng = value_range(refdata, pad_value)
    bound = value_bound(refdata, pad_value, mode, exact_values) + (0.0 if mode == "nearest" else rng * D * geo.idx_bound)
    worst = 0.0
    valid = geo.inside & geo.stable
    for c in range(refdata.shape[0]):
        if use_itk and valid.any():
            itk = itk_resample(geo.ms, refdata[c], geo.mt, mode, world_affine)
            v = valid & np.isfinite(itk)
            worst = max(worst, check_close(out[c][v], itk[v], bound, f"{prefix}_vs_itk_{mode}", f"{what} channel {c}"))
        expect = ref.interp(refdata[c], geo.idx, mode, ref_pad)
        s = geo.stable
        worst = max(worst, check_close(out[c][s], expect[s], bound, f"{prefix}_vs_reference_{mode}_padding_{pad_kind(ref_pad)}",
                                       f"{what} channel {c}"))
    n_out = int((geo.stable & ~np.all((geo.idx >= 0) & (geo.idx <= geo.ms.n - 1), axis=-1)).sum())
    return worst if mode != "nearest" else 0.0, int(valid.sum()), n_out


def values_exact(dtype_name: str, coords_dtype_name: str, pad_value) -> bool:
    """No arithmetic touches the values in nearest mode: no constant-padding emulation and no cast to the coordinate dtype."""
    return (not pad_value) and (dtype_name == "float32" or coords_dtype_name == "float64")


def pad_kind(ref_pad) -> str:
    return ref_pad if isinstance(ref_pad, str) else "constant"


def geometry_labels(case, sdesc, tdesc):
    return [f"D={case['D']}", f"src_ac={sdesc['ac']}", f"tgt_ac={tdesc['ac']}", f"src={sdesc['kind']}", f"tgt={tdesc['kind']}"]


def pair_nontrivial(sdesc, tdesc) -> bool:
    return rotation_between(sdesc, tdesc) >= 5.0 and max(anisotropy(sdesc), anisotropy(tdesc)) >= 1.5


def grids_equal(a, b) -> bool:
    return a == b and a.align_corners() == b.align_corners()


# ---------------------------------------------------------------------------------------
# facet 1 + 2: Image.sample(grid) / ImageBatch.sample(grid | grids)


def run_resample(case):
    from deepali.data import Image, ImageBatch

    D, N, C = case["D"], case["N"], case["C"]
    srcs, tgts = case["src"], case["tgt"]
    mode = mode_name(case["mode"])
    pad, ref_pad, pad_value = padding_arg(case["padding"])
    dt = tdtype(case["dtype"])
    sshape = tuple(srcs[0]["size"][::-1])
    tshape = tuple(tgts[0]["size"][::-1])
    data = torch.tensor(content(case, sshape), dtype=dt)
    data0 = data.clone()
    refdata = data.double().numpy()
    sgrids = [make_grid(g) for g in srcs]
    tgrids = [make_grid(g) for g in tgts]
    kw = {}
    if case["mode"] is not None:
        kw["mode"] = case["mode"]
    if pad is not None:
        kw["padding"] = pad
    if case["via"] == "Image":
        img = Image(data[0], sgrids[0])
        res = img.sample(tgrids[0], **kw)
        if not isinstance(res, Image):
            raise Violation("result_type", f"Image.sample(Grid) returned {type(res).__name__}")
        out = res.tensor().unsqueeze(0)
        out_grids = [res.grid()]
    else:
        batch = ImageBatch(data, sgrids[0] if case["src_arg"] == "grid" else (sgrids * N if len(sgrids) == 1 else sgrids))
        if len(batch.grids()) != N:
            raise Violation("batch_grid_count", f"ImageBatch of {N} images constructed with {len(batch.grids())} grids")
        arg = {"grid": tgrids[0], "list_of_one": [tgrids[0]], "replicated": [tgrids[0]] * N, "list": tgrids}[case["tgt_arg"]]
        res = batch.sample(arg, **kw)
        if not isinstance(res, ImageBatch):
            raise Violation("result_type", f"ImageBatch.sample(grid) returned {type(res).__name__}")
        out = res.tensor()
        out_grids = list(res.grids())
    if not torch.equal(data, data0):
        raise Violation("input_modified", "sample() modified the image data in place")
    if tuple(out.shape) != (N, C) + tshape:
        raise Violation("result_shape", f"sampled data has shape {tuple(out.shape)}, expected {(N, C) + tshape}")
    if out.dtype != dt:
        raise Violation("result_dtype", f"sampled data has dtype {out.dtype} for {dt} image")
    if len(out_grids) != N:
        raise Violation("single_target_grid_count" if len(tgts) == 1 and case["tgt_arg"] != "replicated" else "result_grid_count",
                        f"sampling {N} images on target argument '{case['tgt_arg']}' returned {len(out_grids)} grid(s) for "
                        f"{out.shape[0]} images")
    for i, g in enumerate(out_grids):
        if not grids_equal(g, tgrids[min(i, len(tgrids) - 1)]):
            raise Violation("result_grid", f"image {i} of the result does not carry its target grid")
    if case["via"] == "ImageBatch" and N > 1:
        item = res[N - 1]
        if not grids_equal(item.grid(), tgrids[-1]):
            raise Violation("result_grid", f"item {N - 1} of the result does not carry its target grid")
    out_np = out.detach().double().numpy()
    worst, n_valid, n_out, nt = 0.0, 0, 0, False
    for b in range(N):
        sdesc, tdesc = srcs[min(b, len(srcs) - 1)], tgts[min(b, len(tgts) - 1)]
        geo = Geometry(sdesc, tdesc, mode)
        r, nv, no = compare(out_np[b], refdata[b], geo, mode, ref_pad, pad_value,
                            f"{case['via']}.sample image {b} mode={case['mode']} padding={case['padding']}",
                            exact_values=values_exact(case["dtype"], "float32", pad_value))
        worst = max(worst, r)
        n_valid += nv
        n_out += no
        nt = nt or (pair_nontrivial(sdesc, tdesc) and nv >= 8)
    s0, t0 = srcs[0], tgts[0]
    labels = geometry_labels(case, s0, t0) + [
        f"mode={mode}", f"pad={pad_kind(ref_pad)}", f"N={N}", f"C={C}", f"via={case['via']}", case["content"], case["dtype"],
        f"src_grids={'per_image' if len(srcs) > 1 else 'shared'}", f"tgt_arg={case['tgt_arg']}",
        "ac_differs" if s0["ac"] != t0["ac"] else "ac_same", "outside>=8" if n_out >= 8 else "outside<8",
        "valid>=8" if n_valid >= 8 else "valid<8"]
    return {"ratio": worst, "nontrivial": nt, "labels": labels, "n_out": n_out}


def run_padding(case):
    info = run_resample(case)
    info["nontrivial"] = bool(info["n_out"] >= 8 and pair_nontrivial(case["src"][0], case["tgt"][0]))
    return info


# ---------------------------------------------------------------------------------------
# facet 3: sampling on the own grid


@st.composite
def own_grid_cases(draw):
    D = draw(gen.dims())
    N = draw(st.sampled_from([1, 2, 3]))
    srcs, _ = draw(grid_sets(D, N, "per_image" if N > 1 else "shared", "single"))
    case = {"D": D, "N": N, "C": draw(st.integers(1, 2)), "src": srcs, "via": draw(st.sampled_from(["Image", "ImageBatch"])) if N == 1 else "ImageBatch",
            "target": draw(st.sampled_from(["same_object", "rebuilt", "other_align_corners"])),
            "mode": draw(st.sampled_from(["linear", "nearest"])), "padding": draw(st.sampled_from(["zeros", "border", 30.0]))}
    case.update(draw(content_fields(D)))
    return case


def run_own_grid(case):
    from deepali.data import Image, ImageBatch

    D, N = case["D"], case["N"]
    srcs = case["src"]
    dt = tdtype(case["dtype"])
    sshape = tuple(srcs[0]["size"][::-1])
    data = torch.tensor(content(case, sshape), dtype=dt)
    refdata = data.double().numpy()
    sgrids = [make_grid(g) for g in srcs]
    how = case["target"]

    def variant(g, desc):
        if how == "same_object":
            return g
        if how == "rebuilt":
            return make_grid(desc)
        return make_grid(dict(desc, ac=not desc["ac"]))

    targets = [variant(g, d) for g, d in zip(sgrids, srcs)]
    kw = {"mode": case["mode"], "padding": case["padding"]}
    rng = value_range(refdata, None)
    pv = padding_arg(case["padding"])[2]
    worst = 0.0
    if case["via"] == "Image":
        img = Image(data[0], sgrids[0])
        res = img.sample(targets[0], **kw)
        if not isinstance(res, Image):
            raise Violation("result_type", f"Image.sample(own grid) returned {type(res).__name__}")
        outs = [res.tensor().unsqueeze(0)]
        rgrids = [[res.grid()]]
    else:
        batch = ImageBatch(data, sgrids)
        res = batch.sample(targets if N > 1 else targets[0], **kw)
        if not isinstance(res, ImageBatch):
            raise Violation("result_type", f"ImageBatch.sample(own grids) returned {type(res).__name__}")
        outs = [res.tensor()]
        rgrids = [list(res.grids())]
    for out, gs in zip(outs, rgrids):
        if tuple(out.shape) != tuple(data.shape):
            raise Violation("own_grid_shape", f"sample(own grid) has shape {tuple(out.shape)} for image of shape {tuple(data.shape)}")
        if len(gs) != N:
            raise Violation("result_grid_count", f"sample(own grids) returned {len(gs)} grids for {N} images")
        for b in range(N):
            ms = ref.GridModel.from_desc(srcs[b])
            idx = ms.index_points()
            bound = rng * D * K * EPS32 * index_cond(ms, ms, idx) + value_bound(refdata[b], pv, "linear", False)
            worst = max(worst, check_close(out[b], refdata[b], bound, "own_grid_identity",
                                           f"{case['via']}.sample({how}) image {b} mode={case['mode']}"))
            if not gs[b] == sgrids[b]:
                raise Violation("own_grid_result_grid", f"result image {b} does not carry its own grid")
    # identity through the computing path: a batch whose second grid differs is sampled on [g0, g0]
    nt = gen.grid_is_anisotropic(srcs[0])
    if N > 1 and how != "same_object":
        batch = ImageBatch(data, sgrids)
        res = batch.sample([targets[0]] * N, **kw)
        out = res.tensor().double().numpy()
        ms = ref.GridModel.from_desc(srcs[0])
        bound = value_bound(refdata[0], pv, case["mode"], values_exact(case["dtype"], "float32", pv))
        if case["mode"] != "nearest":
            bound += rng * D * K * EPS32 * index_cond(ms, ms, ms.index_points())
        worst = max(worst, check_close(out[0], refdata[0], bound, "own_grid_identity_computed",
                                       f"image 0 of a batch with different grids sampled on its own grid ({how}) mode={case['mode']}"))
        if len(res.grids()) != N:
            raise Violation("result_grid_count", f"sample({N} grids) returned {len(res.grids())} grids")
        nt = nt and gen.grid_is_oblique(srcs[0])
    return {"ratio": worst if case["mode"] != "nearest" else 0.0, "nontrivial": nt,
            "labels": [f"target={how}", f"via={case['via']}", f"N={N}", f"D={D}", f"ac={srcs[0]['ac']}", f"mode={case['mode']}"]}


# ---------------------------------------------------------------------------------------
# facet 4: sample(coords)


@st.composite
def coords_cases(draw):
    D = draw(gen.dims())
    N = draw(st.sampled_from([1, 1, 2]))
    via = draw(st.sampled_from(["Image", "ImageBatch"])) if N == 1 else "ImageBatch"
    src_mode = draw(st.sampled_from(["shared", "per_image"])) if N > 1 else "shared"
    srcs, tgts = draw(grid_sets(D, N, src_mode, "single", cover=(0.3, 2.0)))
    case = {"D": D, "N": N, "C": draw(st.integers(1, 2)), "via": via, "src": srcs, "tgt": tgts,
            "form": draw(st.sampled_from(["grid", "flat", "function"])),
            "coords_batch": draw(st.sampled_from(["one", "N"])) if src_mode == "shared" else "N",
            "coords_dtype": draw(st.sampled_from(["float32", "float32", "float64"])),
            "mode": draw(st.sampled_from(["linear", "nearest"])), "padding": draw(paddings())}
    case.update(draw(content_fields(D)))
    return case


def run_coords(case):
    from deepali.core import functional as U
    from deepali.data import Image, ImageBatch

    D, N, C = case["D"], case["N"], case["C"]
    srcs, tdesc = case["src"], case["tgt"][0]
    mode = case["mode"]
    pad, ref_pad, pad_value = padding_arg(case["padding"])
    dt = tdtype(case["dtype"])
    cdt = tdtype(case["coords_dtype"])
    sshape = tuple(srcs[0]["size"][::-1])
    tshape = tuple(tdesc["size"][::-1])
    data = torch.tensor(content(case, sshape), dtype=dt)
    refdata = data.double().numpy()
    sgrids = [make_grid(g) for g in srcs]
    tgrid = make_grid(tdesc)
    ac0 = srcs[0]["ac"]  # convention of the batch = convention of its first grid (ImageBatch.align_corners)
    geos = [Geometry(srcs[min(b, len(srcs) - 1)], tdesc, mode) for b in range(N)]
    # normalised coordinates from the float64 model: target index -> world -> source cube (convention of the image)
    cube = [g.mt.points(g.mt.index_points(), "grid", cube_axes(ac0), g.ms) for g in geos]
    nb = N if case["coords_batch"] == "N" else 1
    cnp = np.stack(cube[:nb], 0)
    flat = case["form"] == "flat"
    if flat:
        cnp = cnp.reshape(nb, -1, D)
    coords = torch.tensor(cnp, dtype=cdt)
    c0 = coords.clone()
    kw = {"mode": mode}
    if pad is not None:
        kw["padding"] = pad
    if case["form"] == "function":
        out = U.sample_image(data, coords, align_corners=ac0, **kw)
    elif case["via"] == "Image":
        out = Image(data[0], sgrids[0]).sample(coords[0], **kw).unsqueeze(0)
    else:
        batch = ImageBatch(data, sgrids if len(sgrids) > 1 else sgrids[0])
        out = batch.sample(coords, **kw)
    if type(out) is not torch.Tensor:
        raise Violation("coords_result_type", f"sample(coords) returned {type(out).__name__}, documented: Tensor")
    if not torch.equal(coords, c0):
        raise Violation("input_modified", "sample(coords) modified the coordinates")
    exp_shape = (N, C) + ((int(np.prod(tshape)),) if flat else tshape)
    if tuple(out.shape) != exp_shape:
        raise Violation("coords_result_shape", f"sample(coords {tuple(coords.shape)}) has shape {tuple(out.shape)}, expected {exp_shape}")
    if out.dtype != dt:
        raise Violation("result_dtype", f"sampled data has dtype {out.dtype} for {dt} image")
    out_np = out.double().numpy().reshape((N, C) + tshape)
    worst, n_valid = 0.0, 0
    for b in range(N):
        r, nv, _ = compare(out_np[b], refdata[b], geos[b], mode, ref_pad, pad_value,
                           f"sample(coords) form={case['form']} image {b} padding={case['padding']}", prefix="coords",
                           exact_values=values_exact(case["dtype"], case["coords_dtype"], pad_value))
        worst = max(worst, r)
        n_valid += nv
    # agreement with sample(target grid): same values through deepali's own coordinate computation
    batch = ImageBatch(data, sgrids if len(sgrids) > 1 else sgrids[0])
    via_grid = batch.sample([tgrid] * N, **kw).tensor().double().numpy()
    for b in range(N):
        g = geos[b]
        rng = value_range(refdata[b], pad_value)
        bound = 2 * value_bound(refdata[b], pad_value, mode, values_exact(case["dtype"], "float32", pad_value)
                                and values_exact(case["dtype"], case["coords_dtype"], pad_value))
        if mode != "nearest":
            bound += 2 * rng * D * g.idx_bound
        worst = max(worst, check_close(out_np[b][:, g.stable], via_grid[b][:, g.stable], bound, f"coords_vs_grid_{mode}",
                                       f"sample(coords) vs sample(target grid) image {b}"))
    nt = pair_nontrivial(srcs[0], tdesc) and n_valid >= 8
    return {"ratio": worst if mode != "nearest" else 0.0, "nontrivial": nt,
            "labels": geometry_labels(case, srcs[0], tdesc) + [f"form={case['form']}", f"via={case['via']}", f"N={N}", f"mode={mode}",
                                                               f"pad={pad_kind(ref_pad)}", f"coords={case['coords_dtype']}",
                                                               f"coords_batch={case['coords_batch']}", case["dtype"]]}


# ---------------------------------------------------------------------------------------
# facet 5: modules


@st.composite
def module_cases(draw):
    D = draw(gen.dims())
    module = draw(st.sampled_from(["SampleImage", "AlignImage", "AlignImage", "TransformImage"]))
    if module == "SampleImage":
        transform = "none"
    elif module == "AlignImage":
        transform = draw(st.sampled_from(["none", "identity", "affine", "affine", "linear"]))
    else:
        opts = ["none", "flow", "flow_unbatched"] + (["identity", "affine", "affine"] if D == 3 else [])
        transform = draw(st.sampled_from(opts))
    N = draw(st.sampled_from([1, 2]))
    srcs, tgts = draw(grid_sets(D, 1, "shared", "single", cover=(0.2, 1.6)))
    axes = draw(st.sampled_from([None, None, "cube", "cube_corners", "world", "grid"]))
    if transform == "linear" and axes in ("world", "grid"):
        # a (D, D) matrix has no translation: it is linear about the origin of the module axes, which for world/grid axes is
        # not the target centre (a generated rotation/shear would move the target far out of the source domain)
        transform = "affine"
    case = {"D": D, "N": N, "C": draw(st.integers(1, 2)), "module": module, "transform": transform, "src": srcs, "tgt": tgts,
            "axes": axes,
            "E": draw(st.lists(gen.qfloat(-0.3, 0.3, 0.01), min_size=D * D, max_size=D * D)),
            "t": draw(st.lists(gen.qfloat(-0.3, 0.3, 0.01), min_size=D, max_size=D)),
            "tbatch": draw(st.sampled_from(["one", "N"])),
            "call": draw(st.sampled_from(["positional", "positional", "dict", "unbatched", "data_keyword"])),
            "mode": draw(st.sampled_from(["linear", "nearest"])), "padding": draw(paddings()),
            "amp": draw(gen.qfloat(0.0, 0.3, 0.01))}
    case.update(draw(content_fields(D)))
    return case


def run_modules(case):
    from deepali import modules as M

    D, N, C = case["D"], case["N"], case["C"]
    sdesc, tdesc = case["src"][0], case["tgt"][0]
    mode = case["mode"]
    pad, ref_pad, pad_value = padding_arg(case["padding"])
    dt = tdtype(case["dtype"])
    ms, mt = ref.GridModel.from_desc(sdesc), ref.GridModel.from_desc(tdesc)
    sshape, tshape = tuple(sdesc["size"][::-1]), tuple(tdesc["size"][::-1])
    call = case["call"]
    if call == "unbatched":
        N = 1
    data = torch.tensor(content(dict(case, N=N), sshape), dtype=dt)
    refdata = data.double().numpy()
    sgrid, tgrid = make_grid(sdesc), make_grid(tdesc)
    axes = case["axes"]
    ax = cube_axes(tdesc["ac"]) if axes is None else axes  # documented default: cube axes of the target's convention
    x = mt.points(mt.index_points(), "grid", ax)  # target samples w.r.t. the module's axes, (..., X, D)
    transform = case["transform"]
    nb = N if case["tbatch"] == "N" else 1
    mats, src_idx, world_aff = None, [], []
    extra_world = float(np.abs(x).max()) if ax == "world" else 0.0
    if transform in ("identity", "affine", "linear"):
        mats = []
        for b in range(nb):
            if transform == "identity":
                Ac = ref.hom(np.eye(D), np.zeros(D))
            else:
                E = np.array(case["E"]).reshape(D, D) / (b + 1)
                t = np.array(case["t"]) * (0.0 if transform == "linear" else 1.0) / (b + 1)
                Ac = ref.hom(np.eye(D) + E, t)  # w.r.t. the target cube of the target's convention
            cb = cube_axes(tdesc["ac"])
            A = ref.hmul(mt.matrix(cb, ax), Ac, mt.matrix(ax, cb))
            mats.append(A)
        for b in range(N):
            A = mats[min(b, nb - 1)]
            y = ref.happly(A, x)
            src_idx.append(mt.points(y, ax, "grid", ms))
            world_aff.append(ref.hmul(mt.matrix(ax, "world"), A, mt.matrix("world", ax)))
            if ax == "world":
                extra_world = max(extra_world, float(np.abs(y).max()))
        T = np.stack(mats, 0)
        if transform == "linear":
            T = T[:, :, :D]
        targ = torch.tensor(T, dtype=torch.float32)
    elif transform in ("flow", "flow_unbatched"):
        # displacement of the target samples in `ax` units: smooth field scaled by the axis-wise extent of the samples
        span = (x.reshape(-1, D).max(0) - x.reshape(-1, D).min(0)) / 2
        nbf = 1 if transform == "flow_unbatched" else nb
        flows = []
        for b in range(nbf):
            u = np.stack([smooth_field(tshape, [1 + (k + b) % 2] * D, case["amp"] * span[k] * (1 if k % 2 == 0 else -1)) for k in range(D)], 0)
            flows.append(u)
        for b in range(N):
            u = flows[min(b, nbf - 1)]
            y = x + np.moveaxis(u, 0, -1)
            src_idx.append(mt.points(y, ax, "grid", ms))
            world_aff.append(None)
            if ax == "world":
                extra_world = max(extra_world, float(np.abs(y).max()))
        U_ = np.stack(flows, 0)
        targ = torch.tensor(U_[0] if transform == "flow_unbatched" else U_, dtype=torch.float32)
    else:
        targ = None
        for b in range(N):
            src_idx.append(mt.points(x, ax, "grid", ms))
            world_aff.append(None)
    kw = dict(sampling=mode)
    if pad is not None:
        kw["padding"] = pad
    else:
        ref_pad, pad_value = ("zeros", 0.0) if case["module"] == "SampleImage" else ("border", None)  # documented defaults
    if axes is not None:
        kw["axes"] = axes
    mod = getattr(M, case["module"])(tgrid, sgrid, **kw)
    first = torch.tensor(x, dtype=torch.float32) if case["module"] == "SampleImage" else targ
    if case["module"] == "SampleImage" and case["tbatch"] == "N":
        first = first.unsqueeze(0)
    inp = data[0] if call == "unbatched" else data
    if call == "dict":
        res = mod(first, {"img": inp})
        if not isinstance(res, dict) or set(res) != {"img"}:
            raise Violation("module_result_type", f"{case['module']}(.., dict) returned {type(res).__name__}")
        out = res["img"]
    elif call == "data_keyword":
        # forward(grid|transform, input=None, data=None, mask=None): "'input', 'data', and/or 'mask' is required"
        out = mod(first, data=inp)
    else:
        out = mod(first, inp)
    if not isinstance(out, torch.Tensor):
        raise Violation("module_result_type", f"{case['module']} returned {type(out).__name__}")
    if call == "unbatched":
        if tuple(out.shape) == (1, C) + tshape and transform != "none" and case["module"] != "SampleImage":
            out = out[0]  # a batched transform applied to an unbatched image: leading batch dimension is acceptable
        if tuple(out.shape) != (C,) + tshape:
            raise Violation("module_result_shape", f"{case['module']} unbatched input: result shape {tuple(out.shape)}, expected {(C,) + tshape}")
        out = out.unsqueeze(0)
    if tuple(out.shape) != (N, C) + tshape:
        raise Violation("module_result_shape", f"{case['module']} result shape {tuple(out.shape)}, expected {(N, C) + tshape}")
    out_np = out.detach().double().numpy()
    worst, n_valid = 0.0, 0
    for b in range(N):
        geo = Geometry(sdesc, tdesc, mode, src_index=src_idx[b], extra_world=extra_world)
        r, nv, _ = compare(out_np[b], refdata[b], geo, mode, ref_pad, pad_value,
                           f"{case['module']}(axes={axes}, transform={transform}, call={call}) image {b} padding={case['padding']}",
                           world_affine=world_aff[b], use_itk=transform not in ("flow", "flow_unbatched"), prefix="module",
                           exact_values=values_exact(case["dtype"], "float32", pad_value))
        worst = max(worst, r)
        n_valid += nv
    moved = transform in ("affine", "linear") or (transform.startswith("flow") and case["amp"] >= 0.05)
    nt = pair_nontrivial(sdesc, tdesc) and n_valid >= 8 and (moved or transform in ("none", "identity"))
    return {"ratio": worst if mode != "nearest" else 0.0, "nontrivial": nt,
            "labels": geometry_labels(case, sdesc, tdesc) + [case["module"], f"transform={transform}", f"axes={axes}", f"call={call}",
                                                            f"N={N}", f"mode={mode}", f"pad={pad_kind(ref_pad)}", f"tbatch={case['tbatch']}"]}


FACETS = [
    Facet("itk_resample", run_resample, strategy=lambda: resample_cases((0.2, 1.4)),
          rule="anchor-constructed overlapping source/target grid sets (target extent 0.2-1.4 x source extent), Image/ImageBatch, shared or "
               "per-image grids, all target argument forms; non-trivial = some image pair with rotation between the grids >= 5 deg, "
               "anisotropy >= 1.5 on either grid and >= 8 target samples compared with ITK",
          quick=700, thorough=10000, shards=16, quick_shards=4),
    Facet("padding_outside", run_padding, strategy=lambda: resample_cases((0.8, 3.0)),
          rule="as itk_resample with target extent 0.8-3 x source extent so that many samples fall outside the field of view; every sample "
               "is compared with the numpy reference interpolator (zeros/border/constant padding); non-trivial = rotation >= 5 deg, "
               "anisotropy >= 1.5, >= 8 compared samples outside the source index range",
          quick=400, thorough=6000, shards=16, quick_shards=2),
    Facet("own_grid", run_own_grid, strategy=own_grid_cases,
          rule="image or batch (per-image grids) sampled on its own grid(s): same object, rebuilt equal grid, grid with the other "
               "align_corners; plus image 0 of a batch with different grids sampled through the computing path; non-trivial = anisotropic "
               "(and oblique for the computing path)",
          quick=250, thorough=3000, shards=8, quick_shards=2),
    Facet("sample_coords", run_coords, strategy=coords_cases,
          rule="normalised coordinates computed by the float64 model (target index -> world -> source cube), grid-shaped or flat point "
               "lists, batch 1|N, float32|float64, Image/ImageBatch/sample_image; compared with ITK, numpy reference and sample(target "
               "grid); non-trivial = rotation >= 5 deg, anisotropy >= 1.5, >= 8 samples compared with ITK",
          quick=400, thorough=6000, shards=16, quick_shards=2),
    Facet("modules", run_modules, strategy=module_cases,
          rule="SampleImage / AlignImage (None, identity, affine, linear) / TransformImage (None, flow; identity/affine for D=3) with "
               "axes in {default, cube, cube_corners, world, grid}; affine generated in the target cube (|E|,|t| <= 0.3) and conjugated "
               "to the module axes by the float64 model; ITK with the equivalent world affine + numpy reference; non-trivial = rotation "
               ">= 5 deg, anisotropy >= 1.5, >= 8 samples compared inside the field of view",
          quick=500, thorough=8000, shards=16, quick_shards=3),
]
