"""C03 - Derived grids (resize, pyramid, crop, pad, pool) keep their place in the world.

A case is a grid descriptor plus a chain of 1-3 derivation operations, or (facet ``trees``) 2-5 derivation steps each
applied to any grid obtained so far.  Every operation is applied to the
deepali ``Grid`` *and* to a float64 reference state (``State``: integer size n, float-valued internal size f,
spacing, center, direction, align_corners) written from the docstrings / the property statement.  After
every step the returned grid is compared with the reference state and with anchors computed from the
*previous* reference state (corner samples / cube faces for the resize family, world positions of retained
samples for the index family), so an error cannot hide behind an earlier operation.

Keeping one's place in the world includes the grids that already exist: Grid objects share attribute tensors (shallow
copies in the resize family and the setters, ``Grid(spacing=other.spacing())`` in the index family), so every grid of a
case is fingerprinted attribute by attribute (``Family``) and compared after every call, and all of them are compared
with their reference states again at the end.
"""
from __future__ import annotations

import copy
import itertools
import math
import pickle
import traceback

import numpy as np
import torch
from hypothesis import strategies as st

from vlib import gen, ref
from vlib.case import grid_state, make_grid, warm_grid
from vlib.core import EPS32, Facet, Violation, check_close

PROPERTY = "C03"
MANIFEST = {
    "text": "Generated oriented anisotropic grids (D in {2,3}, sizes 1..64, rotations/permutations/reflections, both "
            "align_corners, center= and origin= construction incl. origins with zero components) and chains of 1-3 "
            "derivation operations (resize, reshape, resample incl. min/max, downsample, upsample with levels of either "
            "sign / dims subsets / min_size, pyramid, crop and pad in every argument form with margins of either sign, "
            "narrow, center_crop, center_pad, region_of_interest possibly exceeding the grid, pool/avg_pool, "
            "Cube.grid(size|shape|spacing), align_corners(b)) with arguments constructed inside the documented domain are "
            "executed on deepali and on an independent float64 reference state; after every step size, spacing, center, "
            "direction, origin and the world positions of corner/face/retained samples are compared, pyramid levels are "
            "checked for the documented size rule, equal cube extent and same_domain_as, and downsample(l).upsample(l) == "
            "grid whenever no axis was clamped. Any exception (in particular internal AssertionErrors) is a violation. "
            "Facet trees: 2-5 steps, each applied twice (equal results required) to any grid obtained so far (parents, siblings, "
            "grandchildren, every pyramid level) after optional read-only warm-up calls, the vocabulary extended by the spacing/"
            "center/origin/direction/align_corners setters (new-grid form, and in-place form on a shallow copy), clone/copy/"
            "deepcopy/pickle and Grid(size=g.size(), spacing=g.spacing(), ...); in all facets every grid of the case is "
            "fingerprinted (internal size, spacing, center, direction, flag) and must be bit-identical after every later call, "
            "and every grid is compared with its reference state again at the end; clone/deepcopy results share no memory with "
            "their source. Exploration, not proof.",
    "note": "Trusted: the float64 reference geometry in props/c03.py (State/model_apply, self-tested for its own anchors) "
            "and vlib/ref.GridModel. Tolerance 64*eps32*(|center|+extent) because deepali stores grid attributes in float32. "
            "Resize-family operations change an axis only between sizes >= 2 when corners are aligned (the property "
            "quantifies over target sizes >= 2); an axis that keeps its size, including a singleton axis, keeps its spacing. "
            "Setters keep the stored center point (class docstring) and every attribute they do not name. Bound grows linearly "
            "with the number of derivations beyond 3 (rounding accumulates per step).",
    "technique": "property-based testing (Hypothesis) of operation chains against a float64 reference model of derived-grid "
                 "geometry, plus the library's own predicates (==, same_domain_as) as stated in the property",
}
ASSUMPTIONS = [
    "grids: size 1..64 per axis (derived sizes up to ~2000), spacing in [0.05, 20], |center| <= 500, |det direction| = 1",
    "resize family (resize, reshape, downsample, upsample, pyramid, Cube.grid): an axis whose size changes has >= 2 samples "
    "before and after when corner alignment is in effect, target sizes are >= 2 (size/2^levels >= 2 unless the axis is "
    "unambiguously clamped by min_size); axes with a single sample are only left untouched (dims= / clamped) under corner "
    "alignment; Cube.grid needs a positive cube extent",
    "downsample min_size: cases with halved float size v < min_size <= ceil(v) are not generated (docstring does not say "
    "whether the float-valued or the integer size is compared; deepali compares the float value)",
    "upsample (doubling) is only generated while the float-valued internal size is determined by the docs: after "
    "resample, or crop/pad/region_of_interest of a grid with fractional internal size, it is implementation-defined",
    "requested sizes whose float32 evaluation is within 64 eps of an integer (resample, Cube.grid(spacing)) are accepted "
    "with either rounding and end the chain (generated around, counted as label tie_stop)",
    "pyramid: only the documented relations are asserted (levels 0..L, halving by ceil, min_size rule, untouched dims, "
    "same domain / cube extent); the size of level 0 itself is implementation-defined and not asserted",
    "crop/pad: the single positional int form crop(k) is not generated (ambiguous in the docs); pool kernels are scalars "
    "or tuples with equal entries (axis order of kernel tuples is not documented)",
    "existing grids unchanged: compared are the five attributes of a Grid (float-valued internal size, spacing, center, "
    "direction, align_corners) bit for bit; operations documented to return the grid itself (no-op short-cuts) are "
    "recognised by object identity; in-place setters (center_, origin_, spacing_, direction_, align_corners_) are only "
    "applied to a fresh copy.copy() of a grid, whose own change is expected and whose relatives must stay as they were",
    "the same call repeated on the same grid: equal internal size and flag, other attributes within 4 eps32",
]

K = 64.0
NMAX = 256  # no growing operation is generated beyond this size
TIE = 64 * EPS32
LETTERS = ("x", "y", "z")
COPY_OPS = ("clone", "copy", "deepcopy", "pickle", "ctor_center", "ctor_origin")  # ctor_*: Grid(size=g.size(), spacing=g.spacing(), ...)
SLOTS = ("size", "spacing", "center", "direction", "align_corners")  # order of vlib.case.grid_state


# ---------------------------------------------------------------------------------------
# reference state


class State:
    """Float64 model of a grid: n (int sizes), f (float-valued internal size), fk (f determined by the docs)."""

    __slots__ = ("n", "f", "fk", "s", "c", "R", "ac")

    def __init__(self, n, f, fk, s, c, R, ac):
        self.n = [int(v) for v in n]
        self.f = [float(v) for v in f]
        self.fk = [bool(v) for v in fk]
        self.s = np.asarray(s, dtype=np.float64)
        self.c = np.asarray(c, dtype=np.float64)
        self.R = np.asarray(R, dtype=np.float64)
        self.ac = bool(ac)

    @classmethod
    def from_desc(cls, g):
        m = ref.GridModel.from_desc(g)
        n = [int(v) for v in g["size"]]
        return cls(n, n, [True] * len(n), m.s, m.c, m.R, g["ac"])

    @property
    def D(self):
        return len(self.n)

    def nn(self):
        return np.asarray(self.n, dtype=np.float64)

    def world(self, idx):
        idx = np.asarray(idx, dtype=np.float64)
        return self.c + (idx - (self.nn() - 1) / 2) @ (self.R * self.s).T

    def origin(self):
        return self.world(np.zeros(self.D))

    def W(self):
        return float(np.abs(self.c).max() + np.abs(self.s * self.nn()).sum())

    def extent(self):
        return self.s * self.nn()

    def cube_extent(self):
        return self.s * (self.nn() - 1 if self.ac else self.nn())

    def with_(self, **kw):
        d = {k: getattr(self, k) for k in self.__slots__}
        d.update(kw)
        return State(**d)


class Res:
    """Result of applying an operation to the reference state."""

    def __init__(self, family, states, **kw):
        self.family = family
        self.states = states
        self.ac_eff = None      # resize family: effective align_corners
        self.off = None         # index family: index offset of new sample 0 in the old grid
        self.stride = 1.0
        self.clamped = None
        self.noop = False
        self.tie = False
        self.alt_sizes = None   # tie: acceptable alternative sizes
        self.pick = 0
        self.extra = {}
        self.__dict__.update(kw)


def _sel(dims, D):
    if not dims:
        return list(range(D))
    out = []
    for d in dims:
        out.append(LETTERS.index(d.lower()) if isinstance(d, str) else int(d))
    return out


def _ceil(x: float) -> int:
    return int(math.ceil(x - 1e-12)) if abs(x - round(x)) < 1e-9 else int(math.ceil(x))


def _near_int(x: float) -> bool:
    return abs(x - round(x)) <= TIE * max(abs(x), 1.0)


def clamp_status(v: float, m: int) -> str:
    """min_size rule of downsample: 'the grid is not further downsampled if this would reduce its size below min_size'.

    The float-valued size v and the resulting integer size ceil(v) give the same answer unless v < m <= ceil(v);
    that zone is implementation-defined (deepali compares the float value) and is not generated."""
    if v >= m:
        return "free"
    if _ceil(v) < m:
        return "clamped"
    return "ambiguous"


class DomainError(ValueError):
    """The operation is outside the domain of the property (generator error if it reaches run())."""


def resized(st: State, f_new, fk_new, ac_eff: bool) -> State:
    """Resize rule of the property: center/direction unchanged; corner samples (True) or extent (False) kept.

    An axis whose size does not change keeps its spacing (also a singleton axis under align_corners=True,
    where 'corner samples kept' is trivially true)."""
    n_new = [_ceil(v) for v in f_new]
    n0, n1 = st.nn(), np.asarray(n_new, dtype=np.float64)
    same = n0 == n1
    if n1.min() < 1 or (ac_eff and np.any(~same & ((n0 < 2) | (n1 < 2)))):
        raise DomainError(f"resize {st.n} -> {n_new} with align_corners={ac_eff} is outside the domain")
    if ac_eff:
        s = np.where(same, st.s, st.s * (n0 - 1) / np.where(same, 1.0, n1 - 1))
    else:
        s = st.s * n0 / n1
    return st.with_(n=n_new, f=f_new, fk=fk_new, s=s)


def index_derived(st: State, n_new, off, stride=1.0, f_new=None, fk_new=None) -> State:
    """Index family: spacing*stride, direction unchanged, new sample j sits at old index stride*j + off."""
    n_new = [int(v) for v in n_new]
    off = np.asarray(off, dtype=np.float64)
    stride = np.asarray(stride, dtype=np.float64) * np.ones(st.D)
    o = st.world(off)
    s = st.s * stride
    c = o + ((np.asarray(n_new, dtype=np.float64) - 1) / 2) @ (st.R * s).T
    return st.with_(n=n_new, f=n_new if f_new is None else f_new, fk=[True] * st.D if fk_new is None else fk_new, s=s, c=c)


def pyramid_sizes(n, levels, sel, min_size, ac):
    """Size rule of Grid.pyramid (coarsest level by rounding, finer levels 2n-1, then ceil-halving with min_size).

    Only used to let generated chains continue after a pyramid; the *asserted* relations are in check_pyramid_sizes."""
    m = (2 ** levels - 1) if ac else 0
    sizes = {lv: list(n) for lv in range(levels + 1)}
    for d in sel:
        sizes[levels][d] = int(0.5 + (n[d] + m) / 2 ** levels)
        for lv in range(levels - 1, -1, -1):
            sizes[lv][d] = 2 * sizes[lv + 1][d] - 1
        for lv in range(1, levels + 1):
            h = (sizes[lv - 1][d] + 1) // 2
            sizes[lv][d] = sizes[lv - 1][d] if h < min_size else h
    return sizes


def margins_of(op, D):
    """(lo, hi) per axis from the crop/pad argument forms."""
    form, v = op["form"], op["values"]
    if form in ("margin_int", "num_int"):
        return [int(v)] * D, [int(v)] * D
    if form in ("args", "margin", "seq"):
        return [int(x) for x in v], [int(x) for x in v]
    lo, hi = [0] * D, [0] * D
    for i in range(len(v) // 2):
        lo[i], hi[i] = int(v[2 * i]), int(v[2 * i + 1])
    return lo, hi


def _bcast(v, D):
    return [int(v)] * D if isinstance(v, int) else [int(x) for x in v]


def model_apply(st: State, op: dict) -> Res:
    name = op["op"]
    D = st.D
    if name in ("resize", "reshape"):
        tgt = _bcast(op["size"], D) if name == "resize" else _bcast(op["shape"], D)[::-1]
        ac_eff = st.ac if op.get("ac") is None else bool(op["ac"])
        return Res("resize", [resized(st, tgt, [True] * D, ac_eff)], ac_eff=ac_eff)
    if name in ("downsample", "upsample"):
        lv = int(op["levels"])
        scale = 2.0 ** (-lv if name == "downsample" else lv)
        sel = _sel(op.get("dims"), D)
        ms = op.get("min_size")
        ms = (1 if ms is None else int(ms)) if name == "downsample" else None
        ac_eff = st.ac if op.get("ac") is None else bool(op["ac"])
        f, fk, clamped = list(st.f), list(st.fk), [False] * D
        for d in set(sel):
            v = st.f[d] * scale
            status = "free" if ms is None else clamp_status(v, ms)
            if status == "ambiguous":
                return Res("resize", [st], tie=True, extra={"skip": True})
            if status == "clamped":
                clamped[d] = True
            else:
                f[d] = v
        return Res("resize", [resized(st, f, fk, ac_eff)], ac_eff=ac_eff, clamped=clamped)
    if name == "pyramid":
        L = int(op["levels"])
        sel = _sel(op.get("dims"), D)
        ms = 0 if op.get("min_size") is None else int(op["min_size"])
        sizes = pyramid_sizes(st.n, L, sel, ms, st.ac)
        states = [resized(st, sizes[lv], [True] * D, st.ac) for lv in range(L + 1)]
        return Res("pyramid", states, ac_eff=st.ac, pick=int(op["pick"]), extra={"sizes": sizes, "sel": sel, "min_size": ms})
    if name == "resample":
        sp = op["spacing"]
        if sp == "min":
            sp = [float(st.s.min())] * D
        elif sp == "max":
            sp = [float(st.s.max())] * D
        elif isinstance(sp, (int, float)):
            sp = [float(sp)] * D
        sp = np.asarray(sp, dtype=np.float64)
        ms = 1 if op.get("min_size") is None else int(op["min_size"])
        thr = 1e-5 + 1e-8 / st.s  # Grid.resample returns self if allclose(spacing, current): documented-as-implemented no-op
        d = np.abs(sp - st.s) / st.s
        if np.all(d <= 0.8 * thr):
            return Res("resample", [st], noop=True, extra={"spacing": sp})
        if not np.any(d >= 1.3 * thr):
            return Res("resample", [st], tie=True, extra={"spacing": sp, "skip": True})
        q = st.extent() / sp
        f, n, tie, alt = [], [], False, []
        for v in q:
            v = float(v)
            f.append(max(v, float(ms)))
            if _near_int(v):  # float32 evaluation may land on either side of the integer
                tie = True
                r = int(round(v))
                n.append(max(r, ms))
                alt.append((max(r, ms), max(r + 1, ms)))
            else:
                n.append(max(int(math.ceil(v)), ms))
                alt.append((n[-1],))
        new = st.with_(n=n, f=f, fk=[False] * D, s=sp)
        return Res("resample", [new], tie=tie, alt_sizes=alt, extra={"spacing": sp, "q": q})
    if name in ("crop", "pad"):
        lo, hi = margins_of(op, D)
        sgn = 1 if name == "crop" else -1
        if all(v == 0 for v in lo + hi):
            return Res("index", [st], noop=True, off=np.zeros(D))
        n = [st.n[i] - sgn * (lo[i] + hi[i]) for i in range(D)]
        f = [max(st.f[i] - sgn * (lo[i] + hi[i]), 1.0) for i in range(D)]
        fk = [st.fk[i] and abs(st.f[i] - round(st.f[i])) < 1e-9 for i in range(D)]
        return Res("index", [index_derived(st, n, [sgn * v for v in lo], 1.0, f, fk)], off=np.asarray([sgn * v for v in lo], dtype=float))
    if name == "roi":
        start, size = _bcast(op["start"], D), _bcast(op["size"], D)
        if all(start[i] == 0 and size[i] == st.n[i] for i in range(D)):
            return Res("index", [st], noop=True, off=np.zeros(D))
        f = [max(st.f[i] - st.n[i] + size[i], 1.0) for i in range(D)]
        fk = [st.fk[i] and abs(st.f[i] - round(st.f[i])) < 1e-9 for i in range(D)]
        return Res("index", [index_derived(st, size, start, 1.0, f, fk)], off=np.asarray(start, dtype=float))
    if name in ("center_crop", "center_pad"):
        size = _bcast(op["size"], D)
        if name == "center_crop":
            n = [min(a, b) for a, b in zip(st.n, size)]
            off = [(a - b) // 2 for a, b in zip(st.n, n)]
        else:
            n = [max(a, b) for a, b in zip(st.n, size)]
            off = [-((b - a) // 2) for a, b in zip(st.n, n)]
        return Res("index", [index_derived(st, n, off)], off=np.asarray(off, dtype=float))
    if name == "narrow":
        n = list(st.n)
        n[op["dim"]] = int(op["length"])
        off = [0] * D
        off[op["dim"]] = int(op["start"])
        return Res("index", [index_derived(st, n, off)], off=np.asarray(off, dtype=float))
    if name in ("pool", "avg_pool"):
        k = _bcast(op["k"], D)
        n = [(-(-a // b)) if op["ceil"] else a // b for a, b in zip(st.n, k)]
        off = [(b - 1) / 2 for b in k]
        return Res("index", [index_derived(st, n, off, [float(b) for b in k])], off=np.asarray(off), stride=np.asarray(k, dtype=float))
    if name == "cube_grid":
        b = True if op.get("ac") is None else bool(op["ac"])
        E = st.cube_extent()
        tie = False
        if op["by"] == "spacing":
            sp = np.asarray(_fl(op["value"], D), dtype=np.float64)
            cells = E / sp
            tie = any(abs(v - math.floor(v) - 0.5) <= TIE * max(v, 1.0) + 1e-9 for v in cells)
            n = [int(round(v)) + (1 if b else 0) for v in cells]
        else:
            n = _bcast(op["value"], D)
            if op["by"] == "shape":
                n = n[::-1]
        if tie:
            return Res("cube", [st], tie=True, extra={"skip": True})
        nn = np.asarray(n, dtype=np.float64)
        if nn.min() < (2 if b else 1) or E.min() <= 0:
            raise DomainError(f"Cube.grid size {n} align_corners={b} cube extent {E.tolist()}")
        s = E / (nn - 1 if b else nn)
        return Res("cube", [st.with_(n=n, f=n, fk=[True] * D, s=s, ac=b)], ac_eff=b)
    if name == "align_corners":
        return Res("flag", [st.with_(ac=bool(op["value"]))])
    if name in ("ctor_center", "ctor_origin"):
        # Grid(size=g.size(), center=g.center() | origin=g.origin(), spacing=g.spacing(), direction=g.direction(), align_corners=...)
        # family "ctor": the center of the origin= route is recomputed (rounding ~ eps32 * (|origin| + extent)), no pass-through
        return Res("ctor", [st.with_(f=st.n, fk=[True] * D)])
    if name in COPY_OPS:
        return Res("copy", [st])
    if name.startswith(("with_", "set_")):
        # documented setters: the named attribute is replaced, the stored center point (class docstring) and all
        # other attributes are kept; origin = world position of the sample with index zero
        attr = name.split("_", 1)[1]
        if attr == "spacing":
            return Res("setter", [st.with_(s=np.asarray(_fl(op["value"], D), dtype=np.float64))])
        if attr == "center":
            return Res("setter", [st.with_(c=np.asarray(_fl(op["value"], D), dtype=np.float64))])
        if attr == "origin":
            o = np.asarray(_fl(op["value"], D), dtype=np.float64)
            return Res("setter", [st.with_(c=o + ((st.nn() - 1) / 2) @ (st.R * st.s).T)])
        if attr == "direction":
            v = op["value"]
            return Res("setter", [st.with_(R=ref.direction_matrix(v["rot"], v["perm"], v["flip"]))])
        if attr == "align_corners":
            return Res("setter", [st.with_(ac=bool(op["value"]))])
    raise ValueError(name)


def _fl(v, D):
    return [float(v)] * D if isinstance(v, (int, float)) else [float(x) for x in v]


# ---------------------------------------------------------------------------------------
# deepali side


def call_op(g, op):
    name = op["op"]
    kw = {}
    if op.get("ac") is not None and name != "cube_grid":
        kw["align_corners"] = bool(op["ac"])
    if name in ("resize", "reshape"):
        v = op["size"] if name == "resize" else op["shape"]
        f = getattr(g, name)
        if op["form"] == "args":
            return f(*v, **kw)
        return f(v, **kw)
    if name in ("downsample", "upsample"):
        if op.get("dims") is not None:
            kw["dims"] = tuple(op["dims"])
        if name == "downsample" and op.get("min_size") is not None:
            kw["min_size"] = int(op["min_size"])
        if op.get("default_levels"):
            return getattr(g, name)(**kw)
        return getattr(g, name)(int(op["levels"]), **kw)
    if name == "pyramid":
        if op.get("dims") is not None:
            kw["dims"] = tuple(op["dims"])
        if op.get("min_size") is not None:
            kw["min_size"] = int(op["min_size"])
        return g.pyramid(int(op["levels"]), **kw)
    if name == "resample":
        if op.get("min_size") is not None:
            kw["min_size"] = int(op["min_size"])
        sp = op["spacing"]
        if op["form"] == "args":
            return g.resample(*sp, **kw)
        return g.resample(sp, **kw)
    if name in ("crop", "pad"):
        f, form, v = getattr(g, name), op["form"], op["values"]
        if form == "args":
            return f(*v)
        if form == "seq":
            return f(tuple(v))
        if form in ("margin", "margin_int"):
            return f(margin=v)
        return f(num=v)
    if name in ("center_crop", "center_pad"):
        f = getattr(g, name)
        return f(*op["size"]) if op["form"] == "args" else f(op["size"])
    if name == "narrow":
        return g.narrow(int(op["dim"]), int(op["start"]), int(op["length"]))
    if name == "roi":
        return g.region_of_interest(op["start"], op["size"])
    if name in ("pool", "avg_pool"):
        k = op["k"] if isinstance(op["k"], int) else tuple(op["k"])
        return getattr(g, name)(k, ceil_mode=bool(op["ceil"]))
    if name == "cube_grid":
        cube = g.cube()
        a = {} if op.get("ac") is None else {"align_corners": bool(op["ac"])}
        v = op["value"]
        if op["by"] == "spacing" and op.get("form") == "tensor":
            v = torch.tensor(v, dtype=torch.float32)
        return cube.grid(**{op["by"]: v}, **a)
    if name == "align_corners":
        return g.align_corners(bool(op["value"]))
    if name == "clone":
        return g.clone()
    if name == "copy":
        return copy.copy(g)
    if name == "deepcopy":
        return copy.deepcopy(g)
    if name == "pickle":
        return pickle.loads(pickle.dumps(g))
    if name in ("ctor_center", "ctor_origin"):
        from deepali.core import Grid

        where = {"center": g.center()} if name == "ctor_center" else {"origin": g.origin()}
        return Grid(size=g.size(), spacing=g.spacing(), direction=g.direction(), align_corners=g.align_corners(), **where)
    if name.startswith(("with_", "set_")):
        kind, attr = name.split("_", 1)
        v = op["value"]
        if attr == "direction":
            R = ref.direction_matrix(v["rot"], v["perm"], v["flip"])
            a = (torch.tensor(R, dtype=torch.float64),) if op.get("form") == "tensor" else ([[float(x) for x in row] for row in R],)
        elif attr == "align_corners":
            a = (bool(v),)
        else:
            a = tuple(v) if op.get("form") == "args" else (v,)
        if kind == "with":
            return getattr(g, attr)(*a)
        # in-place setter applied to a fresh shallow copy (which shares every attribute tensor with g)
        q = copy.copy(g)
        getattr(q, attr + "_")(*a)
        return q
    raise ValueError(name)


# ---------------------------------------------------------------------------------------
# oracle


def _idx_samples(n):
    """Corner indices of the index box plus its center and one interior lattice point."""
    D = len(n)
    pts = [list(p) for p in itertools.product(*[(0.0, float(v - 1)) if v > 1 else (0.0,) for v in n])]
    pts.append([(v - 1) / 2 for v in n])
    pts.append([float(min(1, v - 1)) for v in n])
    return np.asarray(pts, dtype=np.float64)


def _w(grid, idx):
    return grid.index_to_world(torch.as_tensor(np.asarray(idx, dtype=np.float64)))


def check_state(tag, grid, m: State, bound, accept_sizes=None):
    """Returned grid vs reference state: size (exact), spacing (relative), direction, center, origin, sample positions."""
    size = tuple(int(v) for v in grid.size())
    if accept_sizes is not None:
        ok = len(size) == m.D and all(size[i] in accept_sizes[i] for i in range(m.D))
    else:
        ok = size == tuple(m.n)
    if not ok:
        raise Violation(f"{tag}:size", f"size {size}, expected {tuple(m.n) if accept_sizes is None else accept_sizes}")
    if tuple(grid.shape) != size[::-1]:
        raise Violation(f"{tag}:shape_not_reversed_size", f"shape {tuple(grid.shape)} size {size}")
    if bool(grid.align_corners()) != m.ac:
        raise Violation(f"{tag}:align_corners_flag", f"align_corners() = {grid.align_corners()}, expected {m.ac}")
    r = check_close(grid.spacing().double().numpy() / m.s, np.ones(m.D), K * EPS32, f"{tag}:spacing",
                    f"spacing {grid.spacing().tolist()} expected {m.s.tolist()} (relative)")
    r = max(r, check_close(grid.direction(), m.R, 2 * EPS32, f"{tag}:direction", "direction changed"))
    r = max(r, check_close(grid.center(), m.c, bound, f"{tag}:center", "center()"))
    if accept_sizes is None:
        r = max(r, check_close(grid.origin(), m.origin(), bound, f"{tag}:origin", "origin()"))
        idx = _idx_samples(m.n)
        r = max(r, check_close(_w(grid, idx), m.world(idx), bound, f"{tag}:sample_positions", "index_to_world of corner/center samples vs reference state"))
    return r


def check_resize_anchors(tag, grid, prev: State, ac_eff: bool, bound):
    """Statement: align_corners=True keeps the corner sample positions, False keeps the extent and the cube faces."""
    n_new = np.asarray([int(v) for v in grid.size()], dtype=np.float64)
    n_old = prev.nn()
    r = 0.0
    corners = [np.asarray(p) for p in itertools.product((0.0, 1.0), repeat=prev.D)]
    if ac_eff:
        for u in corners:
            r = max(r, check_close(_w(grid, u * (n_new - 1)), prev.world(u * (n_old - 1)), bound, f"{tag}:corner_samples_moved",
                                   f"align_corners=True: corner sample {u.tolist()} of the resized grid"))
    else:
        r = max(r, check_close(grid.extent().double().numpy() / prev.extent(), np.ones(prev.D), K * EPS32, f"{tag}:extent_changed",
                               f"align_corners=False: extent {grid.extent().tolist()} expected {prev.extent().tolist()}"))
        for u in corners:
            r = max(r, check_close(_w(grid, u * n_new - 0.5), prev.world(u * n_old - 0.5), bound, f"{tag}:cube_faces_moved",
                                   f"align_corners=False: cube corner {u.tolist()} (half a sample beyond the border samples)"))
    return r


def check_index_positions(tag, grid, prev: State, res: Res, bound):
    """Statement: every retained sample keeps its world position, new.index_to_world(j) == old.index_to_world(stride*j + off)."""
    n_new = [int(v) for v in grid.size()]
    idx = _idx_samples(n_new)
    expect = prev.world(idx * res.stride + res.off)
    return check_close(_w(grid, idx), expect, bound, f"{tag}:retained_sample_moved",
                       f"new.index_to_world(j) vs old.index_to_world({np.asarray(res.stride).tolist()}*j + {np.asarray(res.off).tolist()})")


def check_pyramid_sizes(n, L, sel, min_size, sizes):
    """Documented relations between level sizes (docstring of Grid.pyramid)."""
    D = len(n)
    for lv in range(L + 1):
        for d in range(D):
            v = sizes[lv][d]
            if d not in sel:
                if v != n[d]:
                    raise Violation("pyramid:untouched_dim_resized", f"level {lv} dim {d}: size {v}, grid size {n[d]}, dims={sel}")
                continue
            if v < 1:
                raise Violation("pyramid:size_recurrence", f"level {lv} dim {d}: size {v}")
            if lv == 0:
                continue
            p = sizes[lv - 1][d]
            h = (p + 1) // 2
            e = p if h < min_size else h
            if v != e:
                raise Violation("pyramid:size_recurrence", f"dim {d}: level {lv - 1} size {p} -> level {lv} size {v}, expected {e} (min_size={min_size})")


class Family:
    """Every live Grid object of a case with a slot-by-slot fingerprint, its reference state and its depth.

    A derivation returns a new grid (or, for documented short-cuts, the grid itself); it never changes the grid it is
    applied to nor any grid derived earlier.  Grid objects share attribute tensors (shallow copies, Grid(spacing=
    other.spacing()), ...), so every member is compared with its fingerprint after every call."""

    def __init__(self):
        self.members = []

    def find(self, grid):
        for m in self.members:
            if m["grid"] is grid:
                return m
        return None

    def add(self, grid, state, wmax, depth, how):
        m = self.find(grid)
        if m is None:
            m = {"grid": grid, "fp": grid_state(grid), "state": state, "wmax": wmax, "depth": depth, "how": how}
            self.members.append(m)
        return m

    def check_intact(self, kind, what):
        for i, m in enumerate(self.members):
            now = grid_state(m["grid"])
            for slot, a, b in zip(SLOTS, m["fp"], now):
                same = (a == b) if isinstance(a, bool) else (a.shape == b.shape and bool(torch.equal(a, b)))
                if not same:
                    a, b = (a, b) if isinstance(a, bool) else (a.tolist(), b.tolist())
                    raise Violation(f"{kind}:{slot}", f"{what}: attribute '{slot}' of an existing grid (#{i}, obtained by {m['how']}) "
                                                      f"changed from {a} to {b}; the grid is now {m['grid']!r}")

    def check_final(self):
        """Every grid of the case is still where the reference geometry puts it (states of ambiguous results are None)."""
        r = 0.0
        for m in self.members:
            if m["state"] is not None:
                r = max(r, check_state("final", m["grid"], m["state"], _bound(m["wmax"], m["depth"])))
        return r


def _bound(W, depth=1):
    # float32 rounding of one derivation is proportional to eps32 * (|center| + extent); it accumulates per step
    return K * EPS32 * W * max(1.0, depth / 3.0)


def check_same_result(name, a, b):
    """The same method with the same arguments on the same grid gives the same grid."""
    fa, fb = grid_state(a), grid_state(b)
    if fa[0].shape != fb[0].shape or not bool(torch.equal(fa[0], fb[0])) or fa[4] != fb[4]:
        raise Violation(f"{name}:second_application_differs", f"first call returned {a!r}, second call on the same grid {b!r}")
    r = 0.0
    for slot, x, y in zip(SLOTS[1:4], fa[1:4], fb[1:4]):
        scale = max(1.0, float(x.abs().max()))
        r = max(r, check_close(y, x, 4 * EPS32 * scale, f"{name}:second_application_differs",
                               f"attribute '{slot}': first call returned {a!r}, second call on the same grid {b!r}"))
    return r


def apply_step(fam: Family, member, op, labels, twice=False, warm=0):
    """Apply one operation to a member of the family; compare the result(s) with the reference geometry and all
    existing grids with their fingerprints.  Returns (stop, [new members], worst ratio)."""
    grid, stt, depth = member["grid"], member["state"], member["depth"] + 1
    name = op["op"]
    worst = 0.0
    if warm:
        warm_grid(grid, warm)
        fam.check_intact("read_only_call_modified_grid", "read-only calls (accessors, coordinate maps, cube(), ==, repr) on a grid")
    res = model_apply(stt, op)
    if res.extra.get("skip"):
        labels.append("tie_stop")
        return True, [], worst
    labels.append(name)
    how = f"{member['how']}.{name}"
    singleton = res.family in ("resize", "pyramid") and bool(res.ac_eff) and min(stt.n) < 2
    outs = []
    for rep in range(2 if twice else 1):
        if singleton:
            if rep == 0:
                labels.append("untouched_singleton_axis")
            try:
                out = call_op(grid, op)
            except AssertionError as e:
                # same assert statement as the rounding class, different cause (0/0 spacing of the untouched singleton axis)
                if traceback.extract_tb(e.__traceback__)[-1].name == "_resize":
                    raise Violation("singleton_axis:resize_assertion",
                                    f"{name} of grid with size {stt.n} (align_corners in effect, singleton axis untouched) raised AssertionError in Grid._resize") from None
                raise
        else:
            out = call_op(grid, op)
        fam.check_intact("derivation_modified_existing_grid", f"{name}() applied to grid {grid!r}")
        outs.append(out)
    out = outs[0]
    Wmax = max([member["wmax"]] + [s.W() for s in res.states])
    bound = _bound(Wmax, depth)
    if name == "pyramid":
        L = int(op["levels"])
        for o in outs:
            if not isinstance(o, dict) or sorted(o.keys()) != list(range(L + 1)):
                raise Violation("pyramid:levels", f"keys {sorted(o.keys()) if isinstance(o, dict) else type(o)} for levels={L}")
        obs = {lv: [int(v) for v in out[lv].size()] for lv in range(L + 1)}
        check_pyramid_sizes(stt.n, L, res.extra["sel"], res.extra["min_size"], obs)
        new_members = []
        for lv in range(L + 1):
            try:
                m_lv = resized(stt, obs[lv], [True] * stt.D, stt.ac)
            except DomainError:
                raise Violation("pyramid:size_recurrence", f"level {lv} has size {obs[lv]} for grid size {stt.n}, levels={L}, align_corners={stt.ac}") from None
            worst = max(worst, check_state("pyramid", out[lv], m_lv, bound))
            worst = max(worst, check_resize_anchors("pyramid", out[lv], stt, stt.ac, bound))
            if not out[lv].same_domain_as(out[0]):
                raise Violation("pyramid:not_same_domain", f"level {lv} .same_domain_as(level 0) is False: {out[lv]!r} vs {out[0]!r}")
            if not out[0].same_domain_as(out[lv]):
                raise Violation("pyramid:not_same_domain", f"level 0 .same_domain_as(level {lv}) is False")
            ce, act = stt.cube_extent(), out[lv].cube_extent().double().numpy()
            pos = ce > 0  # zero along a singleton axis with align_corners=True
            worst = max(worst, check_close(act[pos] / ce[pos], np.ones(int(pos.sum())), K * EPS32,
                                           "pyramid:cube_extent", f"cube_extent of level {lv} vs grid"))
            check_close(act[~pos], np.zeros(int((~pos).sum())), 0.0, "pyramid:cube_extent", f"cube_extent of level {lv} along singleton axes")
            if twice:
                worst = max(worst, check_same_result("pyramid", out[lv], outs[1][lv]))
            new_members.append(fam.add(out[lv], m_lv, Wmax, depth, f"{how}[{lv}]"))
        fam.check_intact("read_only_call_modified_grid", "accessors / same_domain_as() on pyramid levels")
        if obs != {lv: list(v) for lv, v in res.extra["sizes"].items()}:
            labels.append("pyramid_sizes_unpredicted")
            return True, new_members, worst
        return False, new_members, worst
    new = res.states[0]
    if twice:
        worst = max(worst, check_same_result(name, out, outs[1]))
    if res.noop:
        # documented short-cuts return the grid itself; geometry must be unchanged either way
        worst = max(worst, check_state(name, out, stt, bound))
        labels.append("noop")
        return False, [fam.add(out, stt, Wmax, depth, how)], worst
    worst = max(worst, check_state(name, out, new, bound, accept_sizes=res.alt_sizes if res.tie and res.alt_sizes else None))
    if res.family in ("resize", "resample", "cube", "flag", "copy"):
        # statement: center and orientation are kept (deepali stores the center, so this is a pass-through)
        cmax = max(1.0, float(grid.center().abs().max()))
        worst = max(worst, check_close(out.center(), grid.center(), 4 * EPS32 * cmax, f"{name}:center_moved", "center() of result vs center() of input"))
        worst = max(worst, check_close(out.direction(), grid.direction(), 2 * EPS32, f"{name}:direction_changed", "direction() of result vs input"))
    if res.family == "resize":
        worst = max(worst, check_resize_anchors(name, out, stt, res.ac_eff, bound))
        if res.ac_eff == stt.ac and not out.same_domain_as(grid):
            raise Violation(f"{name}:not_same_domain", f"result.same_domain_as(grid) is False: {out!r} vs {grid!r}")
        if name == "downsample" and not any(res.clamped) and int(op["levels"]) > 0:
            kw = {}
            if op.get("dims") is not None:
                kw["dims"] = tuple(op["dims"])
            if op.get("ac") is not None:
                kw["align_corners"] = bool(op["ac"])
            back = out.upsample(int(op["levels"]), **kw)
            if not (back == grid):
                raise Violation("downsample:upsample_roundtrip_neq", f"downsample({op['levels']}).upsample({op['levels']}) != grid: {back!r} vs {grid!r}")
            worst = max(worst, check_state("downsample:upsample_roundtrip", back, stt, bound))
            labels.append("down_up")
    elif res.family == "index":
        worst = max(worst, check_index_positions(name, out, stt, res, bound))
    elif res.family == "resample":
        sp = res.extra["spacing"]
        worst = max(worst, check_close(out.spacing().double().numpy() / sp, np.ones(stt.D), (K if op["form"] == "str" else 4) * EPS32,
                                       "resample:spacing_not_as_requested",
                                       f"spacing {out.spacing().tolist()} requested {sp.tolist()}"))
        e_new, e_old = out.extent().double().numpy(), stt.extent()
        if np.any(e_new < e_old * (1 - K * EPS32)):
            raise Violation("resample:extent_shrunk", f"extent {e_new.tolist()} < previous extent {e_old.tolist()}")
    elif res.family == "cube":
        # the new grid covers exactly the cube of the old one
        worst = max(worst, check_close(out.cube_extent().double().numpy() / stt.cube_extent(), np.ones(stt.D), K * EPS32,
                                       "cube_grid:cube_extent", "cube_extent of Cube.grid() vs cube of the source grid"))
        if not out.same_domain_as(grid):
            raise Violation("cube_grid:not_same_domain", f"grid.cube().grid(...).same_domain_as(grid) is False: {out!r} vs {grid!r}")
    elif res.family == "copy" and name in ("clone", "deepcopy"):
        # docstrings: 'Make deep copy of this Grid instance' / 'copy.deepcopy to clone this grid'
        mine = {t.untyped_storage().data_ptr() for t in _attr_tensors(grid)}
        for slot, t in zip(SLOTS, _attr_tensors(out)):
            if t.untyped_storage().data_ptr() in mine:
                raise Violation(f"{name}:shares_tensor_with_source", f"attribute '{slot}' of the {name} result uses the same memory as an attribute tensor of the source grid")
    # the oracle above only reads; it must leave every grid as it was (accessors, ==, same_domain_as, cube(), upsample)
    fam.check_intact("read_only_call_modified_grid", f"accessors / predicates on the result of {name}() and on its source")
    if res.tie:
        labels.append("tie_stop")
        return True, [fam.add(out, None, Wmax, depth, how)], worst
    return False, [fam.add(out, new, Wmax, depth, how)], worst


def _attr_tensors(grid):
    return [grid._size, grid.spacing(), grid.center(), grid.direction()]


def _base_labels(case):
    g = case["grid"]
    return [f"D={len(g['size'])}", f"ac={g['ac']}", g["kind"], "route=" + ("origin" if "origin" in g else case.get("route", "center"))]


def _start(case):
    g = case["grid"]
    grid = make_grid(g, case.get("route", "center"))
    stt = State.from_desc(g)
    fam = Family()
    root = fam.add(grid, stt, stt.W(), 0, "Grid()")
    worst = check_state("initial", grid, stt, _bound(stt.W()))
    return fam, root, worst


def _nontrivial(case, nsteps, stopped):
    g0 = case["grid"]
    odd = any(v % 2 for v in g0["size"])
    return bool(odd and gen.grid_is_oblique(g0) and gen.grid_is_anisotropic(g0) and nsteps >= 2 and not stopped)


def run_chain(case):
    fam, cur, worst = _start(case)
    labels = _base_labels(case) + [f"len={len(case['ops'])}"]
    stopped = False
    for op in case["ops"]:
        stop, new, r = apply_step(fam, cur, op, labels)
        worst = max(worst, r)
        if stop:
            stopped = True
            break
        cur = new[int(op["pick"])] if op["op"] == "pyramid" else new[0]
    worst = max(worst, fam.check_final())
    return {"ratio": worst, "nontrivial": _nontrivial(case, len(case["ops"]), stopped), "labels": labels}


def run_tree(case):
    """Tree of derivations on live objects: step k derives from node step['parent'] (node 0 = the generated grid; a
    pyramid appends one node per level, every other operation one node)."""
    fam, root, worst = _start(case)
    nodes = [root]
    labels = _base_labels(case) + [f"steps={len(case['steps'])}"]
    stopped = False
    for step in case["steps"]:
        parent = nodes[int(step["parent"])]
        stop, new, r = apply_step(fam, parent, step["op"], labels, twice=True, warm=int(step.get("warm", 0)))
        worst = max(worst, r)
        if stop:
            stopped = True
            break
        nodes.extend(new)
    worst = max(worst, fam.check_final())
    fam.check_intact("read_only_call_modified_grid", "final comparison of all grids with the reference geometry")
    parents = [int(s["parent"]) for s in case["steps"]]
    if len(set(parents)) < len(parents):
        labels.append("siblings")
    if any(p > 0 for p in parents):
        labels.append("grandchildren")
    labels.append(f"grids={min(len(fam.members), 9)}")
    return {"ratio": worst, "nontrivial": _nontrivial(case, len(case["steps"]), stopped), "labels": labels}


# ---------------------------------------------------------------------------------------
# generators


def _round_sig(x: float, digits: int = 5) -> float:
    return float(f"{x:.{digits}g}")


@st.composite
def base_grids(draw, D, min_size=1, origin_prob=True):
    # centers of magnitude 500 or 5: small world coordinates make origin components that nearly cancel more likely
    g = draw(gen.grids(D, min_size=min_size, mag=draw(st.sampled_from([500.0, 500.0, 5.0]))))
    if origin_prob and draw(st.integers(0, 3)) == 0:
        # origin= construction with small / zero components (the default origin of most images)
        comp = st.one_of(st.just(0.0), st.just(0.0), gen.qfloat(-50.0, 50.0, 0.01))
        g = dict(g)
        del g["center"]
        g["origin"] = draw(st.lists(comp, min_size=D, max_size=D))
    return g


def draw_dims(draw, D):
    if draw(st.integers(0, 2)) > 0:
        return None
    idx = draw(st.lists(st.integers(0, D - 1), min_size=1, max_size=D, unique=True))
    letters = draw(st.booleans())
    return [LETTERS[i] if letters else i for i in sorted(idx)]


def draw_ac(draw, stt: State):
    """align_corners argument of the resize family (settle() moves the operation inside the domain)."""
    return draw(st.sampled_from([None, None, True, False]))


def settle(stt: State, op):
    """Return op (possibly with align_corners=False) such that it is inside the domain, else None."""
    if op is None:
        return None
    try:
        model_apply(stt, op)
        return op
    except DomainError:
        if "ac" in op and op["op"] != "cube_grid" and op["ac"] is not False:
            op = dict(op, ac=False)
            try:
                model_apply(stt, op)
                return op
            except DomainError:
                return None
        return None


def small_or(draw, lo, hi, small_hi=9):
    return draw(st.one_of(st.integers(lo, max(lo, min(hi, small_hi))), st.integers(lo, hi)))


def g_resize(draw, stt):
    D = stt.D
    form = draw(st.sampled_from(["list", "args", "int"]))
    name = draw(st.sampled_from(["resize", "resize", "reshape"]))
    if form == "int":
        v = small_or(draw, 2, 80)
    else:
        v = [small_or(draw, 2, 80) for _ in range(D)]
    op = {"op": name, "form": form, "ac": draw_ac(draw, stt)}
    op["size" if name == "resize" else "shape"] = v
    return op


def g_downsample(draw, stt):
    D = stt.D
    dims = draw_dims(draw, D)
    sel = _sel(dims, D)
    ac = draw_ac(draw, stt)
    neg_ok = all(stt.fk[d] for d in sel) and max(stt.n[d] for d in sel) * 2 <= NMAX
    lv = draw(st.sampled_from([1, 1, 1, 2, 2, 3] + ([-1] if neg_ok else [])))
    op = {"op": "downsample", "levels": lv, "dims": dims, "ac": ac, "min_size": None}
    if lv < 0:
        return op
    fp = [stt.f[d] / 2 ** lv for d in sel]
    cands = [None, None, 0, 1, 2]
    for v in fp:
        cands += [int(math.floor(v)), int(math.floor(v)), int(math.floor(v)) + 1, int(math.ceil(v)) + 1, int(math.ceil(v)) + 2]

    def valid(m):
        m = 1 if m is None else m
        for v in fp:
            status = clamp_status(v, m)
            # inside the domain: a halved axis keeps >= 2 samples, or it is unambiguously clamped by min_size
            if status == "ambiguous" or (status == "free" and v < 2):
                return False
        return True

    cands = [m for m in cands if valid(m)]
    if not cands:
        return None
    op["min_size"] = draw(st.sampled_from(cands))
    if lv == 1 and draw(st.booleans()):
        op["default_levels"] = True
    return op


def g_upsample(draw, stt):
    D = stt.D
    dims = draw_dims(draw, D)
    sel = _sel(dims, D)
    if not all(stt.fk[d] for d in sel):
        dims, sel = None, list(range(D))
        if not all(stt.fk):
            return None
    levels = [lv for lv in (1, 2, 3) if max(stt.n[d] for d in sel) * 2 ** lv <= NMAX]
    levels += [-lv for lv in (1, 2) if min(stt.f[d] for d in sel) / 2 ** lv >= 2]
    if not levels:
        return None
    lv = draw(st.sampled_from(levels))
    op = {"op": "upsample", "levels": lv, "dims": dims, "ac": draw_ac(draw, stt)}
    if lv == 1 and draw(st.booleans()):
        op["default_levels"] = True
    return op


def g_pyramid(draw, stt):
    D = stt.D
    eligible = [d for d in range(D) if stt.n[d] / 2 >= 2]
    if not eligible:
        return None
    if len(eligible) == D and draw(st.booleans()):
        dims, sel = None, list(range(D))
    else:
        sel = sorted(draw(st.lists(st.sampled_from(eligible), min_size=1, max_size=len(eligible), unique=True)))
        letters = draw(st.booleans())
        dims = [LETTERS[i] if letters else i for i in sel]
    levels = [L for L in (1, 2, 3) if min(stt.n[d] for d in sel) / 2 ** L >= 2]
    L = draw(st.sampled_from(levels))
    cands = [None, None, 0, 1, 2]
    for d in sel:
        for lv in range(1, L + 1):
            v = stt.n[d] / 2 ** lv
            cands += [int(math.floor(v)), int(math.ceil(v)), int(math.ceil(v)) + 1]
    ms = draw(st.sampled_from(cands))
    return {"op": "pyramid", "levels": L, "dims": dims, "min_size": ms, "pick": draw(st.integers(0, L))}


def g_resample(draw, stt):
    D = stt.D
    ext = stt.extent()
    form = draw(st.sampled_from(["list", "list", "args", "scalar", "str"]))
    ms = draw(st.sampled_from([None, None, None, 1, 2, 5]))

    def target(nmax):
        k = draw(st.one_of(st.integers(1, 6), st.integers(1, nmax)))
        fr = draw(st.sampled_from([0.0, 0.1, 0.25, 0.5, 0.5, 0.75, 0.9, 0.3, 0.6]))
        return k + fr

    if form == "str":
        which = draw(st.sampled_from(["min", "max"]))
        sp = float(stt.s.min() if which == "min" else stt.s.max())
        if float((ext / sp).max()) > 2000:
            which = "max"
        return {"op": "resample", "form": "str", "spacing": which, "min_size": ms}
    if form == "scalar":
        sp = _round_sig(float(ext.max()) / target(200))
        return {"op": "resample", "form": "scalar", "spacing": sp, "min_size": ms}
    sp = [_round_sig(float(ext[d]) / target(min(200, 2 * stt.n[d] + 3))) for d in range(D)]
    return {"op": "resample", "form": form, "spacing": sp, "min_size": ms}


def g_croppad(draw, stt, name):
    D = stt.D
    n = stt.n
    crop = name == "crop"
    form = draw(st.sampled_from(["args", "seq", "margin", "margin_int", "num", "num", "num", "num_int"]))

    def sym_range(size):
        # symmetric margin m per border: crop needs size - 2m >= 1, pad needs size + 2m >= 1
        top = (size - 1) // 2
        return (-3, min(3, top)) if crop else (max(-3, -top), 3)

    if form in ("margin_int", "num_int"):
        lo = max(sym_range(v)[0] for v in n)
        hi = min(sym_range(v)[1] for v in n)
        return {"op": name, "form": form, "values": draw(st.integers(lo, hi))}
    if form in ("args", "seq", "margin"):
        vals = [draw(st.integers(*sym_range(v))) for v in n]
        if form == "args" and D == 1:
            form = "margin"
        return {"op": name, "form": form, "values": vals}
    naxes = draw(st.integers(1, D))
    vals = []
    for d in range(naxes):
        if crop:
            a = draw(st.integers(-3, min(3, n[d] - 1)))
            b = draw(st.integers(-3, min(3, n[d] - 1 - a)))
        else:
            a = draw(st.integers(max(-3, -(n[d] - 1)), 3))
            b = draw(st.integers(max(-3, -(n[d] - 1 + a)), 3))
        vals += [a, b]
    return {"op": name, "form": "num", "values": vals}


def g_center(draw, stt, name):
    D = stt.D
    form = draw(st.sampled_from(["list", "args", "int"]))
    if form == "int":
        v = draw(st.integers(1, max(stt.n) + 5))
    else:
        v = [draw(st.integers(1, stt.n[d] + 5)) for d in range(D)]
    return {"op": name, "form": form, "size": v}


def g_narrow(draw, stt):
    d = draw(st.integers(0, stt.D - 1))
    start = draw(st.integers(0, stt.n[d] - 1))
    length = draw(st.integers(1, stt.n[d] - start))
    return {"op": "narrow", "dim": d, "start": start, "length": length}


def g_roi(draw, stt):
    D = stt.D
    if draw(st.integers(0, 3)) == 0:
        return {"op": "roi", "start": draw(st.integers(-2, min(stt.n))), "size": draw(st.integers(1, 8))}
    start = [draw(st.integers(-2, stt.n[d] + 1)) for d in range(D)]
    size = [small_or(draw, 1, stt.n[d] + 3, 4) for d in range(D)]
    return {"op": "roi", "start": start, "size": size}


def g_pool(draw, stt):
    D = stt.D
    ceil = draw(st.booleans())
    kmax = 4 if ceil else min(4, min(stt.n))
    k = draw(st.integers(1, kmax))
    return {"op": draw(st.sampled_from(["pool", "avg_pool"])), "k": k if draw(st.booleans()) else [k] * D, "ceil": ceil}


def g_cube_grid(draw, stt):
    D = stt.D
    if float(stt.cube_extent().min()) <= 0:
        return None
    by = draw(st.sampled_from(["size", "shape", "spacing", "spacing"]))
    b = draw(st.sampled_from([None, True, False]))
    if by != "spacing":
        v = small_or(draw, 2, 80) if draw(st.integers(0, 3)) == 0 else [small_or(draw, 2, 80) for _ in range(D)]
        return {"op": "cube_grid", "by": by, "value": v, "ac": b}
    E = stt.cube_extent()
    form = draw(st.sampled_from(["scalar", "list", "tensor"]))

    def cells(nmax):
        return draw(st.one_of(st.integers(1, 6), st.integers(1, nmax))) + draw(st.sampled_from([-0.4, -0.25, 0.0, 0.0, 0.2, 0.4]))

    if form == "scalar":
        v = _round_sig(float(E.max()) / cells(100))
        if float(E.min()) / v < 0.6:  # would give zero cells along the shortest axis: not a grid
            form = "list"
    if form != "scalar":
        v = [_round_sig(float(E[d]) / cells(min(100, 2 * stt.n[d] + 3))) for d in range(D)]
    return {"op": "cube_grid", "by": "spacing", "value": v, "ac": b, "form": form}


def g_flag(draw, stt):
    return {"op": "align_corners", "value": draw(st.booleans())}


def g_setter(draw, stt, attr):
    """with-er (new grid) or in-place setter on a fresh shallow copy: spacing / center / origin / direction / align_corners."""
    D = stt.D
    op = {"op": draw(st.sampled_from(["with_", "with_", "set_"])) + attr}
    if attr == "spacing":
        fac = draw(st.lists(st.sampled_from([0.5, 2.0, 1.25, 0.8, 3.0, 1.0]), min_size=D, max_size=D))
        op["value"] = [min(max(_round_sig(float(a) * f), 0.01), 100.0) for a, f in zip(stt.s, fac)]
        op["form"] = draw(st.sampled_from(["list", "args"]))
    elif attr in ("center", "origin"):
        mag = draw(st.sampled_from([500.0, 50.0, 5.0]))
        op["value"] = draw(st.lists(st.one_of(st.just(0.0), gen.qfloat(-mag, mag, 0.01), gen.qfloat(-mag, mag, 0.01)), min_size=D, max_size=D))
        op["form"] = draw(st.sampled_from(["list", "args"]))
    elif attr == "direction":
        d = draw(gen.directions(D))
        op["value"] = {"rot": d["rot"], "perm": d["perm"], "flip": d["flip"]}
        op["form"] = draw(st.sampled_from(["tensor", "rows"]))
    else:
        op["value"] = draw(st.booleans())
    return op


def g_copy(draw, stt):
    return {"op": draw(st.sampled_from(list(COPY_OPS)))}


GENERATORS = {
    "spacing": lambda d, s: g_setter(d, s, "spacing"), "center": lambda d, s: g_setter(d, s, "center"),
    "origin": lambda d, s: g_setter(d, s, "origin"), "direction": lambda d, s: g_setter(d, s, "direction"),
    "flag": lambda d, s: g_setter(d, s, "align_corners"), "copies": g_copy,
    "resize": g_resize, "downsample": g_downsample, "upsample": g_upsample, "pyramid": g_pyramid, "resample": g_resample,
    "crop": lambda d, s: g_croppad(d, s, "crop"), "pad": lambda d, s: g_croppad(d, s, "pad"),
    "center_crop": lambda d, s: g_center(d, s, "center_crop"), "center_pad": lambda d, s: g_center(d, s, "center_pad"),
    "narrow": g_narrow, "roi": g_roi, "pool": g_pool, "cube_grid": g_cube_grid, "align_corners": g_flag,
}
RESIZE_POOL = ["resize", "resize", "downsample", "downsample", "upsample", "pyramid", "pyramid", "resample", "cube_grid", "align_corners"]
INDEX_POOL = ["crop", "crop", "pad", "pad", "center_crop", "center_pad", "narrow", "roi", "roi", "pool", "pool"]
GROWING = {"resize", "upsample", "pad", "center_pad", "roi", "resample", "cube_grid", "downsample"}
OBJECT_POOL = ["spacing", "center", "origin", "direction", "flag", "copies"]  # setters (new grid / in place on a shallow copy), copies


def chain_cases(pool, min_len=1, max_len=3, min_size=1, Ds=(2, 3)):
    @st.composite
    def cases(draw):
        D = draw(st.sampled_from(list(Ds)))
        g = draw(base_grids(D, min_size=min_size))
        stt = State.from_desc(g)
        length = draw(st.sampled_from([k for k in (2, 3, 1, 2, 3) if min_len <= k <= max_len]))
        ops = []
        for _ in range(length):
            names = list(pool)
            if max(stt.n) > NMAX:
                names = [x for x in names if x not in GROWING] or ["narrow"]
            op = None
            for _try in range(4):
                name = draw(st.sampled_from(names))
                op = settle(stt, GENERATORS[name](draw, stt))
                if op is not None:
                    break
            if op is None:
                break
            ops.append(op)
            res = model_apply(stt, op)
            if res.tie:
                break
            stt = res.states[res.pick if op["op"] == "pyramid" else 0]
        case = {"grid": g, "ops": ops}
        if "origin" not in g:
            case["route"] = draw(st.sampled_from(["center", "origin"]))
        return case

    return cases


def tree_cases(pool, min_steps=2, max_steps=5, Ds=(2, 3)):
    """A grid and 2-5 derivation steps, each applied to one of the grids obtained so far (parents, siblings, grandchildren)."""
    @st.composite
    def cases(draw):
        D = draw(st.sampled_from(list(Ds)))
        g = draw(base_grids(D))
        nodes = [State.from_desc(g)]  # reference state of node k (None: size ambiguous because of a rounding tie)
        nsteps = draw(st.sampled_from([k for k in (2, 3, 3, 4, 5) if min_steps <= k <= max_steps]))
        steps = []
        for _ in range(nsteps):
            usable = [i for i, s in enumerate(nodes) if s is not None]
            parent = draw(st.sampled_from([0, usable[-1], usable[-1]] + usable))
            stt = nodes[parent]
            names = list(pool)
            if max(stt.n) > NMAX:
                names = [x for x in names if x not in GROWING] or ["narrow"]
            op = res = None
            for _try in range(4):
                name = draw(st.sampled_from(names))
                op = settle(stt, GENERATORS[name](draw, stt))
                if op is not None:
                    res = model_apply(stt, op)
                    if not res.extra.get("skip"):
                        break
                    op = None
            if op is None:
                break
            # warm-up: read-only calls made on the parent before the step (none / all / a subset)
            warm = draw(st.one_of(st.just(0), st.just((1 << gen.N_WARM) - 1), st.integers(1, (1 << gen.N_WARM) - 1)))
            steps.append({"parent": parent, "op": op, "warm": warm})
            if op["op"] == "pyramid":
                nodes.extend(res.states)
            else:
                nodes.append(None if res.tie else res.states[0])
        case = {"grid": g, "steps": steps}
        if "origin" not in g:
            case["route"] = draw(st.sampled_from(["center", "origin"]))
        return case

    return cases


# ---------------------------------------------------------------------------------------
# self-test of the reference geometry (exit 2 on failure)


def selftest():
    g = {"size": [5, 4], "spacing": [2.0, 0.5], "center": [10.0, -3.0], "rot": [0.3], "perm": [0, 1], "flip": [1, 1], "ac": True, "kind": "rotation"}
    s0 = State.from_desc(g)
    m0 = ref.GridModel.from_desc(g)
    idx = _idx_samples(s0.n)
    assert np.allclose(s0.world(idx), m0.points(idx, "grid", "world"))
    assert np.allclose(s0.origin(), m0.o)
    # resize: corners (True) / faces (False)
    a = model_apply(s0, {"op": "resize", "size": [9, 3], "form": "list", "ac": True}).states[0]
    assert np.allclose(a.world([0, 0]), s0.world([0, 0])) and np.allclose(a.world([8, 2]), s0.world([4, 3]))
    b = model_apply(s0, {"op": "resize", "size": [9, 3], "form": "list", "ac": False}).states[0]
    assert np.allclose(b.world([-0.5, -0.5]), s0.world([-0.5, -0.5])) and np.allclose(b.world([8.5, 2.5]), s0.world([4.5, 3.5]))
    assert np.allclose(b.extent(), s0.extent()) and np.allclose(a.c, s0.c) and np.allclose(b.c, s0.c)
    # downsample keeps the fractional size, upsample returns
    d = model_apply(s0, {"op": "downsample", "levels": 1})
    assert d.states[0].n == [3, 2] and d.states[0].f == [2.5, 2.0] and not any(d.clamped)
    u = model_apply(d.states[0], {"op": "upsample", "levels": 1}).states[0]
    assert u.n == s0.n and np.allclose(u.s, s0.s)
    d = model_apply(s0, {"op": "downsample", "levels": 1, "min_size": 4})
    assert d.states[0].n == [5, 4] and d.clamped == [True, True]
    assert model_apply(s0, {"op": "downsample", "levels": 1, "min_size": 3}).extra.get("skip")  # 2.5 < 3 <= ceil(2.5): not generated
    d = model_apply(s0, {"op": "downsample", "levels": 1, "min_size": 2, "dims": ["y"]})
    assert d.states[0].n == [5, 2] and d.clamped == [False, False]
    # index family
    c = model_apply(s0, {"op": "crop", "form": "num", "values": [1, 2]})
    assert c.states[0].n == [2, 4] and np.allclose(c.states[0].world([0, 0]), s0.world([1, 0])) and np.allclose(c.states[0].s, s0.s)
    p = model_apply(s0, {"op": "pad", "form": "margin", "values": [1, 2]})
    assert p.states[0].n == [7, 8] and np.allclose(p.states[0].world([0, 0]), s0.world([-1, -2]))
    k = model_apply(s0, {"op": "pool", "k": 2, "ceil": True})
    assert k.states[0].n == [3, 2] and np.allclose(k.states[0].world([1, 1]), s0.world([2.5, 2.5])) and np.allclose(k.states[0].s, 2 * s0.s)
    cc = model_apply(s0, {"op": "center_crop", "size": [2, 9]})
    assert cc.states[0].n == [2, 4] and np.allclose(cc.states[0].world([0, 0]), s0.world([1, 0]))
    cp = model_apply(s0, {"op": "center_pad", "size": [8, 1]})
    assert cp.states[0].n == [8, 4] and np.allclose(cp.states[0].world([0, 0]), s0.world([-1, 0]))
    r = model_apply(s0, {"op": "roi", "start": [-1, 2], "size": [3, 5]})
    assert r.states[0].n == [3, 5] and np.allclose(r.states[0].world([1, 0]), s0.world([0, 2]))
    # resample: ceil(extent / spacing), extent does not shrink
    rs = model_apply(s0, {"op": "resample", "spacing": [3.0, 0.3]})
    assert rs.states[0].n == [4, 7] and np.all(rs.states[0].extent() >= s0.extent() - 1e-12) and np.allclose(rs.states[0].c, s0.c)
    # Cube.grid covers the cube
    cg = model_apply(s0, {"op": "cube_grid", "by": "size", "value": [3, 6], "ac": False}).states[0]
    assert np.allclose(cg.cube_extent(), s0.cube_extent()) and np.allclose(cg.world([-0.5, -0.5]), s0.world([0, 0]))
    # predicted pyramid sizes satisfy the asserted relations
    for ac in (True, False):
        for n in range(4, 70):
            for L in (1, 2, 3):
                if n / 2 ** L < 2:
                    continue
                for ms in (0, 3, n // 2, n):
                    sz = pyramid_sizes([n, 7], L, [0], ms, ac)
                    check_pyramid_sizes([n, 7], L, [0], ms, sz)


FACETS = [
    Facet("chains", run_chain, strategy=chain_cases(RESIZE_POOL + INDEX_POOL, 1, 3),
          rule="grid (center= or origin= route, incl. zero origin components) + chain of 1-3 operations from all 17 derivation methods, "
               "arguments constructed inside the documented domain from the reference state; non-trivial = an odd size, oblique "
               "direction, anisotropic spacing, chain length >= 2, chain not ended by a rounding tie",
          quick=1200, thorough=24000, shards=16, quick_shards=3),
    Facet("resize_family", run_chain, strategy=chain_cases(RESIZE_POOL, 1, 3, min_size=2),
          rule="chains of 1-3 resize-family operations (resize/reshape/downsample/upsample/pyramid/resample/Cube.grid/align_corners) on "
               "grids with >= 2 samples per axis; non-trivial as for chains",
          quick=900, thorough=20000, shards=16, quick_shards=3),
    Facet("trees", run_tree, strategy=tree_cases(RESIZE_POOL + INDEX_POOL + OBJECT_POOL),
          rule="grid + 2-5 derivation steps, each applied (twice, after optional read-only warm-up calls) to any grid obtained so far "
               "(parent, sibling, grandchild; pyramid adds every level): all 17 derivation methods plus spacing/center/origin/direction/"
               "align_corners setters (new-grid form and in-place form on a shallow copy) and clone/copy/deepcopy/pickle; every grid of "
               "the tree is fingerprinted after every call and re-compared with the reference geometry at the end; non-trivial = an odd "
               "size, oblique direction, anisotropic spacing, >= 2 steps, not ended by a rounding tie",
          quick=900, thorough=16000, shards=16, quick_shards=3),
    Facet("index_family", run_chain, strategy=chain_cases(INDEX_POOL + ["downsample", "align_corners"], 1, 3),
          rule="chains of 1-3 index-family operations (crop/pad forms, center_crop/pad, narrow, region_of_interest, pool/avg_pool), "
               "interleaved with downsample to reach fractional internal sizes; non-trivial as for chains",
          quick=600, thorough=12000, shards=16, quick_shards=2),
]
