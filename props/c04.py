"""C04 - Image operations move voxel data and sampling grid in lock-step.

Oracle (linear-ramp lock-step).  The intensity of image i is a linear function of WORLD position,
``I_i(x) = A_i (x - p_i) + b_i`` (A_i, p_i, b_i from the float64 reference model of the generated
grid).  Linear interpolation, averaging and convolution with symmetric kernels of unit sum are exact
on such an image, so after any chain of operations the returned object must hold, at every sample whose
computation did not read beyond the original field of view, the SAME linear function evaluated at the
world positions of the RETURNED grid (float64 index->world formula applied to the grid attributes the
result reports).  Index-only operations must in addition be bit-exact copies at the documented offset.

Field of view = convex hull of the sample centres.  Which samples of a result are "inside" is decided by
a float64 footprint model of each operation (which source samples a result sample reads), never by
deepali's values.  Samples that read padded/extrapolated values are not compared (they are counted as
masked); this is where an operation is not exact on a ramp at the border:
  * resample / sample(grid): zero (or constant / border) padding outside the source grid;
  * resize / downsample / upsample / pyramid with align_corners=False: torch clamps source coordinates
    at the first/last sample (half a sample of the result lies outside the hull of sample centres);
  * Gaussian pre-smoothing of downsample/pyramid (sigma != 0) and conv with "same" padding: the border
    of width = kernel radius mixes in padded values;
  * avg_pool with ceil_mode: the last window is averaged over fewer samples;
  * positive pad / center_pad / ROI beyond the grid: new samples are extrapolated by a non-linear rule,
    only grid/shape and the retained samples are checked.

Programs, not only chains.  An operation returns a NEW object that says where the data now lies; its operand keeps
describing its own data.  Cases are therefore programs over a pool of live objects: every operation takes the latest
or an EARLIER object as operand (one object is used by two or more operations), sample() may take the grid(s) of
another live object as target, pyramid() adds all its levels to the pool.  After every operation every live object
(operand, original input, earlier results) must hold bit-exactly the voxel data and grid attributes it had when it was
created - so it still satisfies the ramp oracle it passed then - and mutable argument objects (size / margin / spacing
tensors and lists, kernels, target grids) must be unchanged.  Results that are views of their operand (narrow,
center_crop, no-op forms, sample() on the own grid returning self) are fine; only a change of values is an alarm.

Flow fields: units move with the grid.  The numbers of a flow field mean world vectors only together with the vector axes
(WORLD, GRID = voxel units, CUBE / CUBE_CORNERS = normalized to the grid extent / corner-to-corner span) AND the grid they are
attached to.  "Data and grid move in lock-step" therefore includes the units: a flow field whose WORLD vectors are a linear
function of world position must, after any grid-changing operation, hold the SAME world vectors at the returned grid's world
positions, expressed w.r.t. the same axes of the RETURNED grid (float64 world -> axes matrix of the returned grid's model applied
to the ramp; FlowFields._regrid / sample docstrings: "vectors w.r.t. these grids").  All four axes are generated on grids of
either align_corners flag (the default axes of a grid - CUBE for False, CUBE_CORNERS for True - are only two of the eight
combinations), given to the constructor, left to its default, or obtained from another representation by flow.axes(...); the
program may convert the axes again at any point (operation 'axes': same grid, same world vectors, other units).  A failure whose
numbers are right in the units of the OPERAND's grid is reported as flow_vectors_in_units_of_operand_grid:<operation>.

Hidden grid state.  Grid keeps a fractional float size after downsample()/pyramid() of odd sizes and after resample()
(size/2, extent/spacing) while it has ceil(size) points.  Such grids are generated directly: as input grids and as
sample() targets derived by Grid.downsample()/Grid.resample() (the ramp is then defined on the attributes deepali
reports), and by the 'fractional' plan (odd sizes -> downsample / pyramid / resample -> sample from the result, or of the
original onto the result's grid), for both align_corners settings.
"""
from __future__ import annotations

import itertools
import math

import numpy as np
import torch
from hypothesis import strategies as st

from vlib import gen, ref
from vlib.case import make_grid, tdtype
from vlib.core import EPS32, Facet, Violation, check_close
from vlib.findings import Known

PROPERTY = "C04"
MANIFEST = {
    "text": "Generated Image / ImageBatch (N = 1..3, distinct per-image grids) / FlowField / FlowFields objects (vectors w.r.t. "
            "WORLD, GRID, CUBE or CUBE_CORNERS axes on grids of either align_corners flag, axes given to the constructor, left to "
            "its default or obtained by flow.axes()) on "
            "oriented anisotropic grids (D in {2,3}, both align_corners, also different flags within one batch, float32/float64; "
            "also grids with a fractional internal "
            "size derived by Grid.downsample/resample, and batches whose images share one Grid object) whose intensity / world "
            "vector is a "
            "per-image linear function of world position are pushed through programs of 1-4 operations (resize, resample, "
            "downsample, upsample (also their negative-levels forms), pyramid (positive, negative and default level indices), "
            "crop, pad, center_crop, center_pad, region_of_interest, narrow, avg_pool, conv, "
            "sample(grid), batch indexing, flow.axes(); depth <= 3; also the same operation two or three times in sequence) with "
            "arguments of all documented forms (int, varargs, list, tuple, "
            "tensor; scalar fill / padding constants of both signs; explicit align_corners equal to or different from the grid "
            "flag). Each operation is applied to the latest or to an earlier "
            "live object (fan-out), sample() may target the grids of another live object. After every step the result must be "
            "of the same type, its grids must have the shape of its data, every sample computed from inside the original field "
            "of view must equal the same linear function of the RETURNED grid's world positions (float64 model, bound "
            "64*eps32*condition; for flow fields: the same world vectors expressed w.r.t. the axes of the RETURNED grid), index-only "
            "operations must be bit-exact copies at the documented offset (flow fields with non-world axes: re-expressed vectors, "
            "ramp bound), per image, and "
            "every live object (operand, input, earlier results; data, grids and vector axes label) and every mutable argument "
            "object must be bit-exactly "
            "unchanged. A second facet checks the documented vector conversion of FlowFields.sample for non-world axes, "
            "also from / onto grids with a fractional internal size. Exploration, not proof.",
    "note": "Trusted: float64 grid model of vlib/ref.py (index->world), the footprint model of each operation in props/c04.py "
            "(which source samples a result sample reads; torch interpolate/grid_sample/avg_pool/conv semantics), exactness of "
            "linear interpolation / symmetric unit-sum kernels on linear ramps. Samples whose footprint leaves the original "
            "field of view are not compared.",
    "technique": "property-based testing (Hypothesis) with a closed-form linear-ramp oracle, float64 reference geometry and "
                 "bit-exact copy checks for index-only operations",
}
ASSUMPTIONS = [
    "samples of grids with a fractional internal size (Grid keeps size/2 after downsample, extent/spacing after resample) are "
    "addressed by the rounded size the data tensor has; upsample / downsample(min_size) on such grids are known findings K3 / K4 "
    "and are not generated while those are listed in known_findings.json (case field 'avoid'); this routing looks at the "
    "internal size of the actual operand, so it also covers derived input grids and operands taken from the pool",
    "methods without trailing underscore return new objects ('Returns: new grid / batch of ...' docstrings; in-place variants "
    "are named xxx_): operand, other live objects and argument objects are compared bit-exactly (data, Grid _size/_center/"
    "_spacing/_direction/_align_corners) with snapshots taken at creation; results may share storage with their operand "
    "(narrow, center_crop, no-op forms; sample() on the own grids returns self as documented) - aliasing is not an alarm",
    "derived grids: input grid = Grid(2n-1 points, spacing/2).downsample() or Grid.resample(spacing*r), r in [0.6, 1.6]; target "
    "grid likewise; the ramp / the expectation is defined on the attributes the derived grid reports. extent/spacing is rounded "
    "in float32, so when the images of a batch would get different point counts the underived grids are used",
    "tensor-valued size / margin / spacing arguments (type Array) are generated for resize, resample, crop, pad, center_crop, "
    "center_pad; region_of_interest(start, size) is generated with int / tuple / list only: core.image.region_of_interest "
    "explicitly raises TypeError for anything but int or a sequence of ints (observation, not asserted)",
    "grids: 2-D sizes 4..12, 3-D sizes 3..7, spacing in [0.25, 4], |center| <= 100, |det direction| = 1; intermediate sizes "
    "kept in [2, 40] (2-D) / [2, 20] (3-D) per axis by resolving relative operation arguments against the current size",
    "field of view = convex hull of sample centres; border samples that read padded / clamped values are masked by a float64 "
    "footprint model (see module docstring for the list of operations and reasons)",
    "conv kernels are odd-length symmetric with dyadic weights of unit sum (a sampling grid cannot represent the half-sample "
    "shift of an even kernel); upsample is used without transposed convolution (sigma=None)",
    "batches: the per-image grids have one common flag or (1/2 of the batches with N > 1) individually drawn flags; the default "
    "flag of an operation is then the flag of the FIRST grid (ImageBatch.align_corners() docstring) for data and all grids; "
    "sample() is called with one target grid per image (a single grid for N > 1 is finding F21 of C05/C10)",
    "flow fields: expected numbers = (world -> axes of the RETURNED grid) applied to the world ramp, for every grid-changing "
    "operation (FlowFields._regrid: 'vectors w.r.t. these grids', sample() docstring); index-only operations re-express "
    "non-world vectors too, so for those flows the bit-exact copy check is replaced by the ramp check (GRID axes: factor 1 "
    "within the bound); the padded / extrapolated junk level used for border allowances is scaled by the largest vector gain",
    "NOT judged: narrow() along a spatial dimension of a flow field with CUBE / CUBE_CORNERS axes (not generated). narrow is a "
    "tensor-named operation that returns the operand's values (pinned to plain torch in C19), so on the narrowed grid's cube "
    "the unchanged numbers are other world vectors; whether it should rescale is a design question, not asserted either way. "
    "GRID / WORLD flows are narrowed and must be bit-exact copies",
    "negative levels: downsample(-L, dims, align_corners) is checked as upsample(L) and upsample(-L, dims, align_corners) as "
    "downsample(L) with the default pre-smoothing and no min_size (docstrings: 'halved (>0) or doubled (<0)'); levels = 0 is "
    "not generated; avg_pool is generated without stride / padding (Grid.pool raises NotImplementedError for them)",
]

K = 64.0
KNOWN = Known(PROPERTY)
CAP = {2: 40, 3: 20}
GEN_MAX = {2: 12, 3: 7}
GEN_MIN = {2: 4, 3: 3}


# ---------------------------------------------------------------------------------------
# reference helpers (float64 numpy, no deepali values)


def model_of(grid) -> ref.GridModel:
    """Float64 grid model built from the attributes a deepali Grid reports (size, spacing, center, direction)."""
    return ref.GridModel([int(n) for n in grid.size()], grid.spacing().double().numpy(), center=grid.center().double().numpy(),
                         direction=grid.direction().double().numpy(), align_corners=grid.align_corners())


def ramp_of(m: ref.GridModel, slopes, b0: float, C: int):
    """World gradient matrix A (C, D), reference point p and offsets b (C,) of the ramp of one image.

    `slopes` are per-axis intensity increments per sample step of the generated grid (channel 0); channel c uses
    the cyclically shifted slopes with alternating sign and growing magnitude, so that every channel differs."""
    g = np.asarray(slopes, dtype=np.float64)
    rows, offs = [], []
    for c in range(C):
        gc = np.roll(g, c) * ((-1.0) ** c) * (1.0 + 0.5 * c)
        rows.append(m.R @ (gc / m.s))  # a . (R diag(s) e_k) = gc_k
        offs.append(b0 + 1.5 * c)
    return np.stack(rows), m.c.copy(), np.asarray(offs)


def ramp_values(A, p, b, pts: np.ndarray) -> np.ndarray:
    """Values (C, ...spatial) of the ramp at world points pts (...spatial, D)."""
    v = (pts - p) @ A.T + b
    return np.moveaxis(v, -1, 0)


def reduce_axis(mask: np.ndarray, axis: int, lo: np.ndarray, hi: np.ndarray) -> np.ndarray:
    """out[..j..] = all(mask[..lo[j]..hi[j]..]) along numpy axis `axis` (False if the interval leaves the array)."""
    n = mask.shape[axis]
    inv = np.moveaxis((~mask).astype(np.int64), axis, -1)
    cs = np.concatenate([np.zeros(inv.shape[:-1] + (1,), dtype=np.int64), np.cumsum(inv, axis=-1)], axis=-1)
    lo = np.asarray(lo, dtype=np.int64)
    hi = np.asarray(hi, dtype=np.int64)
    ok = (lo >= 0) & (hi <= n - 1) & (lo <= hi)
    loc, hic = np.clip(lo, 0, n - 1), np.clip(hi, 0, n - 1)
    cnt = cs[..., hic + 1] - cs[..., loc]
    out = (cnt == 0) & ok
    return np.moveaxis(out, -1, axis)


def linear_intervals(idx: np.ndarray, tol: float):
    """Source index intervals read by linear interpolation at continuous indices idx (1-D array).

    Returns (lo, hi, lo_strict, hi_strict): a coordinate within `tol` of an integer reads that sample only
    (the other neighbour has weight <= tol); the strict interval also contains both neighbours."""
    r = np.rint(idx)
    snap = np.abs(idx - r) <= tol
    f = np.floor(idx)
    lo = np.where(snap, r, f).astype(np.int64)
    hi = np.where(snap, r, f + 1).astype(np.int64)
    los = np.where(snap, r - 1, f).astype(np.int64)
    his = np.where(snap, r + 1, f + 1).astype(np.int64)
    return lo, hi, los, his


def resize_index(n: int, m: int, ac: bool) -> np.ndarray:
    """Source index (in a row of n samples) of the m samples of torch.nn.functional.interpolate(size=m)."""
    j = np.arange(m, dtype=np.float64)
    if m == n:
        return j
    if ac:
        return j * ((n - 1) / (m - 1)) if m > 1 else np.zeros(1)
    return (j + 0.5) * (n / m) - 0.5


def selftest():
    rng = np.random.RandomState(0)
    mask = rng.rand(5, 6) > 0.3
    lo = np.array([0, 1, -1, 3, 4])
    hi = np.array([1, 1, 0, 6, 5])
    out = reduce_axis(mask, 1, lo, hi)
    for i in range(5):
        for j in range(5):
            want = lo[j] >= 0 and hi[j] <= 5 and bool(mask[i, lo[j]:hi[j] + 1].all())
            assert out[i, j] == want
    g = {"size": [5, 4], "spacing": [2.0, 0.5], "center": [10.0, -3.0], "rot": [0.3], "perm": [0, 1], "flip": [1, 1], "ac": True}
    m = ref.GridModel.from_desc(g)
    A, p, b = ramp_of(m, [1.0, -0.5], 2.0, 2)
    v = ramp_values(A, p, b, m.world_points())
    assert abs((v[0, 0, 1] - v[0, 0, 0]) - 1.0) < 1e-12 and abs((v[0, 1, 0] - v[0, 0, 0]) + 0.5) < 1e-12
    assert abs(v[0, 0, 0] - (2.0 - 1.0 * 2 + 0.5 * 1.5)) < 1e-12
    assert np.allclose(resize_index(5, 3, True), [0, 2, 4]) and np.allclose(resize_index(4, 2, False), [0.5, 2.5])
    lo_, hi_, los, his = linear_intervals(np.array([0.0, 1.5, 3.0000001]), 1e-6)
    assert lo_.tolist() == [0, 1, 3] and hi_.tolist() == [0, 2, 3] and los.tolist() == [-1, 1, 2] and his.tolist() == [1, 2, 4]


# ---------------------------------------------------------------------------------------
# state of one object under test


class Item:
    """One image of the object under test: its ramp, the model of its current grid, validity masks."""

    def __init__(self, ident, A, p, b, model, lin=None):
        self.ident = ident
        self.A, self.p, self.b = A, p, b
        self.model = model
        shape = tuple(int(n) for n in model.n[::-1])
        self.ok = np.ones(shape, dtype=bool)      # value is determined by samples inside the original field of view
        self.tight = np.ones(shape, dtype=bool)   # ... and no discarded neighbour of negligible weight is junk
        self.loose = 0.0                          # extra allowance for ok & ~tight samples
        self.lin = lin                            # facet 2: world -> axes conversion is applied to the expected vectors


class State:
    def __init__(self, kind, obj, items, dtype, axes="world"):
        self.kind = kind          # image | batch | flowfield | flowfields
        self.obj = obj
        self.items = items
        self.dtype = dtype
        self.axes = axes
        self.chan = None          # (start, length) if channels were narrowed
        self.pool = None          # list of all live States of the program (fan-out: any of them may be used again)
        self.name = "input"
        self.snap = None          # (data clone, per grid attribute clones) taken when the object was created

    def fork(self):
        """New State describing the same object; step() / run_pyramid() turn it into the description of a result."""
        s = State(self.kind, self.obj, self.items, self.dtype, self.axes)
        s.chan, s.pool = self.chan, self.pool
        return s

    @property
    def is_batch(self):
        return self.kind in ("batch", "flowfields")

    @property
    def is_flow(self):
        return self.kind in ("flowfield", "flowfields")

    def grids(self):
        return tuple(self.obj.grids()) if self.is_batch else (self.obj.grid(),)

    def data(self) -> torch.Tensor:
        t = self.obj.tensor()
        return t if self.is_batch else t.unsqueeze(0)

    def size(self):
        """Current spatial size, x first."""
        return [int(n) for n in reversed(self.data().shape[2:])]

    @property
    def D(self):
        return self.items[0].model.D


def derived_grid(desc, derive):
    """Input grid of one image: the generated grid, or a grid DERIVED from a generated one by a Grid operation, so that
    its internal float size is fractional while it has ceil(size) points (state that downsample / pyramid / resample
    leave behind): {"how": "downsample"} halves a grid of 2n-1 points, {"how": "resample", "r": [...]} resamples."""
    if not derive:
        return make_grid(desc)
    if derive["how"] == "downsample":
        d2 = dict(desc, size=[2 * int(n) - 1 for n in desc["size"]], spacing=[float(v) / 2 for v in desc["spacing"]])
        return make_grid(d2).downsample()
    g = make_grid(desc)
    sp = [float(np.float32(float(v) * float(r))) for v, r in zip(g.spacing().tolist(), derive["r"])]
    return g.resample(sp)


def grid_snapshot(g):
    return (g._size.clone(), g._center.clone(), g._spacing.clone(), g._direction.clone(), bool(g._align_corners))


def grid_unchanged(g, snap) -> bool:
    return (all(a.shape == b.shape and torch.equal(a, b) for a, b in zip((g._size, g._center, g._spacing, g._direction), snap[:4]))
            and bool(g._align_corners) == snap[4])


def take_snapshot(state: State):
    t = state.obj.tensor().detach().as_subclass(torch.Tensor).clone()
    state.snap = (t, [grid_snapshot(g) for g in state.grids()])


def verify_pool(pool, src_idx: int, opname: str, note: str):
    """Operations return NEW objects: every live object (the operand, the original input, earlier results) must still hold
    bit-exactly the data and grids it had when it was created, so that it still satisfies its own ramp oracle."""
    for k, st_ in enumerate(pool):
        if st_.snap is None:
            continue
        who = "operand" if k == src_idx else "other_live_object"
        t, gsnaps = st_.snap
        cur = st_.obj.tensor().detach().as_subclass(torch.Tensor)
        if cur.shape != t.shape or not torch.equal(cur, t):
            d = float((cur.double() - t.double()).abs().max()) if cur.shape == t.shape else float("nan")
            raise Violation(f"{who}_data_modified:{opname}", f"{note}: the voxel data of {st_.name} (pool index {k}) changed in place "
                                                             f"(max |delta| = {d:.6g}); it no longer matches its own grid")
        cur_axes = st_.obj.axes() if st_.is_flow else None
        cur_axes = getattr(cur_axes, "value", cur_axes)
        if st_.is_flow and cur_axes != st_.axes:
            raise Violation(f"{who}_axes_modified:{opname}", f"{note}: the vector axes of {st_.name} (pool index {k}) changed in place "
                                                             f"from {st_.axes} to {cur_axes}")
        grids = st_.grids()
        if len(grids) != len(gsnaps) or not all(grid_unchanged(g, sn) for g, sn in zip(grids, gsnaps)):
            raise Violation(f"{who}_grid_modified:{opname}", f"{note}: a sampling grid of {st_.name} (pool index {k}) changed in place: "
                                                             f"{[repr(g) for g in grids]}")


def arg_snapshot(x):
    from deepali.core import Grid

    if isinstance(x, torch.Tensor):
        return ("t", x.detach().clone())
    if isinstance(x, Grid):
        return ("g", grid_snapshot(x))
    if isinstance(x, (list, tuple)):
        return ("s", type(x), [arg_snapshot(v) for v in x])
    return ("v", x)


def arg_unchanged(x, snap) -> bool:
    if snap[0] == "t":
        return isinstance(x, torch.Tensor) and x.shape == snap[1].shape and x.dtype == snap[1].dtype and torch.equal(x, snap[1])
    if snap[0] == "g":
        return grid_unchanged(x, snap[1])
    if snap[0] == "s":
        return type(x) is snap[1] and len(x) == len(snap[2]) and all(arg_unchanged(v, sn) for v, sn in zip(x, snap[2]))
    return x is snap[1] or x == snap[1]


def build_input(case):
    from deepali.core import Axes
    from deepali.data import FlowField, FlowFields, Image, ImageBatch

    kind, D = case["kind"], case["D"]
    grids = case["grids"]
    dt = tdtype(case["dtype"])
    C = D if kind.startswith("flow") else case["C"]
    axes = case.get("axes", "world")
    # how the flow field got its vector axes: 'ctor' = explicit constructor argument, 'default' = constructor without axes
    # (the generator then sets axes = Axes.from_grid of the first grid), 'convert' = built w.r.t. case['axes_from'] and
    # converted by flow.axes(...) (an object returned by an earlier operation, not a fresh constructor)
    via = case.get("axes_via", "ctor") if kind.startswith("flow") else "ctor"
    build_axes = case.get("axes_from", "world") if via == "convert" else axes
    items, tensors, dgrids = [], [], []
    derive = case.get("derive")
    share = bool(case.get("share_grid")) and kind in ("batch", "flowfields")
    if derive and not share and len({tuple(derived_grid(g, derive).size()) for g in grids}) > 1:
        derive = None  # resample rounds extent / spacing in float32: the images of a batch must keep one common shape
    for i, g in enumerate(grids):
        if share and i > 0:
            dg = dgrids[0]  # ONE Grid object for all images of the batch
        else:
            dg = derived_grid(g, derive)
        # the ramp is defined on the grid deepali reports (float64 model of its float32 attributes) when the input grid was
        # derived by a Grid operation, else on the float64 model of the generated descriptor
        m = model_of(dg) if (derive or share) else ref.GridModel.from_desc(g)
        A, p, b = ramp_of(m, case["slopes"][i], case["b0"][i], C)
        vals = ramp_values(A, p, b, m.world_points())
        item = Item(i, A, p, b, m)
        if axes != "world":
            item.lin = axes
        if build_axes != "world":
            L = m.matrix("world", build_axes)[:, :D]
            vals = np.tensordot(L, vals, axes=(1, 0))
        items.append(item)
        tensors.append(torch.tensor(vals, dtype=dt))
        dgrids.append(dg)
    garg = dgrids[0] if (share and case.get("share_grid") == "single") else dgrids
    if kind == "image":
        obj = Image(tensors[0], dgrids[0])
    elif kind == "batch":
        obj = ImageBatch(torch.stack(tensors), garg)
    elif kind == "flowfield":
        obj = FlowField(tensors[0], dgrids[0]) if via == "default" else FlowField(tensors[0], dgrids[0], Axes(build_axes))
    else:
        obj = FlowFields(torch.stack(tensors), garg) if via == "default" else FlowFields(torch.stack(tensors), garg, Axes(build_axes))
    if via == "convert":
        obj = obj.axes(Axes(axes))
    st_ = State(kind, obj, items, dt, axes)
    st_.derived = derive
    for it, dg in zip(items, dgrids):  # from here on the model follows the grid deepali reports
        it.model = model_of(dg)
    return st_


# ---------------------------------------------------------------------------------------
# bounds


def world_cond(m: ref.GridModel) -> float:
    return float(np.abs(m.c).max() + np.abs(m.s * m.n).sum())


def index_cond(m: ref.GridModel) -> float:
    return world_cond(m) / float(m.s.min()) + float(m.n.max())


def vector_gain(old: ref.GridModel, old_axes, new: ref.GridModel, new_axes) -> float:
    """Largest factor by which a vector component grows when re-expressed from old_axes of `old` to new_axes of `new`."""
    Lo = np.eye(old.D) if old_axes is None else old.matrix("world", old_axes)[:, : old.D]
    Ln = np.eye(new.D) if new_axes is None else new.matrix("world", new_axes)[:, : new.D]
    return float(np.abs(Ln @ np.linalg.inv(Lo)).sum(axis=1).max())


# ---------------------------------------------------------------------------------------
# footprints: how validity propagates through one operation


class Rel:
    """Footprint of an operation: which source samples each result sample reads.

    kind 'sep'   per grid axis k (x first) either ('lin', idx array) or ('win', lo array, hi array)
    kind 'world' arbitrary target grid (sample): continuous source indices from the float64 grid models
    exact        integer offsets (x first) for index-only operations -> bit-exact copy check
    tol          coordinate uncertainty in source index units (float32 arithmetic of the implementation)
    """

    def __init__(self, kind, axes=None, exact=None, tol=0.0, pre=None, label=""):
        self.kind = kind
        self.axes = axes
        self.exact = exact
        self.tol = tol
        self.pre = pre
        self.label = label


def window_axis(m: int, off: int, r: int = 0):
    j = np.arange(m, dtype=np.int64)
    return ("win", j + off - r, j + off + r)


def apply_sep(item: Item, rel: Rel, junk: float):
    """Propagate the masks of `item` through a separable footprint. Returns (ok, tight, loose)."""
    D = item.model.D
    ok, tight = item.ok, item.tight
    loose = item.loose
    snapped = False
    for k, ax in enumerate(rel.axes):
        npax = D - 1 - k
        if ax[0] == "win":
            ok = reduce_axis(ok, npax, ax[1], ax[2])
            tight = reduce_axis(tight, npax, ax[1], ax[2])
        else:
            lo, hi, los, his = linear_intervals(ax[1], max(1e-6, rel.tol))
            ok = reduce_axis(ok, npax, lo, hi)
            tight = reduce_axis(tight, npax, los, his)
            snapped = snapped or bool(np.any(lo == hi))
    if snapped:
        loose = loose + 2.0 * junk * rel.tol
    return ok, tight, loose


def apply_world(item: Item, new: ref.GridModel, tol: float, junk: float):
    """Masks for sampling `item` at the points of grid `new` (multilinear, arbitrary orientation)."""
    old = item.model
    D = old.D
    idx = old.points(new.world_points(), "world", "grid")  # (..., D) x first
    n = old.n.astype(np.int64)
    r = np.rint(idx)
    snap = np.abs(idx - r) <= tol
    f = np.floor(idx)
    lo = np.where(snap, r, f).astype(np.int64)
    hi = np.where(snap, r, f + 1).astype(np.int64)
    los = np.where(snap, r - 1, f).astype(np.int64)
    his = np.where(snap, r + 1, f + 1).astype(np.int64)

    def gather(mask, lo_, hi_, steps):
        out = np.ones(idx.shape[:-1], dtype=bool)
        for t in itertools.product(range(steps), repeat=D):
            c = np.minimum(lo_ + np.asarray(t), hi_)
            inr = np.all((c >= 0) & (c < n), axis=-1)
            cc = np.clip(c, 0, n - 1)
            out &= inr & mask[tuple(cc[..., D - 1 - d] for d in range(D))]
        return out

    ok = gather(item.ok, lo, hi, 2)
    tight = gather(item.tight, los, his, 3)
    return ok, tight, item.loose + 2.0 * junk * tol


# ---------------------------------------------------------------------------------------
# resolving relative operation arguments against the current state, calling deepali


def frac_sizes(state: State):
    """Fractional float32 grid sizes deepali keeps internally (only used to route around K3/K4)."""
    return [np.asarray(g._size.tolist(), dtype=np.float32) for g in state.grids()]


def frac_tag(state: State) -> str:
    """Violation-kind suffix for operations applied to a grid whose internal size is not integral."""
    return ":fractional_grid_size" if any(bool(np.any(f != np.ceil(f))) for f in frac_sizes(state)) else ""


def pick(u: float, lo: int, hi: int) -> int:
    """Map u in [0, 1] to an integer in [lo, hi]."""
    if hi <= lo:
        return lo
    return min(hi, lo + int(u * (hi - lo + 1)))


def ac_of(state: State, op) -> bool:
    a = op.get("ac")
    return bool(state.grids()[0].align_corners()) if a is None else bool(a)


def dims_arg(op, D):
    d = op.get("dims")
    if d is None:
        return None, list(range(D))
    axes = sorted(set(int(k) % D for k in d))
    names = "xyz"
    arg = [names[k] if op.get("dims_as_str") else k for k in axes]
    return arg, axes


def same_spacing(state: State) -> bool:
    s0 = state.items[0].model.s
    return all(np.allclose(it.model.s, s0, rtol=1e-6, atol=0) for it in state.items)


class Call:
    """Result of resolving an operation: how to call deepali and what to expect."""

    def __init__(self, name, fn=None, rel=None, note="", noop=False, shape=None, kindtag=""):
        self.name = name
        self.fn = fn
        self.rel = rel            # callable(state_before, result_grids_models) -> list[Rel] per item, or Rel
        self.note = note
        self.noop = noop
        self.shape = shape        # documented result size (x first) or None
        self.kindtag = kindtag    # suffix that identifies a known sub-domain in violation kinds
        self.watch = []           # mutable argument objects (tensors, lists, Grids): must be unchanged after the call


def _interp_rel(n, m, acs, tol_n, pre=None):
    axes = [("lin", resize_index(n[k], m[k], acs)) for k in range(len(n))]
    return Rel("sep", axes=axes, tol=K * EPS32 * tol_n, pre=pre)


def seq_arg(op, values, dtype):
    """A sequence argument in the generated form: list, or (op['as_tensor']) a 1-D tensor (type Array = Sequence | Tensor)."""
    return torch.tensor(values, dtype=dtype) if op.get("as_tensor") else list(values)


def r_resize(state: State, op, avoid):
    D, n = state.D, state.size()
    mx = GEN_MAX[D] + 4
    form = op.get("form", "list")
    if form == "int":
        m = [pick(op["u"][0], 2, mx)] * D
        args, kw = (m[0],), {}
    else:
        m = [pick(op["u"][k], 2, mx) for k in range(D)]
        args = (seq_arg(op, m, torch.int64),) if form == "list" else tuple(m)
    kw = {}
    if op.get("ac") is not None:
        kw["align_corners"] = bool(op["ac"])
    acs = ac_of(state, op)
    c = Call("resize", lambda o: o.resize(*args, **kw), lambda s, ms: _interp_rel(n, m, acs, max(n + m)),
             note=f"resize({args}, {kw})", shape=m)
    c.watch = list(args)
    return c


def r_resample(state: State, op, avoid):
    D, n = state.D, state.size()
    if not same_spacing(state):
        return Call("resample", noop=True, note="spacings differ")
    s = [float(v) for v in state.grids()[0].spacing().tolist()]
    cap = CAP[D]
    form = op.get("form", "list")

    def clampr(r, k):
        return min(max(r, n[k] / cap), n[k] / 1.5)

    if form in ("min", "max", "scalar"):
        if form == "scalar":
            sp = float(np.float32(min(s) * op["r"][0]))
            arg = sp
        else:
            sp = min(s) if form == "min" else max(s)
            arg = form
        r = [sp / s[k] for k in range(D)]
        if any(abs(clampr(r[k], k) - r[k]) > 1e-12 for k in range(D)):
            form = "list"
    if form == "list" or form == "args":
        r = [clampr(float(op["r"][k]), k) for k in range(D)]
        new = [float(np.float32(s[k] * r[k])) for k in range(D)]
        r = [new[k] / s[k] for k in range(D)]
        arg = new if form == "args" else seq_arg(op, new, torch.float32)
    call = (lambda o: o.resample(*arg)) if form == "args" else (lambda o: o.resample(arg))

    def rel(st_, models):
        m = [int(v) for v in models[0].n]
        axes = []
        for k in range(D):
            j = np.arange(m[k], dtype=np.float64)
            axes.append(("lin", (n[k] - 1) / 2 + (j - (m[k] - 1) / 2) * r[k]))
        return Rel("sep", axes=axes, tol=K * EPS32 * max(n + m))

    c = Call("resample", call, rel, note=f"resample({arg})")
    c.spacing = [s[k] * r[k] for k in range(D)]
    c.watch = [arg]
    return c


def gauss_radius(sigma, levels: int) -> int:
    if sigma is None:
        sigma = 0.7355
    if sigma == 0:
        return 0
    eff = math.sqrt(sum((sigma * 2 ** lv) ** 2 for lv in range(levels))) if levels > 1 else sigma
    return int(math.floor(3.0 * eff + 1e-6))


def r_downsample(state: State, op, avoid, as_negative_upsample=False):
    """downsample(levels > 0, ...).  `as_negative_upsample`: the documented equivalent upsample(-levels, dims, align_corners)
    ('levels: number of times the image size is doubled (>0) or halved (<0)'), i.e. default pre-smoothing, no min_size."""
    if op.get("negative") and not as_negative_upsample:
        return r_upsample(state, op, avoid, as_negative_downsample=True)
    if as_negative_upsample:
        op = dict(op, sigma=None, min_size=0)
    D, n = state.D, state.size()
    arg_dims, axes = dims_arg(op, D)
    ms = int(op.get("min_size", 0))
    levels = int(op.get("levels", 1))
    while levels > 0:
        sc = 2 ** levels
        okk = all((n[k] / sc >= 2) or (ms > 0 and n[k] / sc < ms) for k in axes)
        if okk:
            break
        levels -= 1
    if levels == 0:
        return Call("downsample", noop=True, note="too small")
    sc = 2 ** levels
    tag = ""
    if ms > 0:
        straddle = any((np.float32(f[k]) / np.float32(sc) >= ms) != (n[k] / sc >= ms) for f in frac_sizes(state) for k in axes)
        if straddle:
            if "K4" in avoid:
                return Call("downsample", noop=True, note="routed:K4")
            tag = ":min_size_straddles_fractional_grid_size"
    sigma = op.get("sigma", 0)
    kw = {"sigma": sigma, "min_size": ms}
    if arg_dims is not None:
        kw["dims"] = arg_dims
    if op.get("ac") is not None:
        kw["align_corners"] = bool(op["ac"])
    if not kw["min_size"]:
        kw.pop("min_size")
    acs = ac_of(state, op)
    rad = gauss_radius(sigma, levels)

    def rel(st_, models):
        m = [int(v) for v in models[0].n]
        pre = [rad if (k in axes and m[k] != n[k]) else 0 for k in range(D)]
        return _interp_rel(n, m, acs, max(n), pre=pre)

    if as_negative_upsample:
        kw.pop("sigma")
        return Call("upsample", lambda o: o.upsample(-levels, **kw), rel, note=f"upsample({-levels}, {kw})", kindtag=tag)
    return Call("downsample", lambda o: o.downsample(levels, **kw), rel, note=f"downsample({levels}, {kw})", kindtag=tag)


def r_upsample(state: State, op, avoid, as_negative_downsample=False):
    """upsample(levels > 0, ...).  `as_negative_downsample`: the documented equivalent downsample(-levels, dims, align_corners)."""
    if op.get("negative") and not as_negative_downsample:
        return r_downsample(state, op, avoid, as_negative_upsample=True)
    D, n = state.D, state.size()
    arg_dims, axes = dims_arg(op, D)
    levels = int(op.get("levels", 1))
    while levels > 0 and any(n[k] * 2 ** levels > CAP[D] for k in axes):
        levels -= 1
    if levels == 0:
        return Call("upsample", noop=True, note="too large")
    sc = 2 ** levels
    tag = ""
    frac = any(int(np.ceil(np.float32(f[k]) * np.float32(sc))) != n[k] * sc for f in frac_sizes(state) for k in axes)
    if frac:
        if "K3" in avoid:
            return Call("upsample", noop=True, note="routed:K3")
        tag = ":fractional_grid_size"
    kw = {}
    if arg_dims is not None:
        kw["dims"] = arg_dims
    if op.get("ac") is not None:
        kw["align_corners"] = bool(op["ac"])
    acs = ac_of(state, op)
    m = [n[k] * sc if k in axes else n[k] for k in range(D)]
    if as_negative_downsample:
        return Call("downsample", lambda o: o.downsample(-levels, **kw), lambda s, ms_: _interp_rel(n, m, acs, max(m)),
                    note=f"downsample({-levels}, {kw})", shape=None if tag else m, kindtag=tag)
    return Call("upsample", lambda o: o.upsample(levels, **kw), lambda s, ms_: _interp_rel(n, m, acs, max(m)),
                note=f"upsample({levels}, {kw})", shape=None if tag else m, kindtag=tag)


def pyramid_sizes(n, levels, axes, acp, ms):
    """Sizes of all pyramid levels as documented by Grid.pyramid (finest level chosen such that halving is exact)."""
    sizes = {lv: list(n) for lv in range(levels + 1)}
    mm = sum(2 ** i for i in range(levels)) if acp else 0
    for k in axes:
        sizes[levels][k] = int(0.5 + (sizes[levels][k] + mm) / 2 ** levels)
        for lv in range(levels - 1, -1, -1):
            sizes[lv][k] = 2 * sizes[lv + 1][k] - 1
        for lv in range(1, levels + 1):
            sizes[lv][k] = (sizes[lv - 1][k] + 1) // 2
            if sizes[lv][k] < ms:
                sizes[lv][k] = sizes[lv - 1][k]
    return sizes


def margins_from(op, n, sign):
    """Per border numbers of samples to REMOVE (x_lo, x_hi, y_lo, ...), resolved so that >= 2 samples remain."""
    D = len(n)
    form = op.get("form", "num")
    v = [int(x) for x in op["v"]]
    if form in ("margin_int", "num_int"):
        num = [v[0]] * (2 * D)
    elif form in ("margin", "margin_args"):
        num = [v[k] for k in range(D) for _ in (0, 1)]
    else:
        num = v[: 2 * D]
    num = [sign * x for x in num]  # now: positive = remove
    if form in ("margin_int", "num_int"):
        while any(n[k] - 2 * num[0] < 2 for k in range(D)):
            num = [num[0] - 1] * (2 * D)
    elif form in ("margin", "margin_args"):
        for k in range(D):
            while n[k] - 2 * num[2 * k] < 2:
                num[2 * k] -= 1
                num[2 * k + 1] -= 1
    else:
        for k in range(D):
            while n[k] - num[2 * k] - num[2 * k + 1] < 2:
                if num[2 * k + 1] >= num[2 * k]:
                    num[2 * k + 1] -= 1
                else:
                    num[2 * k] -= 1
    return form, num


def pad_mode_kw(op, n, num_remove, D):
    """Extrapolation mode arguments; reflect needs 2-D data and pad < size."""
    mode = op.get("mode", "constant")
    if mode == "reflect" and (D != 2 or any(-num_remove[2 * k + e] >= n[k] for k in range(D) for e in (0, 1))):
        mode = "replicate"
    kw = {"mode": mode}
    if mode == "constant" and op.get("value") is not None:
        kw["value"] = op["value"]
    return kw


def _index_rel(n, num_remove):
    D = len(n)
    off = [num_remove[2 * k] for k in range(D)]
    m = [n[k] - num_remove[2 * k] - num_remove[2 * k + 1] for k in range(D)]
    return Rel("sep", axes=[window_axis(m[k], off[k]) for k in range(D)], exact=off), m


def r_crop_pad(state: State, op, avoid):
    name = op["op"]
    D, n = state.D, state.size()
    sign = 1 if name == "crop" else -1
    form, rem = margins_from(op, n, sign)
    rel, m = _index_rel(n, rem)
    arg = [sign * x for x in rem]
    kw = pad_mode_kw(op, n, rem, D)
    if form in ("margin_int", "num_int"):
        kw["margin" if form == "margin_int" else "num"] = arg[0]
    elif form in ("margin", "margin_args"):
        kw["margin"] = [arg[2 * k] for k in range(D)]
        kw["margin"] = tuple(kw["margin"]) if form == "margin_args" else seq_arg(op, kw["margin"], torch.int64)
    else:
        kw["num"] = seq_arg(op, arg, torch.int64)
    c = Call(name, lambda o: getattr(o, name)(**kw), lambda s, ms: rel, note=f"{name}({kw})", shape=m, kindtag=frac_tag(state))
    c.watch = [kw.get("margin"), kw.get("num")]
    return c


def r_center_crop(state: State, op, avoid):
    D, n = state.D, state.size()
    form = op.get("form", "list")
    if form == "int":
        t = [pick(op["u"][0], 2, max(n) + 1)] * D
        args = (t[0],)
    else:
        t = [pick(op["u"][k], 2, n[k] + 1) for k in range(D)]
        args = (seq_arg(op, t, torch.int64),) if form == "list" else tuple(t)
    m = [min(n[k], t[k]) for k in range(D)]
    # the offset of a centre crop is not documented for odd differences: take it from the returned grid (run_chain)
    c = Call("center_crop", lambda o: o.center_crop(*args), "center", note=f"center_crop({args})", shape=m)
    c.watch = list(args)
    return c


def r_center_pad(state: State, op, avoid):
    D, n = state.D, state.size()
    form = op.get("form", "list")
    if form == "int":
        t = [pick(op["u"][0], min(n) - 1, min(n) + 4)] * D
        args = (t[0],)
    else:
        t = [pick(op["u"][k], n[k] - 1, n[k] + 4) for k in range(D)]
        args = (seq_arg(op, t, torch.int64),) if form == "list" else tuple(t)
    m = [max(n[k], t[k]) for k in range(D)]
    kw = pad_mode_kw(op, n, [-(m[k] - n[k]) for k in range(D) for _ in (0, 1)], D)
    c = Call("center_pad", lambda o: o.center_pad(*args, **kw), "center", note=f"center_pad({args}, {kw})", shape=m)
    c.watch = list(args)
    return c


def r_roi(state: State, op, avoid):
    D, n = state.D, state.size()
    form = op.get("form", "tuple")
    if form == "int":
        lo = pick(op["u"][0], -2, min(n) - 2)
        sz = pick(op["w"][0], max(2, 2 - lo), min(n) + 2 - lo)
        start, size = [lo] * D, [sz] * D
        a_start, a_size = lo, sz
    else:
        start = [pick(op["u"][k], -2, n[k] - 2) for k in range(D)]
        size = [pick(op["w"][k], max(2, 1 - start[k]), n[k] + 2 - start[k]) for k in range(D)]
        a_start, a_size = (tuple(start), tuple(size)) if form == "tuple" else (list(start), list(size))
    rem = [x for k in range(D) for x in (start[k], n[k] - start[k] - size[k])]
    rel, m = _index_rel(n, rem)
    kw = {}
    pad = op.get("padding")
    if pad is not None:
        if isinstance(pad, str):
            mode = pad_mode_kw({"mode": pad}, n, rem, D)["mode"]
            kw["padding"] = mode
        else:
            kw["padding"] = float(pad)
    if op.get("value") is not None and (pad is None or kw.get("padding") == "constant"):
        kw["value"] = op["value"]
    c = Call("region_of_interest", lambda o: o.region_of_interest(a_start, a_size, **kw), lambda s, ms: rel,
             note=f"region_of_interest({a_start}, {a_size}, {kw})", shape=m, kindtag=frac_tag(state))
    c.watch = [a_start, a_size]
    return c


def r_narrow(state: State, op, avoid):
    D, n = state.D, state.size()
    N = len(state.items)
    C = int(state.data().shape[1])
    # narrow() is a tensor-named operation: it returns the operand's values unchanged (pinned to plain torch in C19). For
    # vectors normalized to the grid cube (CUBE / CUBE_CORNERS axes) a spatially narrowed grid has another cube, so the
    # unchanged numbers are not "the same world vectors w.r.t. the returned grid"; this is not judged (see ASSUMPTIONS)
    normalized = state.is_flow and state.axes in ("cube", "cube_corners")
    choices = [] if normalized else [("s", k) for k in range(D)]
    if state.is_batch and N >= 2:
        choices.append(("b", 0))
    if not state.is_flow and C >= 2:
        choices.append(("c", 0))
    if not choices:
        return Call("narrow", noop=True, note="routed:normalized_vector_axes")
    what, k = choices[pick(op["d"], 0, len(choices) - 1)]
    lead = 2 if state.is_batch else 1
    if what == "s":
        start = pick(op["a"], 0, n[k] - 2)
        length = pick(op["l"], 2, n[k] - start)
        dim = lead + (D - 1 - k)
        rem = [0] * (2 * D)
        rem[2 * k], rem[2 * k + 1] = start, n[k] - start - length
        rel, m = _index_rel(n, rem)
        return Call("narrow", lambda o: o.narrow(dim, start, length), lambda s, ms: rel, note=f"narrow({dim}, {start}, {length})", shape=m)
    if what == "b":
        start = pick(op["a"], 0, N - 1)
        length = pick(op["l"], 1, N - start)
        c = Call("narrow", lambda o: o.narrow(0, start, length), "batch", note=f"narrow(0, {start}, {length})", shape=n)
        c.sel = list(range(start, start + length))
        return c
    start = pick(op["a"], 0, C - 1)
    length = pick(op["l"], 1, C - start)
    dim = lead - 1
    c = Call("narrow", lambda o: o.narrow(dim, start, length), "channel", note=f"narrow({dim}, {start}, {length})", shape=n)
    c.chan = (start, length)
    return c


def r_avg_pool(state: State, op, avoid):
    D, n = state.D, state.size()
    kmax = max(1, min(n) // 2)
    ks = [min(int(v), kmax) for v in op["k"]]
    form = op.get("form", "int")
    if form == "int" or len(set(ks[:D])) == 1:
        arg = ks[0]
        ks = [ks[0]] * D
        form = "int"
    else:
        arg = tuple(ks[:D])
    ceil = bool(op.get("ceil_mode", False))
    kw = {"ceil_mode": ceil}
    if op.get("count_include_pad") is not None:
        kw["count_include_pad"] = bool(op["count_include_pad"])

    def rel(st_, models):
        old, new = st_.items[0].model, models[0]
        axes = []
        for k in range(D):
            kk = max(1, int(round(float(new.s[k] / old.s[k]))))
            j = np.arange(int(new.n[k]), dtype=np.int64)
            axes.append(("win", j * kk, j * kk + kk - 1))
        return Rel("sep", axes=axes)

    c = Call("avg_pool", lambda o: o.avg_pool(arg, **kw), rel, note=f"avg_pool({arg}, {kw})",
             kindtag=":tuple_kernel" if form != "int" else "")
    if form == "int":
        c.shape = [(-(-n[k] // ks[0])) if ceil else n[k] // ks[0] for k in range(D)]
    return c


def kernel_1d(size: int, w):
    """Odd symmetric kernel with dyadic weights summing to exactly 1."""
    if size == 1:
        return [1.0]
    if size == 3:
        a = w[0]
        return [a, 1 - 2 * a, a]
    a, b = w[0] / 2, w[1] / 2
    return [a, b, 1 - 2 * a - 2 * b, b, a]


def r_conv(state: State, op, avoid):
    D, n = state.D, state.size()
    kind = op.get("kind", "k1")
    pad = op.get("padding")
    p = pad if isinstance(pad, int) and not isinstance(pad, bool) else None
    sizes = [int(v) for v in op["sizes"]][:D]

    def fit(sz, nk):
        while sz > 1 and (nk - (sz - 1) + (2 * p if p is not None else 0) < 2 or (sz - 1) // 2 >= nk):
            sz -= 2
        return sz

    if kind == "k1":
        sz = min(fit(sizes[0], nk) for nk in n)
        kern = torch.tensor(kernel_1d(sz, op["w"]), dtype=torch.float32)
        rads = [(sz - 1) // 2] * D
        desc = f"1-D kernel of {sz}"
    elif kind == "seq":
        # sequence in tensor order (first kernel -> first spatial tensor dimension); None entries allowed
        ks = []
        rads_t = []
        for i in range(D):
            axis = D - 1 - i
            sz = fit(sizes[i], n[axis])
            if op.get("none", [False] * D)[i]:
                ks.append(None)
                rads_t.append(0)
            else:
                ks.append(torch.tensor(kernel_1d(sz, op["w"]), dtype=torch.float32))
                rads_t.append((sz - 1) // 2)
        if all(k is None for k in ks):
            ks[-1] = torch.tensor(kernel_1d(1, op["w"]), dtype=torch.float32)
        kern = ks
        rads = [max(rads_t)] * D
        desc = f"sequence of 1-D kernels {[None if k is None else len(k) for k in ks]}"
    else:
        kd = D if (D == 2 or op.get("full", True)) else 2
        ks = []
        for i in range(kd):  # tensor order of the last kd dimensions
            axis = kd - 1 - i
            ks.append(np.asarray(kernel_1d(fit(sizes[i], n[axis]), op["w"]), dtype=np.float64))
        arr = ks[0]
        for kx in ks[1:]:
            arr = np.multiply.outer(arr, kx)
        kern = torch.tensor(arr, dtype=torch.float32)
        rads = [max((len(kx) - 1) // 2 for kx in ks)] * D
        desc = f"{kd}-D kernel {tuple(kern.shape)}"
    kw = {}
    if pad is not None:
        as_enum = isinstance(pad, str) and pad.startswith("enum:")
        if as_enum:
            pad = pad[5:]
        if isinstance(pad, str) and pad == "reflect" and (D != 2 or any(r >= nk for r, nk in zip(rads, n))):
            pad = "replicate"
        kw["padding"] = pad
        if as_enum:
            from deepali.core.enum import PaddingMode

            kw["padding"] = PaddingMode(pad)
    rmax = max(rads)

    def rel(st_, models):
        m = [int(v) for v in models[0].n]
        axes = []
        for k in range(D):
            d = n[k] - m[k]
            off = d // 2
            if p is not None or (isinstance(pad, str) and pad == "none"):
                r = max(0, off + (p or 0))
            else:
                r = rmax
            axes.append(window_axis(m[k], off, r))
        return Rel("sep", axes=axes)

    c = Call("conv", lambda o: o.conv(kern, **kw), rel, note=f"conv({desc}, {kw})", kindtag=":nd_kernel" if kind == "nd" else "")
    c.watch = [kern]
    return c


def target_grid(m: ref.GridModel, spec, i: int, scale):
    """Target grid for sample(): relative to the current grid model m of image i (float64)."""
    D = m.D
    size = [int(v) for v in spec["size"]][:D]
    spacing = m.s * np.asarray(scale, dtype=np.float64)
    rot = ref.rot2(spec["rot"][0]) if D == 2 else ref.euler_matrix(spec["rot"], "zyx")
    if i % 2 == 1:
        rot = rot.T
    R = m.R @ rot
    shift = np.asarray(spec["shift"][:D], dtype=np.float64) * (1.0 + 0.25 * i)
    center = m.c + m.R @ (shift * m.s * (m.n - 1) / 2)
    return ref.GridModel(size, spacing, center=center, direction=R, align_corners=bool(spec["ac"]))


def r_sample(state: State, op, avoid):
    from deepali.core import Grid

    D = state.D
    spec = op["target"]
    scale = [float(v) for v in spec["scale"]][:D]
    of = spec.get("of")
    derive = spec.get("derive")
    what = f"size={spec['size'][:D]}, scale={scale}"
    if of is not None and state.pool:
        # target = the grid(s) of another live object of the program (image i is sampled on the grid that belongs to the
        # same original image where the other object still holds it)
        k = int(of) % len(state.pool)
        other = state.pool[k]
        og, oid = other.grids(), [it.ident for it in other.items]
        grids = [og[oid.index(it.ident)] if it.ident in oid else og[i % len(og)] for i, it in enumerate(state.items)]
        what = f"grids of pool object {k} ({other.name})"
    else:
        models = [target_grid(it.model, spec, i, scale) for i, it in enumerate(state.items)]
        grids = []
        if derive and not isinstance(derive, str):
            # extent / spacing is rounded in float32: per-image targets may end up with different numbers of points
            probe = [Grid(size=[int(v) for v in t.n], spacing=t.s.tolist()).resample(
                [float(np.float32(v * float(r))) for v, r in zip(t.s.tolist(), derive["resample"])]).size() for t in models]
            if len(set(probe)) > 1:
                derive = None
        for t in models:
            size, spacing = [int(v) for v in t.n], t.s.tolist()
            if derive == "downsample":  # n points with internal size n - 1/2
                size, spacing = [2 * v - 1 for v in size], [v / 2 for v in spacing]
            g = Grid(size=size, spacing=spacing, center=t.c.tolist(), direction=torch.tensor(t.R, dtype=torch.float64), align_corners=t.ac)
            if derive == "downsample":
                g = g.downsample()
            elif derive:  # {"resample": [ratios]}: internal size n / r, ceil(n / r) points
                g = g.resample([float(np.float32(v * float(r))) for v, r in zip(spacing, derive["resample"])])
            grids.append(g)
        if derive:
            what += f", derived by {derive}"
    kw = {}
    if op.get("padding") is not None:
        kw["padding"] = op["padding"]
    if op.get("mode") is not None:
        kw["mode"] = op["mode"]
    if state.is_batch:
        arg = grids if (len(grids) > 1 or op.get("as_list", True)) else grids[0]
    else:
        arg = grids[0]
    c = Call("sample", lambda o: o.sample(arg, **kw), "world", note=f"sample({what}, {kw})", shape=[int(v) for v in grids[0].size()])
    c.watch = [arg]
    c.targets = grids
    return c


def r_index(state: State, op, avoid):
    N = len(state.items)
    how = op.get("how", "ellipsis")
    if not state.is_batch:
        return Call("getitem", noop=True, note="not a batch")
    if how == "ellipsis":
        c = Call("getitem", lambda o: o[...], "batch", note="[...]", shape=state.size())
        c.sel = list(range(N))
    elif how == "slice":
        a = pick(op["a"], 0, N - 1)
        b = pick(op["l"], a + 1, N)
        c = Call("getitem", lambda o: o[a:b], "batch", note=f"[{a}:{b}]", shape=state.size())
        c.sel = list(range(a, b))
    else:
        perm = [i for i in op["perm"] if i < N] or [0]
        c = Call("getitem", lambda o: o[perm], "batch", note=f"[{perm}]", shape=state.size())
        c.sel = perm
    return c


def r_axes(state: State, op, avoid):
    """flow.axes(new): same grid, same world vectors, expressed w.r.t. other axes (documented: 'Rescale and reorient vectors')."""
    from deepali.core import Axes

    if not state.is_flow:
        return Call("axes", noop=True, note="not a flow field")
    new = op["to"]
    D = state.D
    n = state.size()
    arg = new if op.get("as_str") else Axes(new)
    rel = Rel("sep", axes=[window_axis(n[k], 0) for k in range(D)], exact=[0] * D)
    c = Call("axes", lambda o: o.axes(arg), lambda s, ms: rel, note=f"axes({arg!r}) from {state.axes}", shape=n)
    c.new_axes = new
    return c


RESOLVERS = {
    "resize": r_resize, "resample": r_resample, "downsample": r_downsample, "upsample": r_upsample,
    "crop": r_crop_pad, "pad": r_crop_pad, "center_crop": r_center_crop, "center_pad": r_center_pad,
    "region_of_interest": r_roi, "narrow": r_narrow, "avg_pool": r_avg_pool, "conv": r_conv, "sample": r_sample,
    "getitem": r_index, "axes": r_axes,
}
INDEX_ONLY = {"crop", "pad", "center_crop", "center_pad", "region_of_interest", "narrow", "getitem"}


# ---------------------------------------------------------------------------------------
# one step: call, structural checks, mask propagation, value checks


def call_deepali(state: State, call: Call):
    try:
        return call.fn(state.obj)
    except ValueError as e:
        msg = str(e)
        if "must match spatial dimensions" in msg or "does not match spatial dimensions" in msg:
            raise Violation(f"data_grid_shape_mismatch:{call.name}{call.kindtag}",
                            f"{call.note}: data and grid paths disagree on the result size ({msg})")
        raise
    except TypeError as e:
        if call.name == "conv":  # two distinct documented-valid calls fail with the same automatic crash kind
            msg = str(e)
            why = "str_padding" if "unsupported operand" in msg else "nd_kernel" if "dict expected" in msg else "other"
            raise Violation(f"conv_raises_type_error:{why}", f"{call.note}: TypeError: {msg}") from e
        raise
    except NotImplementedError as e:
        if call.name == "conv" and "Padding size" in str(e):
            raise Violation("conv_raises_not_implemented:partial_kernel_padding_mode", f"{call.note}: {str(e)[:120]}") from e
        raise


def structure(state: State, out, call: Call, n_items: int):
    """Type, grid count and grid/data shape agreement of a result. Returns (tensor (N, C, ...), grids)."""
    from deepali.core import Axes

    if type(out) is not type(state.obj):
        raise Violation(f"result_type:{call.name}", f"{call.note} on {type(state.obj).__name__} returned {type(out).__name__}")
    if state.is_batch:
        t = out.tensor()
        grids = tuple(out.grids())
        if len(grids) != t.shape[0] or t.shape[0] != n_items:
            raise Violation(f"grid_count:{call.name}", f"{call.note}: {len(grids)} grids for batch of {t.shape[0]} (expected {n_items})")
    else:
        t = out.tensor().unsqueeze(0)
        grids = (out.grid(),)
    for i, g in enumerate(grids):
        if tuple(g.shape) != tuple(t.shape[2:]):
            raise Violation(f"grid_shape_vs_data_shape:{call.name}", f"{call.note}: grid {i} shape {tuple(g.shape)} != data {tuple(t.shape[2:])}")
    if t.dtype != state.dtype:
        raise Violation(f"result_dtype:{call.name}", f"{call.note}: dtype {t.dtype} for input {state.dtype}")
    if state.is_flow and out.axes() != Axes(state.axes):
        raise Violation(f"flow_axes:{call.name}", f"{call.note}: axes {out.axes()} for input axes {state.axes}")
    return t, grids


def check_values(state: State, items, t: torch.Tensor, name: str, note: str, stats, operand_models=None):
    """Ramp check of every image against the world positions of its own returned grid.

    Flow fields w.r.t. grid / cube axes: the expected numbers are the world vectors expressed in the axes of the RETURNED grid
    (world meaning of the vectors is what must be preserved).  `operand_models` (models of the operand's grids) only serves to
    name the failure: numbers that are right in the units of the operand's grid get their own violation kind."""
    worst = 0.0
    arr = t.detach().double().numpy()
    for i, it in enumerate(items):
        m = it.model
        exp = ramp_values(it.A, it.p, it.b, m.world_points())
        scaleA = it.A
        if it.lin is not None:
            L = m.matrix("world", it.lin)[:, : m.D]
            exp = np.tensordot(L, exp, axes=(1, 0))
            scaleA = np.abs(L) @ np.abs(it.A)
        if state.chan is not None:
            exp = exp[state.chan[0]: state.chan[0] + state.chan[1]]
            scaleA = scaleA[state.chan[0]: state.chan[0] + state.chan[1]]
        act = arr[i]
        if act.shape != exp.shape:
            raise Violation(f"result_channels:{name}", f"{note}: data shape {act.shape}, expected {exp.shape}")
        W = world_cond(m)
        amax = float(np.abs(scaleA).sum(axis=1).max())
        vmax = float(np.abs(exp).max()) if exp.size else 0.0
        if it.lin is not None:
            vmax = max(vmax, float(np.abs(L).sum(1).max()) * float(np.abs(ramp_values(it.A, it.p, it.b, m.world_points())).max()))
        bound = K * EPS32 * (amax * W + vmax)
        stats["points"] += int(it.ok.size)
        stats["checked"] += int(it.ok.sum())
        if it.tight.any():
            sel = np.broadcast_to(it.tight, act.shape)
            if it.lin is not None and operand_models is not None and float(np.abs(act[sel] - exp[sel]).max()) > bound:
                Lo = operand_models[i].matrix("world", it.lin)[:, : m.D]
                alt = np.tensordot(Lo, ramp_values(it.A, it.p, it.b, m.world_points()), axes=(1, 0))
                if state.chan is None and float(np.abs(act[sel] - alt[sel]).max()) <= bound:
                    raise Violation(f"flow_vectors_in_units_of_operand_grid:{name.split(':')[0]}",
                                    f"{note}: image {i} (original {it.ident}): the {it.lin} vectors are the right world vectors in the units of "
                                    f"the OPERAND's grid, not of the returned grid (size {operand_models[i].n.tolist()} -> {m.n.tolist()}, "
                                    f"max |delta| = {float(np.abs(act[sel] - exp[sel]).max()):.6g} > bound {bound:.3g})")
            worst = max(worst, check_close(act[sel], exp[sel], bound, f"ramp_mismatch:{name}",
                                           f"{note}: image {i} (original {it.ident}) differs from its ramp at the returned grid's world positions"))
        edge = it.ok & ~it.tight
        if edge.any():
            sel = np.broadcast_to(edge, act.shape)
            check_close(act[sel], exp[sel], bound + it.loose, f"ramp_mismatch_at_border:{name}",
                        f"{note}: image {i} (original {it.ident}) differs from its ramp at border samples")
    return worst


def junk_level(state: State, t_prev: torch.Tensor, call: Call, op) -> float:
    v = float(t_prev.detach().abs().max()) if t_prev.numel() else 0.0
    for key in ("value", "padding"):
        x = op.get(key)
        if isinstance(x, (int, float)) and not isinstance(x, bool):
            v = max(v, abs(float(x)))
    return v


def integer_offset(old: ref.GridModel, new: ref.GridModel, name: str, note: str, i: int):
    """Offset (x first) of the new grid's first sample in the old grid's index space; must be integral."""
    idx = old.points(new.o[None], "world", "grid")[0]
    off = np.rint(idx)
    tol = K * EPS32 * index_cond(old)
    if np.abs(idx - off).max() > max(tol, 1e-4):
        raise Violation(f"grid_not_on_source_lattice:{name}", f"{note}: image {i}: first sample of the returned grid lies at source index {idx.tolist()}")
    return [int(v) for v in off]


def step(state: State, op, avoid, stats):
    """Apply one operation to the state; returns (label, changed_size)."""
    name = op["op"]
    call = RESOLVERS[name](state, op, avoid)
    if call.noop:
        return f"{name}:noop({call.note})", False
    n_before = state.size()
    t_prev = state.data()
    prev_items = state.items
    N_prev = len(prev_items)
    watched = [arg_snapshot(x) for x in call.watch]
    out = call_deepali(state, call)
    if not all(arg_unchanged(x, sn) for x, sn in zip(call.watch, watched)):
        raise Violation(f"argument_modified:{name}", f"{call.note}: an argument object (size / margin / spacing / kernel tensor or list, "
                                                     f"target grid) was modified in place by the call; now {call.watch}")
    sel = getattr(call, "sel", None)
    n_items = len(sel) if sel is not None else N_prev
    old_axes = state.axes
    if getattr(call, "new_axes", None) is not None:
        state.axes = call.new_axes
    new_lin = None if (not state.is_flow or state.axes == "world") else state.axes
    t, grids = structure(state, out, call, n_items)
    if call.shape is not None and [int(v) for v in reversed(t.shape[2:])] != list(call.shape):
        raise Violation(f"documented_size:{name}", f"{call.note}: result size {list(reversed(t.shape[2:]))}, documented {list(call.shape)}")
    models = [model_of(g) for g in grids]
    junk = junk_level(state, t_prev, call, op)
    src = [prev_items[j] for j in sel] if sel is not None else prev_items
    if state.is_flow and (old_axes != "world" or new_lin is not None):
        # padded / extrapolated values are re-expressed together with the vectors: scale the junk level accordingly
        junk *= max([1.0] + [vector_gain(it.model, None if old_axes == "world" else old_axes, m, new_lin) for it, m in zip(src, models)])
    new_items = []
    rels = []
    shared_rel = None
    for i, (it, m) in enumerate(zip(src, models)):
        ni = Item(it.ident, it.A, it.p, it.b, m, new_lin)
        rel = call.rel
        if rel in ("batch", "channel"):
            ni.ok, ni.tight, ni.loose = it.ok, it.tight, it.loose
            # grids must be those of the selected images, unchanged
            d = float(np.abs(m.points(np.zeros((1, m.D)), "grid", "world") - it.model.points(np.zeros((1, m.D)), "grid", "world")).max())
            dd = float(np.abs(m.A - it.model.A).max())
            if d > K * EPS32 * world_cond(it.model) or dd > K * EPS32 * float(np.abs(it.model.A).max()):
                raise Violation(f"per_image_grid:{name}", f"{call.note}: result image {i} should keep the grid of input image "
                                                          f"{sel[i] if sel is not None else i} (origin differs by {d:.3g})")
            rels.append(Rel("sep", axes=[window_axis(int(m.n[k]), 0) for k in range(m.D)], exact=[0] * m.D))
        elif rel == "world":
            tol = K * EPS32 * index_cond(it.model)
            ni.ok, ni.tight, ni.loose = apply_world(it, m, tol, junk)
            rels.append(None)
        else:
            if rel == "center":
                off = integer_offset(it.model, m, name, call.note, i)
                for k in range(m.D):
                    if abs(off[k] - (n_before[k] - int(m.n[k])) / 2) > 0.5:
                        raise Violation(f"not_centered:{name}", f"{call.note}: image {i}: returned grid starts at source index {off}, "
                                                                f"sizes {n_before} -> {[int(v) for v in m.n]}")
                r = Rel("sep", axes=[window_axis(int(m.n[k]), off[k]) for k in range(m.D)], exact=off)
            else:
                if shared_rel is None:
                    shared_rel = rel(state, models) if callable(rel) else rel
                r = shared_rel
            if r.exact is not None:
                # per-image grids stay per image: the returned grid of image i must lie on the lattice of ITS OWN input grid
                want = it.model.points(np.asarray(r.exact, dtype=np.float64)[None], "grid", "world")[0]
                d = float(np.abs(m.o - want).max())
                if d > K * EPS32 * world_cond(it.model):
                    o0 = prev_items[0].model.points(np.asarray(r.exact, dtype=np.float64)[None], "grid", "world")[0]
                    kind = "per_image_grid" if (i > 0 and float(np.abs(m.o - o0).max()) <= K * EPS32 * world_cond(prev_items[0].model)) else "index_op_grid_origin"
                    raise Violation(f"{kind}:{name}", f"{call.note}: grid of image {i} starts {d:.4g} world units away from sample "
                                                      f"{r.exact} of its input grid")
            base = it
            if r.pre is not None and any(r.pre):
                base = Item(it.ident, it.A, it.p, it.b, it.model, it.lin)
                pre = Rel("sep", axes=[window_axis(int(it.model.n[k]), 0, r.pre[k]) for k in range(m.D)])
                base.ok, base.tight, base.loose = apply_sep(it, pre, junk)
            ni.ok, ni.tight, ni.loose = apply_sep(base, r, junk)
            rels.append(r)
        if ni.ok.shape != tuple(t.shape[2:]):
            raise Violation(f"footprint_shape:{name}", f"{call.note}: result shape {tuple(t.shape[2:])} but the operation's documented "
                                                       f"footprint yields {ni.ok.shape}")
        new_items.append(ni)
    # index-only operations: bit-exact copies at the documented offset
    # (vectors of a flow field w.r.t. grid / cube axes are re-expressed w.r.t. the returned grid by crop / pad / ROI ...: they
    # are held to the ramp oracle in the units of the returned grid instead; narrow / indexing always return the values)
    if name in INDEX_ONLY and (new_lin is None or name in ("narrow", "getitem")):
        tp = t_prev.detach()
        chan = getattr(call, "chan", None)
        for i, r in enumerate(rels):
            j = sel[i] if sel is not None else i
            a = t[i].detach()
            b = tp[j]
            if chan is not None:
                b = b[chan[0]: chan[0] + chan[1]]
            D = state.D
            sa, sb = [slice(None)], [slice(None)]
            for k in reversed(range(D)):  # tensor order
                off, mk, nk = r.exact[k], int(a.shape[1 + (D - 1 - k)]), int(b.shape[1 + (D - 1 - k)])
                lo = max(0, -off)
                hi = min(mk, nk - off)
                sa.append(slice(lo, hi))
                sb.append(slice(lo + off, hi + off))
            if not torch.equal(a[tuple(sa)], b[tuple(sb)]):
                raise Violation(f"index_op_not_bit_exact:{name}", f"{call.note}: image {i}: retained samples are not exact copies of the "
                                                                  f"input samples at offset {r.exact}")
    # interpolating operations must not leave the data untouched when the grid moved
    # (only where every returned sample lies inside the original field of view and the ramp really varies along every grid axis:
    # samples extrapolated by border padding, or a ramp that is constant along the axis that moved, legitimately repeat the input)
    if name in ("resample", "resize", "sample") and t.shape == t_prev.shape and torch.equal(t, t_prev):
        for it, ni in zip(src, new_items):
            varies = bool(np.all(np.abs(np.atleast_2d(np.asarray(it.A, dtype=np.float64)) @ it.model.A).max(axis=0) > 1e-6))
            if not (bool(np.all(ni.ok)) and varies):
                continue
            if float(np.abs(ni.model.A - it.model.A).max()) > 1e-4 * float(np.abs(it.model.A).max()) or \
                    float(np.abs(ni.model.o - it.model.o).max()) > 1e-4 * float(it.model.s.min()):
                raise Violation(f"data_unchanged_but_grid_changed:{name}", f"{call.note}: returned the input data with a different grid "
                                                                           f"(spacing {it.model.s.tolist()} -> {ni.model.s.tolist()})")
    if getattr(call, "spacing", None) is not None:
        for ni in new_items:
            check_close(ni.model.s, np.asarray(call.spacing), 8 * EPS32 * float(np.max(call.spacing)), "resample_spacing", call.note)
    state.obj = out
    state.items = new_items
    if getattr(call, "chan", None) is not None:
        c0 = state.chan[0] if state.chan else 0
        state.chan = (c0 + call.chan[0], call.chan[1])
    stats["ratio"] = max(stats["ratio"], check_values(state, new_items, t, name + call.kindtag, call.note, stats,
                                                      operand_models=[it.model for it in src] if old_axes == state.axes else None))
    if not any(it.ok.any() for it in new_items):
        return f"{name}:nothing_left_to_compare", state.size() != n_before or n_items != N_prev
    return f"{name}", state.size() != n_before or n_items != N_prev


def run_pyramid(state: State, op, avoid, stats):
    """pyramid() returns several levels: every level is checked, the chain continues with one of them."""
    name = "pyramid"
    D, n = state.D, state.size()
    arg_dims, axes = dims_arg(op, D)
    acp = ac_of(state, op)
    ms = int(op.get("min_size", 0))
    levels = int(op.get("levels", 2))
    sp = None
    base_n = list(n)
    s0 = state.items[0].model.s
    if op.get("spacing") is not None and same_spacing(state):
        ext = [n[k] * float(s0[k]) for k in range(D)]
        lo = max(ext[k] / CAP[D] for k in range(D)) * 1.05
        hi = min(ext[k] / (2 ** levels if k in axes else 2) for k in range(D)) / 1.05
        if hi > lo:
            sp = float(np.float32(lo + float(op["spacing"]) * (hi - lo)))
            base_n = [int(math.ceil(ext[k] / sp - 1e-6)) for k in range(D)]
    tag = ""
    while levels >= 1:
        sizes = pyramid_sizes(base_n, levels, axes, acp, ms)
        if not all(2 <= sizes[lv][k] <= CAP[D] for lv in range(levels) for k in range(D)):
            levels -= 1
            continue
        if ms > 0:
            # K4: fractional grid size and integer data size on different sides of min_size
            f = [float(v) for v in sizes[0]]
            d = list(sizes[0])
            straddle = False
            for lv in range(1, levels):
                for k in axes:
                    f2, d2 = f[k] / 2, d[k] / 2
                    f[k] = f2 if f2 >= ms else f[k]
                    d[k] = int(math.ceil(d2)) if d2 >= ms else d[k]
                    straddle = straddle or int(math.ceil(f[k])) != d[k]
            if straddle and "K4" in avoid:
                ms = 0
                continue
            if straddle:
                tag = ":min_size_straddles_fractional_grid_size"
        break
    if levels < 1:
        return "pyramid:noop(size)", False, []
    start = pick(op.get("start", 0.0), 0, levels - 1)
    end = pick(op.get("end", 1.0), start, levels - 1)
    sigma = op.get("sigma", 0)
    kw = {"sigma": sigma}
    if arg_dims is not None:
        kw["dims"] = arg_dims
    if ms:
        kw["min_size"] = ms
    if op.get("ac") is not None:
        kw["align_corners"] = bool(op["ac"])
    if sp is not None:
        kw["spacing"] = sp
    note = f"pyramid({levels}, 0, {end}, {kw})"
    if sp is not None:
        name = "pyramid:spacing"
    # start / end are also given in their documented other forms: negative = counted from the coarsest level, end omitted = -1
    idx_form = op.get("index_form", "pos")
    end_arg = end - levels if idx_form == "neg" else end
    if idx_form == "default" and end == levels - 1:
        full_fn = lambda o: o.pyramid(levels, **kw)  # noqa: E731
        note = f"pyramid({levels}, {kw})"
    else:
        full_fn = lambda o: o.pyramid(levels, 0, end_arg, **kw)  # noqa: E731
        note = f"pyramid({levels}, 0, {end_arg}, {kw})"
    full_call = Call(name, full_fn, note=note, kindtag=tag)
    pyr = call_deepali(state, full_call)
    if not isinstance(pyr, dict) or sorted(pyr.keys()) != list(range(0, end + 1)):
        raise Violation("pyramid_levels", f"{note}: returned levels {sorted(pyr.keys()) if isinstance(pyr, dict) else type(pyr)}")
    t_prev = state.data()
    junk = junk_level(state, t_prev, full_call, op)
    N = len(state.items)
    prev = state.items
    cur_n = list(n)
    per_level = {}
    rad = gauss_radius(sigma, 1)
    for lv in range(0, end + 1):
        out = pyr[lv]
        t, grids = structure(state, out, full_call, N)
        m_n = [int(v) for v in reversed(t.shape[2:])]
        models = [model_of(g) for g in grids]
        items = []
        jl = junk
        if state.is_flow and state.axes != "world":
            jl = junk * max([1.0] + [vector_gain(it.model, state.axes, m, state.axes) for it, m in zip(state.items, models)])
        for i, (it, m) in enumerate(zip(prev, models)):
            ni = Item(it.ident, it.A, it.p, it.b, m, it.lin)
            if lv == 0 and sp is not None:
                ni.ok, ni.tight, ni.loose = apply_world(it, m, K * EPS32 * index_cond(it.model), jl)
            else:
                base = it
                if lv > 0 and rad > 0:
                    pre = [rad if (k in axes and m_n[k] != cur_n[k]) else 0 for k in range(D)]
                    base = Item(it.ident, it.A, it.p, it.b, it.model, it.lin)
                    base.ok, base.tight, base.loose = apply_sep(it, Rel("sep", axes=[window_axis(cur_n[k], 0, pre[k]) for k in range(D)]), jl)
                r = _interp_rel(cur_n, m_n, acp, max(cur_n + m_n))
                ni.ok, ni.tight, ni.loose = apply_sep(base, r, jl)
            items.append(ni)
        stats["ratio"] = max(stats["ratio"], check_values(state, items, t, name, f"{note} level {lv}", stats,
                                                          operand_models=[it.model for it in prev]))
        per_level[lv] = (out, items)
        prev = items
        cur_n = m_n
    if start > 0:
        start_arg = start - levels if idx_form == "neg" else start
        sub = call_deepali(state, Call(name, lambda o: o.pyramid(levels, start_arg, end_arg, **kw), note=note, kindtag=tag))
        if sorted(sub.keys()) != list(range(start, end + 1)):
            raise Violation("pyramid_levels", f"pyramid({levels}, {start_arg}, {end_arg}): returned levels {sorted(sub.keys())}")
        for lv, o in sub.items():
            a, b = o.tensor(), per_level[lv][0].tensor()
            if a.shape != b.shape or not torch.equal(a, b):
                raise Violation("pyramid_start_level", f"pyramid({levels}, {start}, {end}) level {lv} differs from the same level of start=0")
            ga = o.grids() if state.is_batch else (o.grid(),)
            gb = per_level[lv][0].grids() if state.is_batch else (per_level[lv][0].grid(),)
            if any(x != y for x, y in zip(ga, gb)):
                raise Violation("pyramid_start_level", f"pyramid({levels}, {start}, {end}) level {lv}: grids differ from start=0")
    lv = pick(op.get("pick", 1.0), start, end)
    extra = []
    for lv2 in sorted(per_level):
        if lv2 != lv:
            e = state.fork()
            e.obj, e.items = per_level[lv2]
            extra.append(e)
    state.obj, state.items = per_level[lv]
    return name, state.size() != n, extra


def is_fractional(state: State) -> bool:
    return any(bool(np.any(f != np.ceil(f))) for f in frac_sizes(state))


def run_chain(case):
    """Interpret a program: op k is applied to the live object op['src'] (index into the pool of all objects created so far,
    modulo its length; default: the latest, i.e. a chain).  Every result joins the pool; after every operation ALL pool
    members must be bit-exactly what they were when created (operations return new objects)."""
    state = build_input(case)
    avoid = case.get("avoid", [])
    stats = {"ratio": 0.0, "points": 0, "checked": 0}
    t0 = state.data()
    stats["ratio"] = check_values(state, state.items, t0, "input", "input", stats)
    labels = [f"kind={case['kind']}", f"D={case['D']}", f"N={len(case['grids'])}", f"ac={case['grids'][0]['ac']}", case["dtype"],
              f"len={len(case['ops'])}", f"axes={case.get('axes', 'world')}", f"plan={case.get('plan', '-')}"]
    if state.is_flow:
        g_ac = bool(case["grids"][0]["ac"])
        ax = case.get("axes", "world")
        labels.append(f"flow_axes={ax}:ac={g_ac}:via={case.get('axes_via', 'ctor')}")
        if ax in ("cube", "cube_corners") and (ax == "cube_corners") != g_ac:
            labels.append("flow_axes_differ_from_grid_flag")
    if len({bool(g["ac"]) for g in case["grids"]}) > 1 and not case.get("share_grid"):
        labels.append("mixed_align_corners_in_batch")
    if state.derived:
        labels.append("input_grid=derived:" + state.derived["how"])
    if case.get("share_grid") and state.is_batch and len(state.items) > 1:
        labels.append("shared_grid_object")
    if is_fractional(state):
        labels.append("input_grid=fractional_size")
    pool = [state]
    state.pool = pool
    take_snapshot(state)
    changed = False
    applied = 0
    fan = 0
    for k, op in enumerate(case["ops"]):
        src = op.get("src")
        idx = len(pool) - 1 if src is None else int(src) % len(pool)
        is_fan = idx != len(pool) - 1
        cur = pool[idx].fork()
        extra = []
        if op["op"] == "sample":
            ac_src = bool(cur.grids()[0].align_corners())
            tgt_of = op["target"].get("of")
            if is_fractional(cur):
                labels.append(f"sample_from_fractional:ac={ac_src}")
            if op["target"].get("derive") or (tgt_of is not None and is_fractional(pool[int(tgt_of) % len(pool)])):
                labels.append(f"sample_onto_fractional:ac={ac_src}")
        if op["op"] == "pyramid":
            lab, ch, extra = run_pyramid(cur, op, avoid, stats)
        else:
            lab, ch = step(cur, op, avoid, stats)
        labels.append("op=" + lab.split("(")[0])
        if ":noop" not in lab:
            applied += 1
            for j, s_ in enumerate(extra + [cur]):
                s_.name = f"result of op {k} ({op['op']})" + (f" other level {j}" if s_ is not cur else "")
                take_snapshot(s_)
                pool.append(s_)
            if is_fan:
                fan += 1
                labels.append("reuse_of_earlier_object")
            verify_pool(pool, idx, op["op"], lab)
        changed = changed or ch
    labels.append(f"fanout={min(fan, 2)}")
    g0 = case["grids"][0]
    nt = (gen.grid_is_oblique(g0) and gen.grid_is_anisotropic(g0) and (len(case["grids"]) >= 2 or applied >= 2) and changed
          and stats["checked"] > 0)
    frac = stats["checked"] / max(1, stats["points"])
    labels.append("checked>=50%" if frac >= 0.5 else "checked<50%")
    return {"ratio": stats["ratio"], "nontrivial": nt, "labels": labels, "checked": stats["checked"]}


# ---------------------------------------------------------------------------------------
# generators


def unit():
    return gen.qfloat(0.0, 0.999, 0.001)


def opt_bool():
    return st.sampled_from([None, None, True, False])


def choice(draw, seq):
    """Uniform choice (sampled_from is biased towards the first elements when Hypothesis mutates examples)."""
    return seq[draw(st.integers(0, 10 ** 6)) % len(seq)]


AXES = ("world", "grid", "cube", "cube_corners")
SIZE_CHANGERS = ("resize", "resample", "downsample", "upsample", "pyramid", "crop", "pad", "center_crop", "center_pad",
                 "region_of_interest", "avg_pool", "conv", "sample")  # operations that put the data on another grid
FRACTIONAL_MAKERS = ("downsample", "pyramid", "resample")          # leave a fractional internal grid size behind
SCALAR_FILL_OPS = ("sample", "pad", "center_pad", "region_of_interest", "crop")  # take a scalar fill / padding constant


@st.composite
def op_cases(draw, D, kind, name=None, position=0, force=None):
    """One operation. `name` fixes the operation, `position` is its index in the program (for the choice of the operand),
    `force` = 'fill' makes the scalar fill value / padding constant non-zero, 'plain' the pre-smoothing free halving."""
    batch = kind in ("batch", "flowfields")
    names = ["resize", "resample", "downsample", "upsample", "pyramid", "crop", "pad", "center_crop", "center_pad",
             "region_of_interest", "narrow", "avg_pool", "conv", "sample", "sample"]
    if batch:
        names.append("getitem")
    if kind in ("flowfield", "flowfields"):
        names += ["axes", "axes"]
    if name is None:
        name = choice(draw, names)
    us = lambda: draw(st.lists(unit(), min_size=D, max_size=D))  # noqa: E731
    dims = draw(st.one_of(st.none(), st.none(), st.lists(st.integers(0, D - 1), min_size=1, max_size=D, unique=True)))
    op = {"op": name}
    # operand: None = the latest object (chain); an index = an earlier live object, which is thereby used more than once
    if position >= 3:  # compositions of up to 3 operations: a fourth operation starts from an object of depth <= 2
        op["src"] = choice(draw, [0, 0, 1, 2])
    elif position > 0:
        op["src"] = choice(draw, [None, None, None, None, 0, 0, 1, 2])
    op["as_tensor"] = choice(draw, [False, False, True])
    fills = [-3.5, 7.0, 4.25, -100.0] if force == "fill" else [None, 0, -3.5, 7.0, 4.25]
    if name == "resize":
        op.update(u=us(), form=draw(st.sampled_from(["list", "args", "int"])), ac=draw(opt_bool()))
    elif name == "resample":
        op.update(r=draw(st.lists(gen.qfloat(0.5, 2.2, 0.05), min_size=D, max_size=D)),
                  form=draw(st.sampled_from(["list", "list", "args", "scalar", "min", "max"])))
    elif name == "downsample":
        op.update(levels=draw(st.sampled_from([1, 1, 2])), dims=dims, dims_as_str=draw(st.booleans()),
                  sigma=draw(st.sampled_from([0, 0, 0, None, 0.5, 1.0])), min_size=draw(st.sampled_from([0, 0, 2, 3, 4])), ac=draw(opt_bool()),
                  negative=choice(draw, [False, False, False, True]))
    elif name == "upsample":
        op.update(levels=draw(st.sampled_from([1, 1, 2])), dims=dims, dims_as_str=draw(st.booleans()), ac=draw(opt_bool()),
                  negative=choice(draw, [False, False, False, True]))
    elif name == "pyramid":
        op.update(levels=draw(st.integers(1, 3)), dims=dims, dims_as_str=draw(st.booleans()), sigma=draw(st.sampled_from([0, 0, None])),
                  min_size=draw(st.sampled_from([0, 0, 2, 3])), ac=draw(opt_bool()), start=draw(unit()), end=draw(unit()), pick=draw(unit()),
                  spacing=draw(st.one_of(st.none(), st.none(), unit())), index_form=choice(draw, ["pos", "pos", "neg", "default"]))
    elif name in ("crop", "pad"):
        op.update(form=draw(st.sampled_from(["margin_int", "margin", "margin_args", "num", "num", "num_int"])),
                  v=draw(st.lists(st.integers(-2, 3), min_size=2 * D, max_size=2 * D)),
                  mode="constant" if force == "fill" else draw(st.sampled_from(["constant", "constant", "zeros", "replicate", "reflect"])),
                  value=choice(draw, fills))
    elif name in ("center_crop", "center_pad"):
        op.update(u=us(), form=draw(st.sampled_from(["list", "args", "int"])))
        if name == "center_pad":
            op.update(mode="constant" if force == "fill" else draw(st.sampled_from(["constant", "zeros", "replicate", "reflect"])),
                      value=choice(draw, fills))
    elif name == "region_of_interest":
        op.update(u=us(), w=us(), form=draw(st.sampled_from(["tuple", "tuple", "list", "int"])),
                  padding=choice(draw, [2.5, -1, -40.0] if force == "fill" else [None, "constant", "replicate", "reflect", 2.5, -1]),
                  value=draw(st.sampled_from([None, 4.0, -6.0])))
    elif name == "narrow":
        op.update(d=draw(unit()), a=draw(unit()), l=draw(unit()))
    elif name == "avg_pool":
        op.update(k=draw(st.lists(st.integers(1, 3), min_size=D, max_size=D)), form=draw(st.sampled_from(["int", "tuple", "tuple"])),
                  ceil_mode=draw(st.booleans()), count_include_pad=draw(st.sampled_from([None, True, False])))
    elif name == "conv":
        op.update(kind=draw(st.sampled_from(["k1", "seq", "nd", "nd"])), sizes=draw(st.lists(st.sampled_from([1, 3, 3, 5]), min_size=D, max_size=D)),
                  w=draw(st.lists(st.sampled_from([0.125, 0.25, 0.375]), min_size=2, max_size=2)),
                  padding=draw(st.sampled_from([None, 0, 0, 1, 2, "none", "zeros", "replicate", "reflect", "enum:none", "enum:zeros", "enum:replicate",
                                                "enum:reflect"])),
                  none=draw(st.lists(st.booleans(), min_size=D, max_size=D)), full=draw(st.booleans()))
    elif name == "sample":
        op.update(target=draw(target_specs(D, position)),
                  padding=choice(draw, fills[:4] if force == "fill" else [None, None, "border", "zeros", 0, -3.5, 7.0, 4.25]),
                  mode=draw(st.sampled_from([None, "linear"])), as_list=draw(st.booleans()))
    elif name == "axes":
        op.update(to=draw(st.sampled_from(AXES)), as_str=draw(st.booleans()))
    elif name == "getitem":
        op.update(how=draw(st.sampled_from(["ellipsis", "slice", "list"])), a=draw(unit()), l=draw(unit()),
                  perm=draw(st.lists(st.integers(0, 2), min_size=1, max_size=3, unique=True)))
    return op


@st.composite
def target_specs(draw, D, position=0):
    # 'of': sample on the grid(s) of another live object of the program instead of a generated grid;
    # 'derive': the generated target grid is itself the result of Grid.downsample() / Grid.resample() (fractional internal size)
    of = choice(draw, [None, None, None, 0, 1, 1, 2]) if position > 0 else None
    derive = choice(draw, [None, None, None, "downsample", "resample"])
    if derive == "resample":
        derive = {"resample": draw(st.lists(gen.qfloat(0.7, 1.45, 0.05), min_size=D, max_size=D))}
    return {
        "of": of, "derive": derive,
        "size": draw(st.lists(st.integers(2, 7 if D == 2 else 5), min_size=D, max_size=D)),
        "scale": draw(st.one_of(gen.qfloat(0.4, 1.4, 0.05).map(lambda v: [v] * D), st.lists(gen.qfloat(0.4, 1.4, 0.05), min_size=D, max_size=D))),
        "shift": draw(st.lists(gen.qfloat(-0.4, 0.4, 0.05), min_size=D, max_size=D)),
        "rot": draw(st.one_of(st.just([0.0] * (1 if D == 2 else 3)), st.lists(gen.qfloat(-0.8, 0.8, 0.05), min_size=1 if D == 2 else 3, max_size=1 if D == 2 else 3))),
        "ac": draw(st.booleans()),
    }


@st.composite
def batch_grids(draw, D, N, mixed_ac=False):
    """Per-image grids of one common shape; `mixed_ac`: the images after the first draw their own align_corners flag (the
    batch default used by operations is the flag of the FIRST grid, ImageBatch.align_corners())."""
    kinds = ("identity", "perm", "rotation", "rotation", "rotation", "reflection")
    g0 = draw(gen.grids(D, min_size=GEN_MIN[D], max_size=GEN_MAX[D], mag=100.0, spacing_lo=0.25, spacing_hi=4.0, kinds=kinds))
    grids = [g0]
    same = draw(st.booleans())
    for _ in range(1, N):
        g = draw(gen.grids(D, min_size=GEN_MIN[D], max_size=GEN_MAX[D], mag=100.0, spacing_lo=0.25, spacing_hi=4.0, ac=g0["ac"], kinds=kinds))
        if mixed_ac:
            g["ac"] = draw(st.booleans())
        g["size"] = list(g0["size"])
        if same:
            g["spacing"] = list(g0["spacing"])
        grids.append(g)
    return grids


def make_odd(grids, D, mask):
    """Odd numbers of samples along the axes selected by `mask` (halving them leaves a fractional grid size)."""
    for g in grids:
        g["size"] = [int(n) if (not mask[k] or n % 2 == 1) else (int(n) + 1 if n < GEN_MAX[D] else int(n) - 1) for k, n in enumerate(g["size"])]
    return grids


def slope_lists(D, N):
    one = st.lists(st.sampled_from([-2.0, -1.5, -1.0, -0.5, 0.5, 1.0, 1.5, 2.0]), min_size=D, max_size=D)
    return st.lists(one, min_size=N, max_size=N)


@st.composite
def input_derivations(draw, D):
    how = choice(draw, [None, None, None, None, "downsample", "resample"])
    if how is None:
        return None
    if how == "downsample":
        return {"how": how}
    return {"how": how, "r": draw(st.lists(gen.qfloat(0.6, 1.6, 0.05), min_size=D, max_size=D))}


@st.composite
def chain_cases(draw):
    """Programs over a pool of live objects.  plan 'free': 1-4 random operations, each on the latest or an earlier object;
    plan 'fractional': an operation that leaves a fractional internal grid size (odd sizes) followed by sample() from the
    result or of the original onto the result's grid; plan 'reuse': an operation with a non-zero scalar fill / padding
    constant on the input, whose operand is then used again by one or two further operations."""
    D = draw(gen.dims())
    kind = draw(st.sampled_from(["image", "batch", "batch", "batch", "flowfields", "flowfields", "flowfield"]))
    N = draw(st.integers(1, 3)) if kind in ("batch", "flowfields") else 1
    plan = choice(draw, ["free", "free", "free", "fractional", "reuse", "repeat"])
    mixed_ac = N > 1 and choice(draw, [False, True])
    grids = draw(batch_grids(D, N, mixed_ac=mixed_ac))
    odd = draw(st.lists(st.booleans(), min_size=D, max_size=D))
    if plan == "fractional" and not any(odd):
        odd[draw(st.integers(0, D - 1))] = True
    if plan == "fractional" or draw(st.booleans()):
        make_odd(grids, D, odd)
    share = choice(draw, [None, None, None, "single", "list"]) if N > 1 else None
    if plan == "free":
        n_ops = choice(draw, [1, 2, 2, 3, 3, 4])
        ops = [draw(op_cases(D, kind, position=k)) for k in range(n_ops)]
        derive = draw(input_derivations(D))
    elif plan == "fractional":
        first = draw(op_cases(D, kind, name=choice(draw, FRACTIONAL_MAKERS)))
        if first["op"] != "resample" and draw(st.booleans()):
            first.update(sigma=0, dims=None, min_size=0)
        second = draw(op_cases(D, kind, name="sample", position=1))
        # from the result (chain), or the original / the result ONTO the grid of the other
        second["src"], second["target"]["of"] = choice(draw, [(None, None), (None, None), (0, 1), (0, 1), (None, 0)])
        ops = [first, second] + [draw(op_cases(D, kind, position=2)) for _ in range(draw(st.integers(0, 1)))]
        derive = None
    elif plan == "repeat":
        # the same grid-changing operation applied two or three times in sequence, each time to the previous result
        nm = choice(draw, SIZE_CHANGERS)
        ops = [draw(op_cases(D, kind, name=nm, position=0)) for _ in range(choice(draw, [2, 2, 3]))]
        for o in ops:
            o["src"] = None
        derive = None
    else:
        first = draw(op_cases(D, kind, name=choice(draw, SCALAR_FILL_OPS), force="fill"))
        ops = [first] + [draw(op_cases(D, kind, position=k)) for k in range(1, draw(st.integers(2, 3)))]
        ops[1]["src"] = 0
        derive = draw(input_derivations(D))
    # flow fields: vectors w.r.t. any of the four axes on grids of either flag (the default axes of a grid are only one of the
    # eight combinations), given to the constructor, left to its default, or obtained by flow.axes() from another representation
    axes, via, axes_from = "world", "ctor", "world"
    if kind in ("flowfield", "flowfields"):
        via = choice(draw, ["ctor", "ctor", "convert", "convert", "default"])
        axes = ("cube_corners" if grids[0]["ac"] else "cube") if via == "default" else choice(draw, list(AXES) + ["cube", "cube_corners"])
        axes_from = choice(draw, AXES)
    case = {
        "kind": kind, "D": D, "grids": grids, "C": draw(st.integers(1, 2)),
        "slopes": draw(slope_lists(D, N)), "b0": draw(st.lists(gen.qfloat(-5.0, 5.0, 0.5), min_size=N, max_size=N)),
        "dtype": draw(st.sampled_from(["float32", "float32", "float64"])),
        "ops": ops, "plan": plan, "derive": derive, "share_grid": share,
        "axes": axes, "axes_via": via, "axes_from": axes_from,
        "avoid": [k for k in ("K3", "K4") if KNOWN.active(k)],
    }
    return case


@st.composite
def flow_axes_cases(draw):
    D = draw(gen.dims())
    kind = draw(st.sampled_from(["flowfields", "flowfields", "flowfield"]))
    N = draw(st.integers(1, 3)) if kind == "flowfields" else 1
    op = {"op": "sample", "target": draw(target_specs(D)), "padding": draw(st.sampled_from([None, "border", "zeros"])),
          "mode": draw(st.sampled_from([None, "linear"])), "as_list": draw(st.booleans())}
    return {
        "kind": kind, "D": D, "grids": draw(batch_grids(D, N, mixed_ac=N > 1 and choice(draw, [False, False, True]))), "C": D,
        "axes": draw(st.sampled_from(["grid", "cube", "cube_corners", "world"])),
        "axes_via": choice(draw, ["ctor", "ctor", "convert"]), "axes_from": choice(draw, AXES),
        "slopes": draw(slope_lists(D, N)), "b0": draw(st.lists(gen.qfloat(-5.0, 5.0, 0.5), min_size=N, max_size=N)),
        "dtype": draw(st.sampled_from(["float32", "float64"])), "ops": [op], "avoid": [],
        "derive": draw(input_derivations(D)), "share_grid": choice(draw, [None, None, "list"]) if N > 1 else None,
    }


def run_flow_axes(case):
    res = run_chain(case)
    g0 = case["grids"][0]
    res["nontrivial"] = bool(gen.grid_is_oblique(g0) and gen.grid_is_anisotropic(g0) and case.get("axes") != "world" and res["checked"] > 0)
    return res


FACETS = [
    Facet("ramp_chain", run_chain, strategy=chain_cases,
          rule="Image / ImageBatch(N<=3, distinct grids, common or per-image align_corners flags, or one shared Grid object) / FlowField / "
               "FlowFields (axes world / grid / cube / cube_corners drawn independently of the grid flag, cube axes twice as likely; via "
               "constructor 2/5, flow.axes() from another representation 2/5, constructor default 1/5) with per-image linear "
               "world ramps; program of 1-4 operations over a pool of live objects (plans: free 3/6, fractional-size-then-sample 1/6, "
               "scalar-fill-then-reuse 1/6, same grid-changing operation 2-3 times in sequence 1/6; operand = latest or earlier object; "
               "odd sizes 1/2; derived fractional input grid 1/3) with "
               "relative arguments resolved against the current size; non-trivial = rotated anisotropic grid AND "
               "(N >= 2 or >= 2 applied operations) AND an operation changed the size AND >= 1 sample compared",
          quick=2000, thorough=30000, shards=16, quick_shards=8),
    Facet("flow_sample_axes", run_flow_axes, strategy=flow_axes_cases,
          rule="FlowField(s) whose WORLD vectors are linear in world position, stored w.r.t. grid/cube/cube_corners/world axes (constructor 2/3 or flow.axes() from another "
               "representation 1/3; per-image align_corners flags in 1/3 of the batches), sampled on "
               "one target grid per image (input and target grids also derived with a fractional internal size); expected = "
               "(world -> axes of the TARGET grid) applied to the ramp; non-trivial = rotated anisotropic grid, non-world axes, "
               ">= 1 sample compared",
          quick=400, thorough=6000, shards=8, quick_shards=2),
]
