"""C20 - Gradients reaching parameters and inputs are the true derivatives.

A data-driven TABLE of differentiable entry points (ENTRIES) is probed with one generic oracle
(`check_probe`): scalarise the output with a generated weight tensor, compare the directional
derivative from torch.autograd.grad with central finite differences along generated directions.
"""
from __future__ import annotations

import math

import numpy as np
import torch
from hypothesis import strategies as st

from vlib import gen, ref
from vlib.case import hash_noise, make_grid
from vlib.core import EPS32, EPS64, Facet, Skip, Violation

PROPERTY = "C20"
MANIFEST = {
    "text": "Generated-input search (Hypothesis) over a data-driven table of 271 differentiable entry points: 16 transform "
            "classes x {__call__, grid call, disp, disp on another grid, inverse()(...), points, PointSetTransformer} w.r.t. their "
            "torch.nn.Parameters (generic non-identity values) and w.r.t. the points; ImageTransformer of every class w.r.t. "
            "parameters and image; grid_sample/sample_image/warp_image/Image.sample/ImageBatch.sample/SampleImage/sample_flow/"
            "warp_points/warp_grid (and the FlowFields data API) w.r.t. data, coordinates, flow; expv/ExpFlow, compose_flows, "
            "compose_svfs, lie_bracket, logv; cubic B-spline evaluation (both algorithms, derivatives, kernels) and subdivision; "
            "spatial/flow derivatives (9 modes), jacobian_det/matrix, curl, divergence; Euler/quaternion/angle-axis conversions "
            "and homogeneous helpers; Grid.transform_points(decimals=None)/vectors; 21 similarity/overlap losses and 9 "
            "regularisers of losses.functional; D in {2,3}, grids <= 8 per axis, hash-noise inputs constructed away from "
            "interpolation knots, clamping/reflection borders and |x| / Huber kinks. Oracle: <grad f, d> from "
            "torch.autograd.grad of f = sum(w*out) (generated w) against the central difference along 3 generated directions; "
            "float64 rule (h = 1e-6*scale, rel 1e-5) where the operation preserves float64, float32 rule (h = 1e-2*scale, rel "
            "2e-2) where deepali computes in float32. Also: the output requires grad, gradients are finite, no leaf has an "
            "identically zero gradient while a coarse central difference in that leaf is clearly non-zero (detach / rounding / "
            "integer cast), the output is not locally constant in a leaf, a second forward/backward on the same module gives the "
            "same gradient (fresh graph), autograd in-place errors are violations. Every entry is probed by a seed-independent "
            "floor plus generated cases. Exploration, not proof.",
    "note": "Trusted: nothing of autograd - the reference is the finite difference of the same forward function, whose accuracy "
            "is established per direction by comparing steps h and h/2 and the extrapolated second difference (kink "
            "detector); unreliable directions are dropped and counted, cases without a reliable direction are skipped and "
            "counted. Forward values are not checked here (other properties do). Tolerance: rel*max(|ad|,|fd|) + "
            "8*eps(dtype)*sum|w*out|/h (round-off of the difference quotient). The checker is self-tested on a known-good "
            "composite and on wrong-backward / detach / rounding / integer-cast / in-place / kink / NaN-gradient functions.",
    "technique": "property-based testing (Hypothesis) with a finite-difference derivative oracle over a data-driven table of entry points",
}
ASSUMPTIONS = [
    "inputs are generic (hash noise) and constructed >= 0.05 samples away from interpolation knots / clamping and reflection "
    "borders where the sampling coordinates are inputs; derived sampling positions (transformed grids, scaling-and-squaring "
    "iterates) are generic and protected by the h vs h/2 and second-difference reliability test",
    "mi_loss/nmi_loss are called with explicit vmin/vmax/num_bins (with the defaults the bin centres are taken from the data "
    "through .item(), so autograd differentiates another function than a finite difference perturbs; not a defect)",
    "nearest-neighbour sampling and binarize=True are excluded (piecewise constant by definition)",
    "entries whose differentiated input moves interpolation positions are run in float64 only (module.double()); the float32 "
    "rule is applied where deepali itself computes in float32 (ncc/lcc/wlcc/dice/tversky, disp() of linear transforms, "
    "resampling on Grid objects) and to default float32 Parameters of linear transforms (smooth in their parameters); "
    "disp(other grid) of the two stationary-velocity classes is not generated (float32 step would cross interpolation knots)",
    "grad_loss with an effective exponent q < 1 is not combined with mode forward/backward: the replicate-padded one-sided "
    "difference is identically zero at one border and x**q has an infinite slope there for every input (autograd returns NaN; "
    "recorded as an observation, not asserted)",
    "Grid.transform_points with its documented default decimals rounds (zero gradient by design): recorded, not asserted",
    "cases hitting defects owned by other properties are skipped and counted: tversky_loss TypeError (F11, C16), compose_flows / "
    "logv with N > 1 (F25, C13), elasticity_loss(mode='bspline') shape error (N17-1, C17)",
    "the Image / ImageBatch / FlowFields tensor itself is the optimised leaf of the data-API entries (their constructors create a "
    "new leaf from a plain tensor, like torch.nn.Parameter)",
]

REL64, REL32 = 1e-5, 2e-2
H64, H32 = 1e-6, 1e-2
KNOISE = 8.0
NT_FRACTION = 1e-3  # non-trivial: |fd| >= 1e-3 * sum|w*out| / scale


# =======================================================================================
# generic oracle


class Probe:
    """A differentiable entry point prepared for one case.

    leaves    tensors with requires_grad=True (torch.nn.Parameter of a module or plain inputs)
    evaluate  zero-argument callable computing the output (Tensor | list | dict of tensors) from the
              *current* values of the leaves (modules are called again, so buffers are recomputed)
    scale     natural magnitude of the leaves (step h = H*scale)
    abs_mag   lower bound of |out_i| used in the round-off floor: losses returned as 1 - (ratio <= 1) are computed with
              intermediate values of magnitude 1, so their round-off is relative to 1, not to the (smaller) result
    rule      None: float64 rule iff output and leaves are float64, else float32 rule; "f32" forces the float32 rule
    stateful  evaluate() goes through a torch.nn.Module that keeps buffers: a second forward/backward
              on the same object is required to give the same gradient (optimiser iteration 2)
    """

    def __init__(self, leaves, evaluate, scale, stateful=False, labels=(), record_only=None, rule=None, abs_mag=0.0):
        self.abs_mag = float(abs_mag)  # magnitude of intermediate values when the output is a difference (1 - ratio)
        self.rule = rule  # "f32": the operation computes in float32 internally although it returns the input dtype
        self.leaves = list(leaves)
        self.evaluate = evaluate
        self.scale = float(scale)
        self.stateful = stateful
        self.labels = list(labels)
        self.record_only = record_only


def _tensors(out):
    if isinstance(out, torch.Tensor):
        return [out]
    if isinstance(out, dict):
        return [out[k] for k in sorted(out)]
    return list(out)


def _flat(out) -> torch.Tensor:
    ts = [t.as_subclass(torch.Tensor).reshape(-1) for t in _tensors(out)]
    return ts[0] if len(ts) == 1 else torch.cat(ts)


def noise(shape, key, lo=-1.0, hi=1.0, dtype=torch.float64) -> torch.Tensor:
    return torch.tensor(hash_noise(tuple(shape), int(key), lo, hi), dtype=dtype)


def _weights(n: int, key: int) -> torch.Tensor:
    """Generated fixed weights in +-[0.25, 1] (bounded away from zero so that no output is ignored)."""
    u = hash_noise((n,), key * 7 + 1, -1.0, 1.0)
    return torch.tensor(np.sign(u) * (0.25 + 0.75 * np.abs(u)) + (u == 0), dtype=torch.float64)


def _directions(leaves, key: int):
    """Three generated directions with max|d| = 1: two dense, one supported on ~30 % of the entries of one leaf."""
    dirs = []
    for k in range(3):
        ds = [noise(p.shape, key * 13 + 101 * k + 7 * i + 3) for i, p in enumerate(leaves)]
        if k == 2:
            j = (key + 1) % len(leaves)
            m = noise(leaves[j].shape, key * 17 + 5, 0.0, 1.0) < 0.3
            if not bool(m.any()):
                m.reshape(-1)[(key // 3) % m.numel()] = True
            ds = [d * m if i == j else torch.zeros_like(d) for i, d in enumerate(ds)]
        mx = max(float(d.abs().max()) for d in ds)
        dirs.append([d / mx for d in ds])
    return dirs


_INPLACE = "modified by an inplace operation"
_TWICE = "backward through the graph a second time"


def _backward(entry, s, leaves):
    try:
        return torch.autograd.grad(s, leaves, allow_unused=True)
    except RuntimeError as e:  # only the two documented autograd failure modes are property violations
        msg = str(e)
        if _INPLACE in msg:
            raise Violation(f"inplace_modification:{entry}", msg[:300])
        if _TWICE in msg:
            raise Violation(f"stale_graph:{entry}", msg[:300])
        raise


class _Eval:
    def __init__(self, probe: Probe, w: torch.Tensor):
        self.p = probe
        self.w = w
        self.base = [leaf.detach().clone() for leaf in probe.leaves]

    def set(self, t: float, d):
        with torch.no_grad():
            for leaf, b, di in zip(self.p.leaves, self.base, d):
                leaf.copy_(b + t * di.to(b.dtype))

    def __call__(self, t: float, d) -> float:
        self.set(t, d)
        with torch.no_grad():
            o = _flat(self.p.evaluate())
            value = float((self.w * o.double()).sum())  # before the leaves are restored: `o` may alias a leaf
        self.set(0.0, d)
        return value


def check_probe(entry: str, probe: Probe, key: int) -> dict:
    leaves = probe.leaves
    out = _flat(probe.evaluate())
    labels = [entry] + probe.labels
    if not out.is_floating_point():
        raise Violation(f"output_not_float:{entry}", f"output dtype {out.dtype}")
    if not out.requires_grad:
        if probe.record_only:
            return {"nontrivial": False, "labels": labels + [f"{probe.record_only}:no_grad_path"]}
        raise Violation(f"no_grad_path:{entry}", "output does not require grad although an input/parameter does")
    if not bool(torch.isfinite(out).all()):
        raise Violation(f"output_nonfinite:{entry}", "forward value is not finite")
    f64 = out.dtype == torch.float64 and all(p.dtype == torch.float64 for p in leaves) and probe.rule != "f32"
    eps, rel, h = (EPS64, REL64, H64 * probe.scale) if f64 else (EPS32, REL32, H32 * probe.scale)
    labels.append("rule=f64" if f64 else "rule=f32")
    w = _weights(out.numel(), key)
    s = (w.to(out.dtype) * out).sum()
    fmag = float((w.abs() * out.detach().double().abs().clamp_min(probe.abs_mag)).sum())
    grads = _backward(entry, s, leaves)
    grads = [torch.zeros_like(p) if g is None else g.detach().clone() for g, p in zip(grads, leaves)]
    if probe.record_only:
        z = all(float(g.abs().max()) == 0.0 for g in grads)
        return {"nontrivial": False, "labels": labels + [f"{probe.record_only}:{'grad_zero' if z else 'grad_nonzero'}"]}
    for i, g in enumerate(grads):
        if not bool(torch.isfinite(g).all()):
            raise Violation(f"grad_nonfinite:{entry}", f"gradient w.r.t. leaf {i} has non-finite entries (finite forward value)")
    F = _Eval(probe, w)
    unit = fmag / probe.scale  # natural unit of a directional derivative
    f0 = F(0.0, [torch.zeros_like(p) for p in leaves])

    # -- leaves whose gradient is identically zero: does the function depend on them at all?
    for i, g in enumerate(grads):
        if float(g.abs().max()) != 0.0:
            continue
        d = [noise(p.shape, key * 19 + 11) if j == i else torch.zeros_like(p) for j, p in enumerate(leaves)]
        d = [x / max(1e-30, float(d[i].abs().max())) for x in d]
        hc = 1e-3 * probe.scale if f64 else h
        vals = [F(hc, d), F(-hc, d), F(hc / 2, d), F(-hc / 2, d)]
        if all(v == f0 for v in vals):
            raise Violation(f"locally_constant:{entry}",
                            f"the scalarised output is bitwise unchanged by perturbations of +-{hc:.3g} and half of it of leaf {i} "
                            "(and its gradient is identically zero): the operation is locally constant in an input it is meant to "
                            "be optimised through")
        c1, c2 = (vals[0] - vals[1]) / (2 * hc), (vals[2] - vals[3]) / hc
        floor = 10 * KNOISE * eps * fmag / hc + NT_FRACTION * unit
        if abs(c1) > floor and abs(c2) > floor and c1 * c2 > 0 and 0.5 < abs(c1 / c2) < 2.0:
            raise Violation(f"zero_gradient:{entry}",
                            f"gradient w.r.t. leaf {i} is identically zero but the central difference along a direction in that "
                            f"leaf is {c1:.6g} (step {hc:.3g}) / {c2:.6g} (step {hc / 2:.3g})")

    worst, nontrivial, used = 0.0, False, 0
    for k, d in enumerate(_directions(leaves, key)):
        ad = float(sum((g.double() * di).sum() for g, di in zip(grads, d)))
        fp, fm, fp2, fm2 = F(h, d), F(-h, d), F(h / 2, d), F(-h / 2, d)
        c1, c2 = (fp - fm) / (2 * h), (fp2 - fm2) / h
        j1, j2 = (fp - 2 * f0 + fm) / h, (fp2 - 2 * f0 + fm2) / (h / 2)
        floor = KNOISE * eps * fmag / h
        tol = rel * max(abs(ad), abs(c1), abs(c2)) + floor
        if abs(c1 - c2) > tol or abs(2 * j2 - j1) > tol + 4 * floor:
            labels.append(f"fd_unreliable:{entry}")
            continue
        used += 1
        err = abs(ad - c2)
        if err > tol:
            kind = "zero_gradient" if all(float(g.abs().max()) == 0.0 for g in grads) else "grad_mismatch"
            raise Violation(f"{kind}:{entry}",
                            f"direction {k}: autograd {ad:.9g} vs central difference {c2:.9g} (h/2) / {c1:.9g} (h={h:.3g}); "
                            f"|delta|={err:.3g} > tol {tol:.3g} (rel {rel:g}, floor {floor:.3g}, rule {'f64' if f64 else 'f32'})")
        worst = max(worst, err / tol)
        nontrivial = nontrivial or abs(c2) >= NT_FRACTION * unit
    if used == 0:
        raise Skip(f"fd_unreliable:{entry}")

    if probe.stateful:
        out2 = _flat(probe.evaluate())
        if not out2.requires_grad:
            raise Violation(f"no_grad_path_second_call:{entry}", "second forward on the same module lost the graph")
        g2 = _backward(entry, (w.to(out2.dtype) * out2).sum(), leaves)
        for i, (a, b) in enumerate(zip(grads, g2)):
            b = torch.zeros_like(a) if b is None else b
            m = float(a.abs().max())
            if float((a - b).abs().max()) > 64 * eps * max(m, 1e-30) * max(1.0, math.sqrt(a.numel())):
                raise Violation(f"second_backward_differs:{entry}",
                                f"leaf {i}: gradient of a second forward/backward on the same module differs by "
                                f"{float((a - b).abs().max()):.3g} (max |g| {m:.3g})")
    return {"ratio": worst, "nontrivial": nontrivial, "labels": labels}


# =======================================================================================
# self-test of the checker


class _WrongSin(torch.autograd.Function):
    @staticmethod
    def forward(ctx, x):
        ctx.save_for_backward(x)
        return x.sin()

    @staticmethod
    def backward(ctx, g):
        (x,) = ctx.saved_tensors
        return g * x.cos() * 1.001


def _expect(kind_prefix, fn):
    try:
        fn()
    except Violation as v:
        assert v.kind.startswith(kind_prefix), f"expected {kind_prefix}, got {v.kind}"
        return
    except Skip as s:
        assert kind_prefix == "skip", f"expected {kind_prefix}, got Skip({s.reason})"
        return
    raise AssertionError(f"checker did not report {kind_prefix}")


def selftest():
    def leaf(key, dtype=torch.float64, shape=(3, 4)):
        return noise(shape, key, -1.0, 1.0, dtype).requires_grad_(True)

    for dt in (torch.float64, torch.float32):
        x, y = leaf(1, dt), leaf(2, dt)
        r = check_probe("good", Probe([x, y], lambda: (torch.sin(x * y) + x.exp().cumsum(1) * y).tanh(), 1.0), 5)
        assert r["ratio"] < 0.5 and r["nontrivial"], r
    x = leaf(3)
    _expect("grad_mismatch", lambda: check_probe("t", Probe([x], lambda: _WrongSin.apply(x) * 2, 1.0), 1))
    x32 = leaf(3, torch.float32)

    class _W2(torch.autograd.Function):
        @staticmethod
        def forward(ctx, x):
            ctx.save_for_backward(x)
            return x.sin()

        @staticmethod
        def backward(ctx, g):
            return g * ctx.saved_tensors[0].cos() * 1.1

    _expect("grad_mismatch", lambda: check_probe("t", Probe([x32], lambda: _W2.apply(x32), 1.0), 1))
    x, y = leaf(4), leaf(5)
    _expect("zero_gradient", lambda: check_probe("t", Probe([x, y], lambda: x.detach() * y + y, 1.0), 2))
    _expect("zero_gradient", lambda: check_probe("t", Probe([x], lambda: (torch.round(x * 1e6) / 1e6).sin(), 1.0), 2))
    _expect("no_grad_path", lambda: check_probe("t", Probe([x], lambda: x.detach().sin(), 1.0), 2))
    _expect("locally_constant", lambda: check_probe("t", Probe([x, y], lambda: torch.round(x) * y, 1.0), 2))
    _expect("locally_constant", lambda: check_probe("t", Probe([x], lambda: x.long().double() + 0 * x, 1.0), 2))

    _expect("crash_or_inplace", lambda: _inplace_probe(x))
    z = torch.zeros(3, 4, dtype=torch.float64).requires_grad_(True)
    _expect("skip", lambda: check_probe("t", Probe([z], lambda: z.abs() + z, 1.0), 2))
    _expect("grad_nonfinite", lambda: check_probe("t", Probe([z], lambda: torch.where(z > 1, z.sqrt(), z * 0 + 1) * (z + 1), 1.0), 2))


def _inplace_probe(x):
    def f():
        z = x.exp()
        y = z * z  # needs z for backward
        z.mul_(2.0)
        return y

    try:
        check_probe("t", Probe([x], f, 1.0), 2)
    except Violation as v:
        assert v.kind.startswith("inplace_modification"), v.kind
        raise Violation("crash_or_inplace", "")



# =======================================================================================
# shared construction helpers (all content is a closed-form function of integers in the case)


def cube_axis(n: int, ac: bool) -> np.ndarray:
    i = np.arange(n, dtype=np.float64)
    return 2 * i / (n - 1) - 1 if ac else (2 * i + 1) / n - 1


def index_to_cube(idx: np.ndarray, size_xyz, ac: bool) -> np.ndarray:
    """Index coordinates (..., D) in (x, y, z) order -> normalised cube coordinates of a grid of that size."""
    n = np.asarray(size_xyz, dtype=np.float64)
    return 2 * idx / (n - 1) - 1 if ac else (2 * idx + 1) / n - 1


def safe_index_coords(lead, size_xyz, key: int, outside: bool = False) -> np.ndarray:
    """Generic index coordinates of shape lead + (D,), every coordinate >= 0.05 samples away from the
    interpolation knots (integers), from half-integers (reflection borders of align_corners=False) and
    therefore from the clamping borders; inside [0, n-1], except that with `outside` about 30 % of the
    coordinates (never those of the first point) lie up to 2 samples beyond the borders."""
    D = len(size_xyz)
    sh = tuple(lead) + (D,)
    u, v = hash_noise(sh, key * 3 + 1, 0.0, 1.0), hash_noise(sh, key * 3 + 2, 0.0, 1.0)
    n = np.asarray(size_xyz, dtype=np.float64)
    cell = np.minimum(np.floor(u * (n - 1)), n - 2)
    if outside:
        ext = np.minimum(np.floor(hash_noise(sh, key * 3 + 4, 0.0, 1.0) * (n + 3)), n + 2) - 2.0
        m = hash_noise(sh, key * 3 + 5, 0.0, 1.0) < 0.3
        m.reshape(-1, D)[0] = False
        cell = np.where(m, ext, cell)
    frac = np.where(v < 0.5, 0.05 + 0.8 * v, 0.55 + 0.8 * (v - 0.5))
    return cell + frac


def grid_index_coords(shape) -> np.ndarray:
    """Index coordinates of the samples of a grid with tensor shape (..., X): array shape + (D,), (x, ...) order."""
    axes = [np.arange(n, dtype=np.float64) for n in shape]
    mesh = np.meshgrid(*axes, indexing="ij")
    return np.stack(mesh[::-1], axis=-1)


def monotone_field(N: int, C: int, shape, key: int, lo: float, hi: float) -> torch.Tensor:
    """u[n, c](x) = sum_k A[n, c, k][x_k] with strictly monotone 1-D sequences A (increments of magnitude in
    [lo, hi], one sign per sequence): every forward/central/backward difference has magnitude >= lo."""
    D = len(shape)
    out = np.zeros((N, C) + tuple(shape))
    for k, n in enumerate(shape):
        inc = hash_noise((N, C, n), key * 5 + k, lo, hi)
        sgn = np.where(hash_noise((N, C, 1), key * 7 + k + 11, -1.0, 1.0) < 0, -1.0, 1.0)
        seq = np.cumsum(inc * sgn, axis=-1)
        sh = [N, C] + [1] * D
        sh[2 + k] = n
        out = out + seq.reshape(sh)
    return torch.tensor(out, dtype=torch.float64)


def _leaf(t: torch.Tensor) -> torch.Tensor:
    return t.detach().clone().requires_grad_(True)


@st.composite
def small_shapes(draw, D, lo=4, hi2=8, hi3=6):
    return draw(st.lists(st.integers(lo, hi2 if D == 2 else hi3), min_size=D, max_size=D))


def small_grids(D, ac=None):
    return gen.grids(D, min_size=4, max_size=8 if D == 2 else 6, mag=50.0, spacing_lo=0.2, spacing_hi=5.0, ac=ac)


# =======================================================================================
# facet 1: spatial transforms w.r.t. their Parameters and w.r.t. points

LINEAR = ["Translation", "EulerRotation", "QuaternionRotation", "IsotropicScaling", "AnisotropicScaling", "Shearing",
          "HomogeneousTransform", "RigidTransform", "RigidQuaternionTransform", "SimilarityTransform", "AffineTransform",
          "FullAffineTransform"]
NONRIGID = ["DisplacementFieldTransform", "StationaryVelocityFieldTransform", "FreeFormDeformation",
            "StationaryVelocityFreeFormDeformation"]
ONLY3D = ("QuaternionRotation", "RigidQuaternionTransform")
NO_INVERSE = ("DisplacementFieldTransform", "FreeFormDeformation")
SVF = ("StationaryVelocityFieldTransform", "StationaryVelocityFreeFormDeformation")
BSPLINE = ("FreeFormDeformation", "StationaryVelocityFreeFormDeformation")
METHODS = ["call", "call_grid", "disp", "disp_other", "inverse_call", "points.params", "points.points", "pointset.params", "pointset.points"]

# disp_other resamples through Grid objects (float32 coordinates -> float32 rule with its large step): only for the
# classes whose displacement is smooth (linear) in the parameters; the SVF classes are covered by disp (float64)
TRANSFORM_ENTRIES = [f"{c}.{m}" for c in LINEAR + NONRIGID for m in METHODS
                     if not (m == "inverse_call" and c in NO_INVERSE) and not (m == "disp_other" and c in SVF)]


def _param(shape, key, lo, hi, dtype):
    return torch.nn.Parameter(noise(shape, key, lo, hi, dtype))


def _elementary(kind: str, N: int, D: int, key: int, dtype):
    """Generic non-identity parameter values of the elementary linear transforms."""
    na = 1 if D == 2 else 3
    if kind == "translation":
        return _param((N, D), key + 1, -0.3, 0.3, dtype)
    if kind == "euler":  # angles = tanh(p) * pi
        return _param((N, na), key + 2, -0.4, 0.4, dtype)
    if kind == "quaternion":
        q = noise((N, 4), key + 3, -0.6, 0.6, dtype)
        q[:, 0] = q[:, 0].abs() + 0.5
        return torch.nn.Parameter(q)
    if kind == "iso":  # scale = exp(tanh(p - 1))
        return _param((N, 1), key + 4, 0.6, 1.4, dtype)
    if kind == "aniso":
        return _param((N, D), key + 5, 0.6, 1.4, dtype)
    if kind == "shear":  # angles = tanh(p) * pi / 4
        return _param((N, na), key + 6, -0.5, 0.5, dtype)
    raise KeyError(kind)


def build_transform(cls: str, grid, case):
    import deepali.spatial as S

    D, N, key = grid.ndim, case["N"], case["key"]
    dt = torch.float64 if case["dtype"] == "float64" else torch.float32
    T = getattr(S, cls)
    if cls == "Translation":
        t = T(grid, params=_elementary("translation", N, D, key, dt))
    elif cls == "EulerRotation":
        t = T(grid, params=_elementary("euler", N, D, key, dt), order=case.get("order"))
    elif cls == "QuaternionRotation":
        t = T(grid, params=_elementary("quaternion", N, D, key, dt))
    elif cls == "IsotropicScaling":
        t = T(grid, params=_elementary("iso", N, D, key, dt))
    elif cls == "AnisotropicScaling":
        t = T(grid, params=_elementary("aniso", N, D, key, dt))
    elif cls == "Shearing":
        t = T(grid, params=_elementary("shear", N, D, key, dt))
    elif cls == "HomogeneousTransform":
        m = torch.eye(D, D + 1, dtype=dt).unsqueeze(0).repeat(N, 1, 1) + noise((N, D, D + 1), key + 7, -0.2, 0.2, dt)
        t = T(grid, params=torch.nn.Parameter(m))
    elif cls == "RigidTransform":
        t = T(grid, rotation=_elementary("euler", N, D, key, dt), translation=_elementary("translation", N, D, key, dt))
    elif cls == "RigidQuaternionTransform":
        t = T(grid, rotation=_elementary("quaternion", N, D, key, dt), translation=_elementary("translation", N, D, key, dt))
    elif cls == "SimilarityTransform":
        t = T(grid, scaling=_elementary("iso", N, D, key, dt), rotation=_elementary("euler", N, D, key, dt),
              translation=_elementary("translation", N, D, key, dt))
    elif cls == "AffineTransform":
        t = T(grid, scaling=_elementary("aniso", N, D, key, dt), rotation=_elementary("euler", N, D, key, dt),
              translation=_elementary("translation", N, D, key, dt))
    elif cls == "FullAffineTransform":
        t = T(grid, scaling=_elementary("aniso", N, D, key, dt), shearing=_elementary("shear", N, D, key, dt),
              rotation=_elementary("euler", N, D, key, dt), translation=_elementary("translation", N, D, key, dt))
    elif cls in ("DisplacementFieldTransform", "StationaryVelocityFieldTransform"):
        kw = {"stride": case["stride"]} if case["stride"] != 1 else {}
        if cls in SVF:
            kw.update(steps=case["steps"], scale=case["vscale"])
        t = T(grid, groups=N, params=True, **kw)
        a = case["amp"]
        t.params = torch.nn.Parameter(noise((N,) + tuple(t.data_shape), key + 8, -a, a, dt))
    else:  # cubic B-spline
        kw = dict(stride=case["ffd_stride"], transpose=case["transpose"])
        if cls in SVF:
            kw.update(steps=case["steps"], scale=case["vscale"])
        t = T(grid, groups=N, params=True, **kw)
        a = case["amp"]
        t.params = torch.nn.Parameter(noise((N,) + tuple(t.data_shape), key + 9, -a, a, dt))
    if dt == torch.float64:
        t = t.double()
    return t


@st.composite
def transform_cases(draw, entry=None):
    entry = entry or draw(st.sampled_from(TRANSFORM_ENTRIES))
    cls, method = entry.split(".", 1)
    D = 3 if cls in ONLY3D else draw(gen.dims())
    g = draw(small_grids(D, ac=True if cls in BSPLINE else None))
    # float32 (default Parameter dtype) only where the map is smooth in the parameters AND well conditioned in float32:
    # cube coordinates |x| <= 1; world/index coordinates of points go through (x - origin) / spacing cancellation
    smooth = cls in LINEAR and method in ("call", "call_grid", "disp", "inverse_call")
    case = {
        "entry": entry, "D": D, "grid": g, "N": draw(st.integers(1, 2)), "key": draw(st.integers(0, 10 ** 6)),
        "M": draw(st.integers(1, 5)), "dtype": draw(st.sampled_from(["float64", "float64", "float32"])) if smooth else "float64",
        "amp": draw(gen.qfloat(0.05, 0.4, 0.01)), "stride": draw(st.sampled_from([1, 1, 2])),
        "steps": draw(st.integers(1, 5)), "vscale": draw(st.sampled_from([None, 0.5, 1.0, 2.0])),
        "ffd_stride": draw(st.sampled_from([2, 3, 5])), "transpose": draw(st.booleans()),
        "order": draw(st.sampled_from([None, "XYZ", "ZYX", "ZXY", "XZX", "ZXZ", "YXZ", "XYX"])),
        "axes": draw(st.sampled_from(["world", "grid", "cube", "cube_corners"])),
        "to_axes": draw(st.sampled_from(["world", "grid", "cube", "cube_corners"])),
        "other": draw(st.booleans()), "batch_points": draw(st.booleans()),
        "disp_grid": draw(st.sampled_from(["resized", "other_ac", "subdomain"])),
    }
    if case["other"]:
        case["grid2"] = draw(small_grids(D))
    return case


def build_transform_probe(case) -> Probe:
    import deepali.spatial as S
    from deepali.core import Axes

    cls, method = case["entry"].split(".", 1)
    g = case["grid"]
    grid = make_grid(g)
    D, N, key, M = case["D"], case["N"], case["key"], case["M"]
    t = build_transform(cls, grid, case)
    params = list(t.parameters())
    dt = params[0].dtype
    m = ref.GridModel.from_desc(g)
    size = list(g["size"])
    labels = [f"D={D}", f"N={N}", f"T={cls}", f"m={method}", case["dtype"]]
    if cls in SVF:
        labels.append(f"steps={case['steps']}")
    NP = N if case["batch_points"] else 1
    idx = safe_index_coords((NP, M), size, key + 21)
    pscale = 0.3 if cls in LINEAR else case["amp"]
    if method == "call":
        x = torch.tensor(index_to_cube(idx, size, g["ac"]), dtype=dt)
        return Probe(params, lambda: t(x), pscale, stateful=True, labels=labels)
    if method == "call_grid":
        x = grid.coords(dtype=dt).unsqueeze(0)
        return Probe(params, lambda: t(x, grid=True), pscale, stateful=True, labels=labels)
    if method == "disp":
        return Probe(params, lambda: t.update().disp(), pscale, stateful=True, labels=labels)
    if method == "disp_other":  # displacement field sampled on another grid
        kind = case["disp_grid"]
        if kind == "resized":
            dg = grid.resize([n + 1 + (i % 2) for i, n in enumerate(size)])
        elif kind == "other_ac":
            dg = make_grid(dict(g, ac=not g["ac"]))
        else:  # sub-domain: same centre and orientation, fewer samples of 0.8 x the spacing
            dg = make_grid(dict(g, size=[max(3, n - 1 - (i % 2)) for i, n in enumerate(size)], spacing=[0.8 * v for v in g["spacing"]]))
        labels.append(f"disp_grid={kind}")
        # resampling on a Grid object uses its float32 coordinates: float32 rule
        return Probe(params, lambda: t.update().disp(dg), pscale, stateful=True, labels=labels, rule="f32")
    if method == "inverse_call":
        x = torch.tensor(index_to_cube(idx, size, g["ac"]), dtype=dt)
        return Probe(params, lambda: t.inverse()(x), pscale, stateful=True, labels=labels)
    # points / pointset: coordinates given w.r.t. (grid_a, axes) and returned w.r.t. (grid_b, to_axes)
    ga, ma = (make_grid(case["grid2"]), ref.GridModel.from_desc(case["grid2"])) if case["other"] else (grid, m)
    axes, to_axes = case["axes"], case["to_axes"]
    labels += [f"{axes}->{to_axes}", f"other={case['other']}"]
    pts = m.points(idx, "grid", axes, ma)  # generic w.r.t. the knots of the transform's own grid
    x = torch.tensor(pts, dtype=dt)
    wrt = method.split(".")[1]
    kw = dict(axes=Axes(axes), to_axes=Axes(to_axes))
    if case["other"]:
        kw.update(grid=ga, to_grid=ga)
    if method.startswith("points."):
        def fn(p):
            t.update()
            return t.points(p, **kw)
    else:
        pst = S.PointSetTransformer(t, **kw)
        if dt == torch.float64:
            pst = pst.double()

        def fn(p):
            return pst(p)
    if wrt == "params":
        return Probe(params, lambda: fn(x), pscale, stateful=True, labels=labels)
    xl = _leaf(x)
    xs = float(np.abs(ma.matrix("grid", axes)[:, : D]).max()) if axes != "grid" else 1.0  # one sample in units of `axes`
    return Probe([xl], lambda: fn(xl), xs, stateful=True, labels=labels)


def run_transforms(case):
    return check_probe(case["entry"], build_transform_probe(case), case["key"])




# =======================================================================================
# facet 2: ImageTransformer w.r.t. transform parameters and w.r.t. the image

IT_ENTRIES = [f"ImageTransformer[{c}].{w}" for c in LINEAR + NONRIGID for w in ("params", "image")]


@st.composite
def image_transformer_cases(draw, entry=None):
    entry = entry or draw(st.sampled_from(IT_ENTRIES))
    cls = entry[entry.index("[") + 1: entry.index("]")]
    D = 3 if cls in ONLY3D else draw(gen.dims())
    g = draw(small_grids(D, ac=True if cls in BSPLINE else None))
    case = {
        "entry": entry, "D": D, "grid": g, "N": draw(st.integers(1, 2)), "key": draw(st.integers(0, 10 ** 6)), "dtype": "float64",
        "amp": draw(gen.qfloat(0.05, 0.3, 0.01)), "stride": draw(st.sampled_from([1, 1, 2])), "steps": draw(st.integers(1, 4)),
        "vscale": draw(st.sampled_from([None, 0.5, 1.0])), "ffd_stride": draw(st.sampled_from([2, 3])),
        "transpose": draw(st.booleans()), "order": draw(st.sampled_from([None, "XYZ", "ZXZ", "YXZ"])),
        "C": draw(st.integers(1, 2)), "padding": draw(st.sampled_from(["border", "zeros", "reflect", 0.5])),
        "source": draw(st.sampled_from(["same", "same", "other"])), "NI": draw(st.sampled_from(["N", "one"])),
    }
    if case["source"] == "other":
        case["grid2"] = draw(small_grids(D))
    return case


def build_image_transformer_probe(case) -> Probe:
    import deepali.spatial as S

    entry = case["entry"]
    cls = entry[entry.index("[") + 1: entry.index("]")]
    wrt = entry.rsplit(".", 1)[1]
    g = case["grid"]
    grid = make_grid(g)
    t = build_transform(cls, grid, case)
    if case["source"] == "other":  # source image on a grid of another size covering about the same region
        g2 = dict(g, size=list(case["grid2"]["size"]), ac=g["ac"])
        g2["spacing"] = [s * n / n2 for s, n, n2 in zip(g["spacing"], g["size"], g2["size"])]
        source = make_grid(g2)
    else:
        source = grid
    it = S.ImageTransformer(t, source=source, padding=case["padding"]).double()
    N = case["N"] if case["NI"] == "N" else 1
    img = noise((N, case["C"]) + tuple(source.shape), case["key"] + 31, 0.0, 1.0)
    labels = [f"D={case['D']}", f"T={cls}", f"wrt={wrt}", f"pad={case['padding']}", f"source={case['source']}"]
    if wrt == "params":
        return Probe(list(t.parameters()), lambda: it(img), 0.3 if cls in LINEAR else case["amp"], stateful=True, labels=labels)
    x = _leaf(img)
    return Probe([x], lambda: it(x), 1.0, stateful=True, labels=labels)


def run_image_transformer(case):
    return check_probe(case["entry"], build_image_transformer_probe(case), case["key"])


# =======================================================================================
# facet 3: sampling functions w.r.t. data, coordinates and flow

SAMPLING_ENTRIES = ["grid_sample.data", "grid_sample.coords", "sample_image.data", "sample_image.coords", "warp_image.data",
                    "warp_image.flow", "warp_image.grid", "Image.sample.data", "Image.sample.coords", "ImageBatch.sample.coords",
                    "sample_flow.flow", "sample_flow.coords", "warp_points.flow", "warp_points.coords", "warp_grid.flow",
                    "SampleImage.data", "SampleImage.coords", "grid_reshape.data", "Image.sample_grid.data",
                    "ImageBatch.sample_grid.data", "FlowFields.exp.data", "FlowFields.warp_image.flow", "FlowFields.warp_image.image"]


@st.composite
def sampling_cases(draw, entry=None):
    entry = entry or draw(st.sampled_from(SAMPLING_ENTRIES))
    D = draw(gen.dims())
    return {
        "entry": entry, "D": D, "shape": draw(small_shapes(D, 3)), "oshape": draw(small_shapes(D, 2, 5, 4)),
        "N": draw(st.integers(1, 2)), "C": draw(st.integers(1, 3)), "ac": draw(st.booleans()),
        "padding": draw(st.sampled_from(["border", "zeros", "reflect", 0.5, None])), "key": draw(st.integers(0, 10 ** 6)),
        "outside": draw(st.booleans()), "bcast": draw(st.sampled_from(["both", "data1", "grid1"])),
    }


def build_sampling_probe(case) -> Probe:
    from deepali.core import Grid
    from deepali.core import functional as U
    from deepali.data import Image, ImageBatch
    from deepali.modules import SampleImage

    entry, D, shape, key, ac = case["entry"], case["D"], tuple(case["shape"]), case["key"], case["ac"]
    fn, wrt = entry.rsplit(".", 1)
    size = shape[::-1]
    N, C = case["N"], case["C"]
    ND = 1 if case["bcast"] == "data1" else N  # batch size of the data
    NG = 1 if case["bcast"] == "grid1" else N  # batch size of the coordinates
    pad = case["padding"]
    kw = dict(align_corners=ac) if pad is None else dict(padding=pad, align_corners=ac)
    oshape = tuple(case["oshape"])
    labels = [f"D={D}", f"ac={ac}", f"pad={pad}", f"bcast={case['bcast']}", f"outside={case['outside']}"]
    data = noise((ND, C) + shape, key + 41, 0.0, 1.0)
    one = 2.0 / (min(size) - (1 if ac else 0))  # one sample in cube units (coarsest estimate)

    def coords(lead, k=0):
        return torch.tensor(index_to_cube(safe_index_coords(lead, size, key + 43 + k, case["outside"]), size, ac), dtype=torch.float64)

    if fn == "grid_sample":
        x = coords((NG,) + oshape)
        if wrt == "data":
            d = _leaf(data)
            return Probe([d], lambda: U.grid_sample(d, x, **kw), 1.0, labels=labels)
        x = _leaf(x)
        return Probe([x], lambda: U.grid_sample(data, x, **kw), one, labels=labels)
    if fn == "sample_image":
        x = coords((NG, 5))
        if wrt == "data":
            d = _leaf(data)
            return Probe([d], lambda: U.sample_image(d, x, **kw), 1.0, labels=labels)
        x = _leaf(x)
        return Probe([x], lambda: U.sample_image(data, x, **kw), one, labels=labels)
    if fn == "warp_image":
        # sampled positions grid + flow are constructed; the grid is the regular one of the output shape
        tgt = coords((NG,) + oshape)
        g0 = Grid(shape=oshape, align_corners=ac).coords(align_corners=ac, dtype=torch.float64)
        g0 = g0.unsqueeze(0).expand((NG,) + tuple(g0.shape))
        flow = tgt - g0
        if wrt == "data":
            d = _leaf(data)
            return Probe([d], lambda: U.warp_image(d, g0, flow=flow, **kw), 1.0, labels=labels)
        if wrt == "flow":
            f = _leaf(flow)
            return Probe([f], lambda: U.warp_image(data, g0, flow=f, **kw), one, labels=labels)
        gl = _leaf(tgt)
        return Probe([gl], lambda: U.warp_image(data, gl, **kw), one, labels=labels)
    if fn in ("Image.sample", "ImageBatch.sample"):
        grid = Grid(shape=shape, align_corners=ac)
        kw2 = {} if pad is None else dict(padding=pad)
        if fn == "Image.sample":
            x = coords((5,))
            if wrt == "data":  # the Image tensor itself is the optimised leaf
                im = Image(data[0], grid, requires_grad=True)
                return Probe([im], lambda: im.sample(x, **kw2), 1.0, labels=labels)
            im = Image(data[0], grid)
            x = _leaf(x)
            return Probe([x], lambda: im.sample(x, **kw2), one, labels=labels)
        x = _leaf(coords((NG, 5)))
        ib = ImageBatch(data, grid)
        return Probe([x], lambda: ib.sample(x, **kw2), one, labels=labels)
    if fn in ("Image.sample_grid", "ImageBatch.sample_grid"):  # resampling on another Grid (data tensor API)
        grid = Grid(shape=shape, align_corners=ac)
        other = grid.resize([n + 1 for n in oshape[::-1]])
        kw2 = {} if pad is None else dict(padding=pad)
        if fn == "Image.sample_grid":
            im = Image(data[0], grid, requires_grad=True)
            return Probe([im], lambda: im.sample(other, **kw2), 1.0, labels=labels, rule="f32")
        ib = ImageBatch(data, grid, requires_grad=True)
        return Probe([ib], lambda: ib.sample(other, **kw2), 1.0, labels=labels, rule="f32")
    if fn in ("FlowFields.exp", "FlowFields.warp_image"):
        from deepali.data import FlowFields

        grid = Grid(shape=shape, align_corners=ac)
        a = 0.3
        flow = noise((ND, D) + shape, key + 47, -a, a)
        if fn == "FlowFields.exp":
            ff = FlowFields(flow, grid, requires_grad=True)
            return Probe([ff], lambda: ff.exp(steps=3), a, labels=labels)
        img = ImageBatch(noise((ND, C) + shape, key + 48, 0.0, 1.0), grid, requires_grad=wrt == "image")
        ff = FlowFields(flow, grid, requires_grad=wrt == "flow")
        return Probe([ff if wrt == "flow" else img], lambda: ff.warp_image(img), a if wrt == "flow" else 1.0, labels=labels)
    if fn in ("sample_flow", "warp_points", "warp_grid"):
        a = 0.3
        flow = noise((ND, D) + shape, key + 47, -a, a)
        kwf = dict(align_corners=ac)
        if fn == "warp_grid":
            x = Grid(shape=oshape, align_corners=ac).coords(align_corners=ac, dtype=torch.float64).unsqueeze(0)
            f = _leaf(flow)
            return Probe([f], lambda: U.warp_grid(f, x, **kwf), a, labels=labels)
        x = coords((NG, 5))
        call = U.sample_flow if fn == "sample_flow" else U.warp_points
        if wrt == "flow":
            f = _leaf(flow)
            return Probe([f], lambda: call(f, x, **kwf), a, labels=labels)
        x = _leaf(x)
        return Probe([x], lambda: call(flow, x, **kwf), one, labels=labels)
    if fn == "SampleImage":
        target = Grid(shape=oshape, align_corners=ac)
        source = Grid(shape=shape, align_corners=ac)
        mod = SampleImage(target, source, **({} if pad is None else dict(padding=pad))).double()
        # the module maps target cube coordinates to the source cube: construct them from source index coordinates
        idx = safe_index_coords((NG,) + oshape, size, key + 53, case["outside"])
        src = index_to_cube(idx, size, ac)
        M = mod.matrix[0].numpy()  # (D, D+1) target cube -> source cube (both unit cubes of the same world box here)
        A, b = M[:, :D], M[:, D]
        x = torch.tensor((src - b) @ np.linalg.inv(A).T, dtype=torch.float64)
        if wrt == "data":
            d = _leaf(data)
            return Probe([d], lambda: mod(x, d), 1.0, stateful=True, labels=labels)
        x = _leaf(x)
        return Probe([x], lambda: mod(x, data), one, stateful=True, labels=labels)
    if fn == "grid_reshape":
        d = _leaf(data)
        return Probe([d], lambda: U.grid_reshape(d, oshape, align_corners=ac), 1.0, labels=labels)
    raise KeyError(entry)


def run_sampling(case):
    return check_probe(case["entry"], build_sampling_probe(case), case["key"])


# =======================================================================================
# facet 4: flow field operations and spatial derivatives

FLOW_ENTRIES = ["expv", "expv.inverse", "ExpFlow", "compose_flows.u", "compose_flows.v", "compose_flows.both", "compose_svfs.u",
                "compose_svfs.v", "compose_svfs.both", "lie_bracket", "logv", "spatial_derivatives", "flow_derivatives",
                "jacobian_det", "jacobian_matrix", "curl", "divergence", "divergence_free_flow", "affine_flow", "normalize_flow",
                "denormalize_flow"]
FD_MODES = [None, "forward", "backward", "central", "forward_central_backward", "sobel", "prewitt", "gaussian", "bspline"]


@st.composite
def flow_cases(draw, entry=None):
    entry = entry or draw(st.sampled_from(FLOW_ENTRIES))
    D = 3 if entry == "curl" and draw(st.booleans()) else draw(gen.dims())
    return {
        "entry": entry, "D": D, "shape": draw(small_shapes(D, 4, 8, 5)), "N": draw(st.integers(1, 2)), "C": draw(st.integers(1, 2)),
        "ac": draw(st.booleans()), "key": draw(st.integers(0, 10 ** 6)), "amp": draw(gen.qfloat(0.05, 0.4, 0.01)),
        "steps": draw(st.integers(0, 5)), "scale": draw(st.sampled_from([None, 0.5, 1.0, 2.0, -1.0])),
        "bch": draw(st.integers(0, 5)), "iters": draw(st.integers(1, 2)), "exp_steps": draw(st.sampled_from([2, 3, 4])),
        "mode": draw(st.sampled_from(FD_MODES)), "sigma": draw(st.sampled_from([None, None, 0.7, 1.0])),
        "order": draw(st.integers(1, 2)), "spacing": draw(st.sampled_from([None, "scalar", "vector"])),
        "stride": draw(st.sampled_from([1, 2])), "add_identity": draw(st.booleans()),
    }


def _deriv_kwargs(case, D, bspline_ok=True):
    mode = case["mode"]
    if mode == "bspline" and not bspline_ok:
        mode = "central"
    kw = {}
    if mode is not None:
        kw["mode"] = mode
    if case["sigma"] is not None:
        kw["sigma"] = case["sigma"]
    if case["spacing"] == "scalar":
        kw["spacing"] = 0.5
    elif case["spacing"] == "vector":
        kw["spacing"] = [0.5 + 0.25 * k for k in range(D)]
    if mode == "bspline":
        kw["stride"] = case["stride"]
    return kw, mode


def build_flow_probe(case) -> Probe:
    from deepali.core import Grid
    from deepali.core import functional as U
    from deepali.modules import ExpFlow

    entry, D, shape, key, ac, N, a = case["entry"], case["D"], tuple(case["shape"]), case["key"], case["ac"], case["N"], case["amp"]
    labels = [f"D={D}", f"N={N}"]
    u = noise((N, D) + shape, key + 61, -a, a)
    v = noise((N, D) + shape, key + 62, -a, a)
    if entry in ("expv", "expv.inverse", "ExpFlow"):
        f = _leaf(u)
        steps, scale = case["steps"], case["scale"]
        labels += [f"steps={steps}", f"ac={ac}"]
        if entry == "ExpFlow":
            mod = ExpFlow(scale=scale, steps=steps, align_corners=ac)
            return Probe([f], lambda: mod(f), a, stateful=True, labels=labels)
        kw = dict(steps=steps, align_corners=ac, inverse=entry.endswith("inverse"))
        if scale is not None:
            kw["scale"] = scale
        return Probe([f], lambda: U.expv(f, **kw), a, labels=labels)
    if entry.startswith("compose_flows"):
        wrt = entry.split(".")[1]
        fu, fv = (_leaf(u) if wrt in ("u", "both") else u), (_leaf(v) if wrt in ("v", "both") else v)
        leaves = [x for x in (fu, fv) if x.requires_grad]
        labels.append(f"ac={ac}")
        return Probe(leaves, lambda: _f25(lambda: U.compose_flows(fu, fv, align_corners=ac), N), a, labels=labels)
    if entry.startswith("compose_svfs") or entry == "lie_bracket":
        kw, mode = _deriv_kwargs(case, D, bspline_ok=False)
        labels.append(f"mode={mode}")
        if entry == "lie_bracket":
            fu, fv = _leaf(u), _leaf(v)
            return Probe([fu, fv], lambda: U.lie_bracket(fv, fu, **kw), a, labels=labels)
        wrt = entry.split(".")[1]
        fu, fv = (_leaf(u) if wrt in ("u", "both") else u), (_leaf(v) if wrt in ("v", "both") else v)
        leaves = [x for x in (fu, fv) if x.requires_grad]
        labels.append(f"bch={case['bch']}")
        return Probe(leaves, lambda: U.compose_svfs(fu, fv, bch_terms=case["bch"], **kw), a, labels=labels)
    if entry == "logv":
        f = _leaf(u)
        kw = dict(num_iters=case["iters"], bch_terms=min(case["bch"], 3), sigma=case["sigma"], align_corners=ac,
                  exp_steps=case["exp_steps"])
        labels += [f"iters={case['iters']}", f"ac={ac}"]
        return Probe([f], lambda: _f25(lambda: U.logv(f, **kw), N), a, labels=labels)
    if entry == "spatial_derivatives":
        kw, mode = _deriv_kwargs(case, D)
        d = _leaf(noise((N, case["C"]) + shape, key + 63, 0.0, 1.0))
        labels += [f"mode={mode}", f"order={case['order']}", f"sigma={case['sigma']}"]
        return Probe([d], lambda: U.spatial_derivatives(d, order=case["order"], **kw), 1.0, labels=labels)
    if entry == "flow_derivatives":
        kw, mode = _deriv_kwargs(case, D)
        f = _leaf(u)
        labels += [f"mode={mode}", f"order={case['order']}"]
        return Probe([f], lambda: U.flow_derivatives(f, order=case["order"], **kw), a, labels=labels)
    if entry in ("jacobian_det", "jacobian_matrix", "curl", "divergence"):
        kw, mode = _deriv_kwargs(case, D)
        f = _leaf(u)
        labels.append(f"mode={mode}")
        if entry in ("jacobian_det", "jacobian_matrix"):
            kw["add_identity"] = case["add_identity"]
        return Probe([f], lambda: getattr(U, entry)(f, **kw), a, labels=labels)
    if entry == "divergence_free_flow":
        kw, mode = _deriv_kwargs(case, D)
        C = 1 if D == 2 else (2 + key % 2)
        d = _leaf(noise((N, C) + shape, key + 64, -1.0, 1.0))
        labels += [f"mode={mode}", f"C={C}"]
        return Probe([d], lambda: U.divergence_free_flow(d, **kw), 1.0, labels=labels)
    if entry == "affine_flow":
        m = _leaf(torch.eye(D, D + 1, dtype=torch.float64).unsqueeze(0).repeat(N, 1, 1) + noise((N, D, D + 1), key + 65, -0.3, 0.3))
        grid = Grid(shape=shape, align_corners=ac)
        return Probe([m], lambda: U.affine_flow(m, grid), 0.3, labels=labels)
    if entry in ("normalize_flow", "denormalize_flow"):
        f = _leaf(u)
        return Probe([f], lambda: getattr(U, entry)(f, align_corners=ac), a, labels=labels + [f"ac={ac}"])
    raise KeyError(entry)


def _f25(fn, N):
    """compose_flows (and logv through it) adds in place to a broadcast coordinate tensor: RuntimeError for N > 1 on
    trees without fix F25 (a forward crash asserted by property C13); skipped and counted here."""
    if N == 1:
        return fn()
    try:
        return fn()
    except RuntimeError as e:
        if "doesn't match the broadcast shape" in str(e) or "more than one element of the written-to tensor" in str(e):
            raise Skip("excluded_known F25 (C13): compose_flows with N > 1")
        raise


def run_flow(case):
    return check_probe(case["entry"], build_flow_probe(case), case["key"])


# =======================================================================================
# facet 5: cubic B-splines

BSPLINE_ENTRIES = ["evaluate_cubic_bspline", "evaluate_cubic_bspline.transpose", "evaluate_cubic_bspline.derivative",
                   "evaluate_cubic_bspline.kernel", "subdivide_cubic_bspline"]


@st.composite
def bspline_cases(draw, entry=None):
    entry = entry or draw(st.sampled_from(BSPLINE_ENTRIES))
    D = draw(gen.dims())
    return {
        "entry": entry, "D": D, "shape": draw(small_shapes(D, 4)), "N": draw(st.integers(1, 2)), "C": draw(st.integers(1, 3)),
        "key": draw(st.integers(0, 10 ** 6)), "stride": draw(st.lists(st.integers(1, 3), min_size=D, max_size=D)),
        "same_stride": draw(st.booleans()), "derivative": draw(st.lists(st.integers(0, 2), min_size=D, max_size=D)),
        "crop": draw(st.booleans()), "dims": draw(st.lists(st.integers(0, D - 1), min_size=0, max_size=D, unique=True)),
    }


def build_bspline_probe(case) -> Probe:
    from deepali.core import functional as U

    entry, D, shape, key = case["entry"], case["D"], tuple(case["shape"]), case["key"]
    c = _leaf(noise((case["N"], case["C"]) + shape, key + 71, -1.0, 1.0))
    stride = case["stride"][0] if case["same_stride"] else list(case["stride"])
    sl = [case["stride"][0]] * D if case["same_stride"] else list(case["stride"])
    labels = [f"D={D}", f"stride={sl}"]
    kw = {}
    if case["crop"]:
        kw["size"] = [max(1, s * (n - 3) - 1) for s, n in zip(sl, shape[::-1])]
    if entry == "evaluate_cubic_bspline":
        return Probe([c], lambda: U.evaluate_cubic_bspline(c, stride=stride, **kw), 1.0, labels=labels)
    if entry == "evaluate_cubic_bspline.transpose":
        return Probe([c], lambda: U.evaluate_cubic_bspline(c, stride=stride, transpose=True, **kw), 1.0, labels=labels)
    if entry == "evaluate_cubic_bspline.derivative":
        der = list(case["derivative"])
        return Probe([c], lambda: U.evaluate_cubic_bspline(c, stride=stride, derivative=der, **kw), 1.0, labels=labels + [f"der={der}"])
    if entry == "evaluate_cubic_bspline.kernel":
        kernel = [U.bspline_interpolation_weights(degree=3, stride=s, dtype=torch.float64) for s in sl]
        return Probe([c], lambda: U.evaluate_cubic_bspline(c, kernel=kernel, **kw), 1.0, labels=labels)
    dims = sorted(case["dims"]) or None
    return Probe([c], lambda: U.subdivide_cubic_bspline(c, dims=dims), 1.0, labels=[f"D={D}", f"dims={dims}"])


def run_bspline(case):
    return check_probe(case["entry"], build_bspline_probe(case), case["key"])


# =======================================================================================
# facet 6: rotation parameterisations, homogeneous helpers and grid point maps

ROT_ENTRIES = ["euler_rotation_matrix", "euler_rotation_angles", "quaternion_to_rotation_matrix", "rotation_matrix_to_quaternion",
               "angle_axis_to_rotation_matrix", "rotation_matrix_to_angle_axis", "quaternion_to_angle_axis",
               "angle_axis_to_quaternion", "normalize_quaternion", "quaternion_log_to_exp", "quaternion_exp_to_log",
               "scaling_transform", "shear_matrix", "translation", "homogeneous_transform.points", "homogeneous_transform.matrix",
               "homogeneous_matmul", "Grid.transform_points", "Grid.transform_vectors", "Grid.transform_points.default_decimals"]
EULER_ORDERS = ["XYZ", "ZYX", "ZXY", "XZX", "ZXZ", "YXZ", "XYX", "YZY", "ZYZ"]
AX4 = ["grid", "cube", "cube_corners", "world"]


@st.composite
def rotation_cases(draw, entry=None):
    entry = entry or draw(st.sampled_from(ROT_ENTRIES))
    D = draw(gen.dims())
    case = {"entry": entry, "D": D, "N": draw(st.integers(1, 3)), "key": draw(st.integers(0, 10 ** 6)),
            "order": draw(st.sampled_from(EULER_ORDERS)), "homogeneous": draw(st.booleans()),
            "a": draw(st.sampled_from(AX4)), "b": draw(st.sampled_from(AX4)), "two": draw(st.booleans()),
            "dtype": draw(st.sampled_from(["float64", "float64", "float32"]))}
    if entry.startswith("Grid."):
        case["dtype"] = "float64"  # world -> index maps cancel (x - origin) / spacing: float32 round-off is not a gradient matter
        case["grid"] = draw(small_grids(D))
        if case["two"]:
            case["grid2"] = draw(small_grids(D))
    return case


def _generic_rotations(N, key):
    """Rotation matrices (N, 3, 3) of generic quaternions, away from the branch switches of the matrix -> quaternion code."""
    q = hash_noise((N, 4), key, -1.0, 1.0)
    q[:, 0] = np.sign(q[:, 0] + 1e-9) * (0.15 + 0.85 * np.abs(q[:, 0]))
    q /= np.linalg.norm(q, axis=1, keepdims=True)
    return q, np.stack([ref.quaternion_matrix(x) for x in q])


def build_rotation_probe(case) -> Probe:
    from deepali.core import Axes
    from deepali.core import functional as U

    entry, D, N, key = case["entry"], case["D"], case["N"], case["key"]
    dt = torch.float64 if case["dtype"] == "float64" else torch.float32
    labels = [case["dtype"]]
    if entry == "euler_rotation_matrix":
        if D == 2:
            a = _leaf(noise((N, 1), key + 81, -3.0, 3.0, dt))
            return Probe([a], lambda: U.euler_rotation_matrix(a, homogeneous=case["homogeneous"]), 1.0, labels=labels + ["D=2"])
        a = _leaf(noise((N, 3), key + 81, -3.0, 3.0, dt))
        order = case["order"]
        # the generic-order fallback multiplies (N, 3, 3) factors (homogeneous output is a C08 matter, not generated here)
        hom = case["homogeneous"] and order in ("XYZ", "ZYX", "ZXY", "XZX", "ZXZ")
        return Probe([a], lambda: U.euler_rotation_matrix(a, order=order, homogeneous=hom), 1.0,
                     labels=labels + [f"order={order}", f"hom={hom}"])
    q, R = _generic_rotations(N, key + 82)
    if entry == "euler_rotation_angles":
        order = case["order"] if case["order"] in ("XZX", "ZXZ") else "ZXZ"
        dt = torch.float64  # the function validates |det| = 1 with allclose: only float64 steps keep the perturbed matrix valid
        # generic angles away from the gimbal lock / acos end points: build the matrix from generated angles
        ang = hash_noise((N, 3), key + 83, 0.3, 1.2) * np.where(hash_noise((N, 3), key + 84, -1, 1) < 0, -1.0, 1.0)
        if order in ("XZX", "ZXZ"):
            ang[:, 1] = np.abs(ang[:, 1])
        if D == 2:
            M = _leaf(torch.tensor(np.stack([ref.rot2(x[0]) for x in ang]), dtype=dt))
            return Probe([M], lambda: U.euler_rotation_angles(M), 1.0, labels=["float64", "D=2"])
        M = _leaf(torch.tensor(np.stack([ref.euler_matrix(x, order) for x in ang]), dtype=dt))
        return Probe([M], lambda: U.euler_rotation_angles(M, order=order), 1.0, labels=["float64", f"order={order}"])
    if entry == "quaternion_to_rotation_matrix":
        x = _leaf(torch.tensor(q * (0.5 + hash_noise((N, 1), key + 85, 0.0, 1.0)), dtype=dt))
        return Probe([x], lambda: U.quaternion_to_rotation_matrix(x), 1.0, labels=labels)
    if entry in ("rotation_matrix_to_quaternion", "rotation_matrix_to_angle_axis"):
        tr = np.trace(R, axis1=1, axis2=2)
        dg = np.sort(np.diagonal(R, axis1=1, axis2=2), axis=1)
        if np.any(np.abs(tr) < 0.05) or np.any((tr < 0.05) & (np.diff(dg, axis=1).min(axis=1) < 0.05)):
            raise Skip("generated rotation near a branch switch of rotation_matrix_to_quaternion")
        M = _leaf(torch.tensor(R, dtype=dt))
        return Probe([M], lambda: getattr(U, entry)(M), 1.0, labels=labels + [f"trace>0={bool((tr > 0).all())}"])
    if entry == "quaternion_to_angle_axis":
        x = _leaf(torch.tensor(q, dtype=dt))
        return Probe([x], lambda: U.quaternion_to_angle_axis(x), 1.0, labels=labels)
    if entry in ("angle_axis_to_rotation_matrix", "angle_axis_to_quaternion", "quaternion_log_to_exp"):
        v = noise((N, 3), key + 86, -1.5, 1.5, dt)
        v = v + 0.2 * torch.sign(v)
        x = _leaf(v)
        return Probe([x], lambda: getattr(U, entry)(x), 1.0, labels=labels)
    if entry == "quaternion_exp_to_log":
        x = _leaf(torch.tensor(q * 0.9, dtype=dt))  # |w| < 1: inside the clamp of acos
        return Probe([x], lambda: U.quaternion_exp_to_log(x), 1.0, labels=labels)
    if entry == "normalize_quaternion":
        x = _leaf(torch.tensor(q * (0.5 + hash_noise((N, 1), key + 85, 0.0, 1.0)), dtype=dt))
        return Probe([x], lambda: U.normalize_quaternion(x), 1.0, labels=labels)
    if entry == "scaling_transform":
        x = _leaf(noise((N, D), key + 87, 0.5, 1.5, dt))
        return Probe([x], lambda: U.scaling_transform(x), 1.0, labels=labels)
    if entry == "shear_matrix":
        x = _leaf(noise((N, 1 if D == 2 else 3), key + 88, -0.6, 0.6, dt))
        return Probe([x], lambda: U.shear_matrix(x), 1.0, labels=labels)
    if entry == "translation":
        x = _leaf(noise((N, D), key + 89, -1.0, 1.0, dt))
        return Probe([x], lambda: U.translation(x), 1.0, labels=labels)
    if entry.startswith("homogeneous_transform"):
        m = torch.eye(D, D + 1, dtype=dt).unsqueeze(0).repeat(N, 1, 1) + noise((N, D, D + 1), key + 90, -0.3, 0.3, dt)
        p = noise((N, 4, D), key + 91, -1.0, 1.0, dt)
        if entry.endswith("points"):
            p = _leaf(p)
            return Probe([p], lambda: U.homogeneous_transform(m, p), 1.0, labels=labels)
        m = _leaf(m)
        return Probe([m], lambda: U.homogeneous_transform(m, p), 1.0, labels=labels)
    if entry == "homogeneous_matmul":
        a = _leaf(torch.eye(D, D + 1, dtype=dt).unsqueeze(0).repeat(N, 1, 1) + noise((N, D, D + 1), key + 92, -0.3, 0.3, dt))
        b = _leaf(torch.eye(D, dtype=dt).unsqueeze(0).repeat(N, 1, 1) + noise((N, D, D), key + 93, -0.3, 0.3, dt))
        c = _leaf(noise((N, D, 1), key + 94, -0.3, 0.3, dt))
        return Probe([a, b, c], lambda: U.homogeneous_matmul(a, b, c), 0.3, labels=labels)
    # Grid point / vector maps
    g = case["grid"]
    grid = make_grid(g)
    m = ref.GridModel.from_desc(g)
    a, b = case["a"], case["b"]
    g2, m2 = (make_grid(case["grid2"]), ref.GridModel.from_desc(case["grid2"])) if case["two"] else (None, m)
    idx = safe_index_coords((N, 3), g["size"], key + 95)
    labels += [f"{a}->{b}", f"two={case['two']}"]
    unit = float(np.abs(m.matrix("grid", a)[:, : D]).max())
    if entry == "Grid.transform_vectors":
        x = _leaf(torch.tensor(hash_noise((N, 3, D), key + 96, -1.0, 1.0) * unit, dtype=dt))
        return Probe([x], lambda: grid.transform_vectors(x, Axes(a), Axes(b), to_grid=g2), unit, labels=labels)
    x = _leaf(torch.tensor(m.points(idx, "grid", a), dtype=dt))
    if entry == "Grid.transform_points":
        return Probe([x], lambda: grid.transform_points(x, Axes(a), Axes(b), to_grid=g2, decimals=None), unit, labels=labels)
    # documented default: rounds when mapping to grid / cube axes -> recorded only
    return Probe([x], lambda: grid.transform_points(x, Axes(a), Axes(b), to_grid=g2), unit, labels=labels,
                 record_only=f"default_decimals[to={b}]")


def run_rotation(case):
    return check_probe(case["entry"], build_rotation_probe(case), case["key"])


# =======================================================================================
# facet 7: similarity losses w.r.t. input and target

ELEMENTWISE = ["mse_loss", "ssd_loss", "mae_loss", "l1_loss", "huber_loss", "smooth_l1_loss"]
SIM_ENTRIES = ELEMENTWISE + ["ncc_loss", "lcc_loss", "wlcc_loss", "mi_loss", "nmi_loss", "dice_score", "dice_loss", "tversky_index",
                             "tversky_index_with_logits", "tversky_loss", "tversky_loss_with_logits", "kld_loss",
                             "balanced_binary_cross_entropy_with_logits", "focal_loss_with_logits", "label_smoothing"]


@st.composite
def similarity_cases(draw, entry=None):
    entry = entry or draw(st.sampled_from(SIM_ENTRIES))
    D = draw(gen.dims())
    return {
        "entry": entry, "D": D, "shape": draw(small_shapes(D, 4)), "N": draw(st.integers(1, 2)), "C": draw(st.integers(1, 2)),
        "key": draw(st.integers(0, 10 ** 6)), "reduction": draw(st.sampled_from(["mean", "sum", "none"])),
        "mask": draw(st.sampled_from([None, None, "full", "channel"])), "norm": draw(st.sampled_from([None, 2.5])),
        "delta": draw(gen.qfloat(0.3, 1.0, 0.05)), "kernel": draw(st.sampled_from([3, 5, 7])),
        "bins": draw(st.sampled_from([8, 16, 32])), "alpha": draw(st.sampled_from([None, 0.3, 0.7])),
        "beta": draw(st.sampled_from([None, 0.4])), "gamma": draw(st.sampled_from([None, 1.0, 1.5])),
        "normalize": draw(st.booleans()), "wrt": draw(st.sampled_from(["both", "input", "target"])),
        "wmask": draw(st.sampled_from(["none", "mask", "source_target"])),
    }


def _posmask(shape, key):
    """Generated soft mask with values in [0.2, 1] (a fixed multiplicative weight, not a leaf)."""
    return noise(shape, key, 0.2, 1.0)


def build_similarity_probe(case) -> Probe:
    import deepali.losses.functional as L

    entry, D, shape, key, N, C = case["entry"], case["D"], tuple(case["shape"]), case["key"], case["N"], case["C"]
    full = (N, C) + shape
    red = case["reduction"]
    labels = [f"D={D}", f"red={red}", f"wrt={case['wrt']}"]

    def pick(x, y):
        """Leaves according to `wrt`."""
        xl = _leaf(x) if case["wrt"] in ("both", "input") else x
        yl = _leaf(y) if case["wrt"] in ("both", "target") else y
        return xl, yl, [t for t in (xl, yl) if t.requires_grad]

    if entry in ELEMENTWISE:
        x = noise(full, key + 101, 0.0, 1.0)
        # |x - y| is kept >= 0.05 away from 0 (L1) and from the Huber / smooth-L1 threshold
        mag = noise(full, key + 102, 0.0, 1.0)
        sgn = torch.where(noise(full, key + 103) < 0, -1.0, 1.0).double()
        kw = dict(reduction=red)
        if entry in ("huber_loss", "smooth_l1_loss"):
            d = case["delta"]
            lo_hi = torch.where(noise(full, key + 104) < 0, 0.05 + mag * (d - 0.1), d + 0.05 + mag * 0.5)
            y = x + sgn * lo_hi
            kw["delta" if entry == "huber_loss" else "beta"] = d
            labels.append(f"delta={d}")
        else:
            y = x + sgn * (0.05 + 0.5 * mag)
        if case["mask"] is not None:
            kw["mask"] = _posmask((N, 1 if case["mask"] == "channel" else C) + shape, key + 105)
        if case["norm"] is not None:
            kw["norm"] = case["norm"]
        labels.append(f"mask={case['mask']}")
        xl, yl, leaves = pick(x, y)
        return Probe(leaves, lambda: getattr(L, entry)(xl, yl, **kw), 1.0, labels=labels)
    if entry in ("ncc_loss", "lcc_loss", "wlcc_loss"):
        x = noise(full, key + 106, 0.0, 1.0)
        y = 0.6 * x + 0.4 * noise(full, key + 107, 0.0, 1.0)
        xl, yl, leaves = pick(x, y)
        kw = dict(reduction=red)
        if entry != "ncc_loss":
            ks = max(k for k in (3, 5, 7) if k <= min(case["kernel"], min(shape)))
            kw["kernel_size"] = ks
            labels.append(f"kernel={ks}")
        if entry == "wlcc_loss":
            if case["wmask"] == "mask":
                kw["mask"] = _posmask((N, 1) + shape, key + 108)
            elif case["wmask"] == "source_target":
                kw["source_mask"] = _posmask((N, 1) + shape, key + 108)
                kw["target_mask"] = _posmask((N, 1) + shape, key + 109)
            labels.append(f"wmask={case['wmask']}")
        return Probe(leaves, lambda: getattr(L, entry)(xl, yl, **kw), 1.0, labels=labels, abs_mag=1.0, rule="f32")  # the loss casts to float32
    if entry in ("mi_loss", "nmi_loss"):
        x = noise((N, 1) + shape, key + 110, 0.0, 1.0)
        y = 0.5 * x + 0.5 * noise((N, 1) + shape, key + 111, 0.0, 1.0)
        xl, yl, leaves = pick(x, y)
        kw = dict(vmin=-0.25, vmax=1.25, num_bins=case["bins"])
        if case["mask"] is not None:
            kw["mask"] = _posmask((N, 1) + shape, key + 112)
        labels += [f"bins={case['bins']}", f"mask={case['mask']}"]
        return Probe(leaves, lambda: getattr(L, entry)(xl, yl, **kw), 1.0, labels=labels)
    if entry in ("dice_score", "dice_loss"):
        x, y = noise(full, key + 113, 0.05, 0.95), noise(full, key + 114, 0.05, 0.95)
        xl, yl, leaves = pick(x, y)
        kw = dict(reduction=red)
        if case["mask"] is not None:
            kw["weight"] = _posmask(full, key + 115)
        return Probe(leaves, lambda: getattr(L, entry)(xl, yl, **kw), 1.0, labels=labels, abs_mag=1.0, rule="f32")  # the loss casts to float32
    if entry.startswith("tversky"):
        logits = entry.endswith("with_logits") or case["normalize"]
        C2 = C if not entry.endswith("with_logits") else 1
        x = noise((N, C2) + shape, key + 116, -2.0, 2.0) if logits else noise((N, C2) + shape, key + 116, 0.05, 0.95)
        y = noise((N, max(2, C2) if C2 > 1 else 1) + shape, key + 117, 0.05, 0.95)
        xl, yl, leaves = pick(x, y)
        kw = dict(alpha=case["alpha"], beta=case["beta"], reduction=red)
        if not entry.endswith("with_logits"):
            kw["normalize"] = case["normalize"]
        if entry.startswith("tversky_loss"):
            kw["gamma"] = case["gamma"]
        labels += [f"C={C2}", f"logits={logits}"]
        fn = getattr(L, entry)

        def call():
            try:
                return fn(xl, yl, **kw)
            except TypeError as e:
                if "unexpected keyword argument 'gamma'" in str(e):
                    raise Skip("excluded_known F11 (C16): tversky_loss passes gamma to tversky_index")
                raise

        return Probe(leaves, call, 1.0, labels=labels, abs_mag=1.0, rule="f32")  # the loss casts to float32
    if entry == "kld_loss":
        mu, lv = _leaf(noise((N, 6), key + 118, -1.0, 1.0)), _leaf(noise((N, 6), key + 119, -1.0, 1.0))
        return Probe([mu, lv], lambda: L.kld_loss(mu, lv, reduction=red), 1.0, labels=labels)
    if entry in ("balanced_binary_cross_entropy_with_logits", "focal_loss_with_logits"):
        x = _leaf(noise((N, 1) + shape, key + 120, -2.0, 2.0))
        y = noise((N, 1) + shape, key + 121, 0.05, 0.95)
        kw = dict(reduction=red)
        if case["mask"] is not None:
            kw["weight"] = _posmask((N, 1) + shape, key + 122)
        return Probe([x], lambda: getattr(L, entry)(x, y, **kw), 1.0, labels=labels)
    if entry == "label_smoothing":
        x = _leaf(noise((N, 3) + shape, key + 123, 0.05, 0.95))
        return Probe([x], lambda: L.label_smoothing(x, alpha=0.1), 1.0, labels=labels)
    raise KeyError(entry)


def run_similarity(case):
    return check_probe(case["entry"], build_similarity_probe(case), case["key"])


# =======================================================================================
# facet 8: regularisation losses w.r.t. the vector field

REG_ENTRIES = ["bending_loss", "curvature_loss", "diffusion_loss", "divergence_loss", "elasticity_loss", "grad_loss",
               "total_variation_loss", "bspline_bending_loss", "inverse_consistency_loss"]


@st.composite
def regulariser_cases(draw, entry=None):
    entry = entry or draw(st.sampled_from(REG_ENTRIES))
    D = draw(gen.dims())
    case = {
        "entry": entry, "D": D, "shape": draw(small_shapes(D, 4, 8, 5)), "N": draw(st.integers(1, 2)), "key": draw(st.integers(0, 10 ** 6)),
        "amp": draw(gen.qfloat(0.05, 0.4, 0.01)), "reduction": draw(st.sampled_from(["mean", "sum", "none"])),
        "mode": draw(st.sampled_from(FD_MODES)), "sigma": draw(st.sampled_from([None, None, 0.7])),
        "spacing": draw(st.sampled_from([None, "scalar", "vector"])), "stride": draw(st.sampled_from([1, 2])),
        "p": draw(st.sampled_from([0, 1, 2, 3, 4, 1.5])), "q": draw(st.sampled_from([1, None, 0, 0.5, 2])),
        "lame": draw(st.sampled_from([[1.0, 0.5], [0.0, 1.0], [2.0, 0.0], "rubber"])),
        "units": draw(st.sampled_from(["cube", "voxel", "world"])), "margin": draw(st.sampled_from([0, 1, 0.2])),
        "mask": draw(st.booleans()), "wrt": draw(st.sampled_from(["both", "forward", "inverse"])),
        "kind": draw(st.sampled_from(["fields", "fields", "affine_forward", "affine_inverse"])),
    }
    if entry == "inverse_consistency_loss":
        case["grid"] = draw(small_grids(D))
    return case


def build_regulariser_probe(case) -> Probe:
    import deepali.losses.functional as L

    entry, D, shape, key, N, a, red = (case["entry"], case["D"], tuple(case["shape"]), case["key"], case["N"], case["amp"],
                                       case["reduction"])
    labels = [f"D={D}", f"red={red}"]
    if entry == "inverse_consistency_loss":
        g = case["grid"]
        grid = make_grid(g)
        shape = tuple(grid.shape)
        u = noise((N, D) + shape, key + 131, -a, a)
        v = -u + noise((N, D) + shape, key + 132, -0.5 * a, 0.5 * a)
        kw = dict(grid=grid, units=case["units"], reduction=red, margin=case["margin"])
        if case["mask"]:
            kw["mask"] = (noise((N, 1) + shape, key + 133, 0.0, 1.0) > 0.3).double()
        labels += [f"units={case['units']}", f"margin={case['margin']}", f"mask={case['mask']}", f"kind={case['kind']}"]
        A = torch.eye(D, D + 1, dtype=torch.float64).unsqueeze(0) + noise((1, D, D + 1), key + 134, -0.1, 0.1)
        fwd, inv = (A if case["kind"] == "affine_forward" else u), (A if case["kind"] == "affine_inverse" else v)
        fl = _leaf(fwd) if case["wrt"] in ("both", "forward") else fwd
        il = _leaf(inv) if case["wrt"] in ("both", "inverse") else inv
        leaves = [t for t in (fl, il) if t.requires_grad]
        return Probe(leaves, lambda: L.inverse_consistency_loss(fl, il, **kw), a, labels=labels)
    if entry == "bspline_bending_loss":
        u = _leaf(noise((N, D) + shape, key + 135, -a, a))
        st_ = case["stride"]
        return Probe([u], lambda: L.bspline_bending_loss(u, stride=st_, reduction=red), a, labels=labels + [f"stride={st_}"])
    kw, mode = _deriv_kwargs(case, D)
    kw["reduction"] = red
    labels.append(f"mode={mode}")
    if entry in ("total_variation_loss", "grad_loss"):
        # |du| has kinks at du = 0: separable strictly monotone field, every finite difference >= 0.05 in magnitude
        # (only the un-smoothed difference modes keep that guarantee)
        p, q = (1, 1) if entry == "total_variation_loss" else (case["p"], case["q"])
        if mode in ("gaussian", "bspline", "sobel", "prewitt") or case["sigma"] is not None:
            kw.pop("sigma", None)
            if mode in ("gaussian", "bspline", "sobel", "prewitt"):
                kw["mode"] = mode = "central"
                kw.pop("stride", None)
                labels[-1] = "mode=central"
        u = _leaf(monotone_field(N, D, shape, key + 136, 0.05, 0.3))
        if entry == "grad_loss":
            if p == 0 and q not in (1, 2):
                q = 1  # sum of signed derivatives raised to a fractional power / abs: kink at 0
            qe = (1.0 / p) if q is None else q
            if qe < 1 and mode in ("forward", "backward"):
                # the replicate-padded one-sided difference is identically 0 at one border, x**q with q < 1 has an
                # infinite slope there for every input (a kink that cannot be generated around): use central differences
                kw["mode"] = mode = "central"
                labels[-1] = "mode=central"
            kw.update(p=p, q=q)
            labels += [f"p={p}", f"q={q}"]
        return Probe([u], lambda: getattr(L, entry)(u, **kw), 0.3, labels=labels)
    u = _leaf(noise((N, D) + shape, key + 137, -a, a))
    if entry == "elasticity_loss":
        lame = case["lame"]
        if lame == "rubber":
            kw["material_name"] = "rubber"
        else:
            kw.update(first_parameter=lame[0], second_parameter=lame[1])
        labels.append(f"lame={lame}")
    fn = getattr(L, entry)
    if entry == "elasticity_loss" and mode == "bspline":
        def call():
            try:
                return fn(u, **kw)
            except RuntimeError as e:
                if "must match the size of tensor" in str(e):
                    raise Skip("excluded_known N17-1 (C17): elasticity_loss(mode='bspline') allocates the input shape")
                raise

        return Probe([u], call, a, labels=labels)
    return Probe([u], lambda: fn(u, **kw), a, labels=labels)


def run_regulariser(case):
    return check_probe(case["entry"], build_regulariser_probe(case), case["key"])


# =======================================================================================
# facets


def _entry_of(strategy_fn, entries):
    return st.sampled_from(entries).flatmap(lambda e: strategy_fn(entry=e))


def _floor_cases(strategy_fn, entries, per_entry):
    """Deterministic coverage floor: `per_entry` generated cases of every table entry (seed-independent: Hypothesis is
    seeded with a checksum of the entry names; entries are drawn in chunks to keep the generation cheap)."""
    import zlib

    import hypothesis
    from hypothesis import HealthCheck, Phase, given, settings

    out = []
    for i in range(0, len(entries), 8):
        chunk = entries[i:i + 8]
        got = []

        @hypothesis.seed(zlib.crc32("|".join(chunk).encode()))
        @settings(max_examples=per_entry, database=None, deadline=None, phases=[Phase.generate],
                  suppress_health_check=list(HealthCheck))
        @given(st.tuples(*[strategy_fn(entry=e) for e in chunk]))
        def collect(cases):
            got.append(cases)

        collect()
        for cases in got[:per_entry]:
            out.extend(cases)
    return out


def _facet(name, run, strategy_fn, entries, what, quick, thorough, floor_quick=3, floor_thorough=12, quick_shards=2):
    return Facet(name, run, strategy=lambda: _entry_of(strategy_fn, entries),
                 enumerate=lambda tier: _floor_cases(strategy_fn, entries, floor_quick if tier == "quick" else floor_thorough),
                 rule=f"{what}; {len(entries)} table entries, each probed at least {floor_quick} (quick) / {floor_thorough} (thorough) "
                      "times by a seed-independent floor plus the generated cases; non-trivial = some reliable direction with "
                      "|central difference| >= 1e-3 * sum|w*out| / scale",
                 quick=quick, thorough=thorough, shards=16, quick_shards=quick_shards)


ALL_ENTRIES = {"transforms": TRANSFORM_ENTRIES, "image_transformer": IT_ENTRIES, "sampling": SAMPLING_ENTRIES, "flow_ops": FLOW_ENTRIES,
               "bspline": BSPLINE_ENTRIES, "rotations_and_grid_maps": ROT_ENTRIES, "similarity_losses": SIM_ENTRIES,
               "regularisers": REG_ENTRIES}

FACETS = [
    _facet("transforms", run_transforms, transform_cases, TRANSFORM_ENTRIES,
           "transform class x method (call, grid call, disp, disp on another grid, inverse call, points, PointSetTransformer) "
           "w.r.t. its Parameters (generic non-identity values) or the points", quick=500, thorough=10000, floor_quick=2, quick_shards=4),
    _facet("image_transformer", run_image_transformer, image_transformer_cases, IT_ENTRIES,
           "ImageTransformer of every transform class w.r.t. the transform Parameters and w.r.t. the image", quick=150, thorough=3000),
    _facet("sampling", run_sampling, sampling_cases, SAMPLING_ENTRIES,
           "sampling functions/modules w.r.t. data, coordinates (>= 0.05 samples from knots/borders), flow", quick=300, thorough=5000),
    _facet("flow_ops", run_flow, flow_cases, FLOW_ENTRIES,
           "expv/compose/logv/Lie bracket and spatial derivative operators w.r.t. fields", quick=240, thorough=4000),
    _facet("bspline", run_bspline, bspline_cases, BSPLINE_ENTRIES,
           "cubic B-spline evaluation (both algorithms, derivatives, given kernels) and subdivision w.r.t. coefficients",
           quick=100, thorough=1500, floor_quick=6),
    _facet("rotations_and_grid_maps", run_rotation, rotation_cases, ROT_ENTRIES,
           "Euler/quaternion/angle-axis conversions, homogeneous helpers, Grid.transform_points(decimals=None)/vectors w.r.t. "
           "their inputs; default-decimals Grid.transform_points recorded only", quick=300, thorough=5000, floor_quick=4),
    _facet("similarity_losses", run_similarity, similarity_cases, SIM_ENTRIES,
           "similarity / overlap losses w.r.t. input and target (|x-y| >= 0.05 from L1/Huber kinks; explicit MI bins)",
           quick=350, thorough=5000, floor_quick=4),
    _facet("regularisers", run_regulariser, regulariser_cases, REG_ENTRIES,
           "regularisation losses w.r.t. the vector field(s) (TV / p=1 on strictly monotone fields)", quick=180, thorough=3000,
           floor_quick=6),
]
