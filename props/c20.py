"""C20 - Gradients reaching parameters and inputs are the true derivatives.

A data-driven TABLE of differentiable entry points (ENTRIES) is probed with one generic oracle
(`check_probe`): scalarise the output with a generated weight tensor, compare the directional
derivative from torch.autograd.grad with central finite differences along generated directions.  Every table has a "point"
dimension: generic (hash noise) values, or the special point of the entry (zero / identity initialised parameters, exactly
all-zero fields, identity matrices, identical images, no-op argument forms; see POINTS below).  A separate table (KINK_ENTRIES) places
the inputs AT a kink / singular point (exactly zero residual under |.| / Euclidean norm, zero rotation vector) where the gradient
must still be finite and a valid subgradient (`check_kink`).  Both oracles also assert purity: constant inputs are not written to,
and the same inputs give the same value however often the operation was evaluated before.
"""
from __future__ import annotations

import math

import numpy as np
import torch
from hypothesis import strategies as st

from vlib import gen, ref
from vlib.case import hash_noise, make_grid
from vlib.core import EPS32, EPS64, Facet, Skip, Violation

PROPERTY = "C20"
MANIFEST = {
    "text": "Generated-input search (Hypothesis) over a data-driven table of 593 differentiable entry points (573 + 20 kink entries), each evaluated at GENERIC values and "
            "- for the 478 entries that have one - at its SPECIAL point (the documented initial / degenerate-but-smooth input: "
            "freshly constructed zero / identity initialised transformation parameters incl. inverses, composites, linked inverses and "
            "callables predicting exactly the initial values; exactly all-zero flow / velocity / coefficient fields for expv (scale "
            "None, 0.5, 1, 2, -1, inverse=True, steps 0..5), ExpFlow and its inverse copies, FlowFields.exp(scale, steps), "
            "compose_flows, compose_svfs, logv, warp_image / warp_points / warp_grid / sample_flow, B-spline evaluation, Jacobians, "
            "regularisers; zero angles, identity quaternion / matrices, unit scales, zero offsets for the rotation and homogeneous "
            "helpers; identical source and target images for the similarity losses; no-op argument forms of crop / pad / "
            "center_crop / center_pad / downsample / upsample / grid_resample / grid_resize), where a value-dependent shortcut "
            "('exp(0) = 0', 'identity: nothing to do') keeps every forward value but changes the derivative: 16 transform "
            "classes x {__call__, grid call, disp, disp on another grid, inverse()(...), points, PointSetTransformer} w.r.t. their "
            "torch.nn.Parameters and w.r.t. the points; the same classes with parameters predicted by "
            "a callable module (gradient w.r.t. the callable's own Parameters and its conditioning input), given as plain tensors "
            "(constructor / data_()), and through a linked inverse created once (inverse(link=True), .inv, update_buffers); "
            "SequentialTransform / MultiLevelTransform with non-rigid and nested members; GenericSpatialTransform (8 models x 8 affine "
            "models; Parameters, dict, callable, linked inverse, flip_grid_coords); ImageTransformer of every class w.r.t. parameters "
            "and image (target grid, source grid, align_centers, flip_coords); grid_sample/sample_image/warp_image /"
            "Image.sample/ImageBatch.sample/SampleImage/AlignImage/TransformImage/sample_flow/warp_points/warp_grid (and the "
            "FlowFields data API) w.r.t. data, coordinates, flow, transform tensor; expv/ExpFlow (and its inverse copies), "
            "compose_flows, compose_svfs, lie_bracket, logv; cubic B-spline evaluation (both algorithms, derivatives, kernels) and "
            "subdivision; spatial/flow derivatives (9 modes, order or explicit selection), jacobian_det/matrix/dict, curl/Curl, "
            "divergence; Euler/quaternion/angle-axis conversions and homogeneous helpers; Grid.transform_points(decimals=None)/"
            "vectors; every name of losses.functional.__all__ (24 similarity/overlap losses w.r.t. input AND target and, where "
            "documented as multiplicative, the weights; 9 regularisers), every public loss class of deepali.losses (image, flow, "
            "bspline, params, PatchwiseImageLoss) called as a module, ClosestPointDistance / LandmarkPointDistance / "
            "closest_point_distances / distance_matrix w.r.t. the first and EVERY later point set (also a later set produced by a "
            "transformation being optimised); the remaining differentiable functions of core.functional.__all__ (61 entries: "
            "pooling, convolution w.r.t. data and kernel, cropping/padding, pyramids, resampling, normalisation with explicit "
            "bounds, point maps, tensor/linear algebra helpers) and the layers of deepali.modules; D in {2,3}, grids <= 8 per axis, "
            "hash-noise inputs constructed away from interpolation knots, clamping/reflection borders, |x| / Huber kinks, nearest-"
            "neighbour ties and zero distances. Oracle: <grad f, d> from torch.autograd.grad of f = sum(w*out) (generated w) against "
            "the central difference along 3 generated directions; float64 rule (h = 1e-6*scale, rel 1e-5) where the operation "
            "preserves float64, float32 rule (h = 1e-2*scale, rel 2e-2) where deepali computes in float32. Also: the output requires "
            "grad, gradients are finite, no leaf has an identically zero gradient while a coarse central difference in that leaf is "
            "clearly non-zero (detach / rounding / integer cast), the output is not locally constant in a leaf, a second "
            "forward/backward on the same module gives the same gradient (fresh graph), after an in-place step of the leaves (an "
            "optimiser step) a third forward/backward gives the derivative at the NEW point (buffers recomputed), autograd in-place "
            "errors are violations. PURITY (every case): every tensor passed to the operation and held constant (images, coordinates, "
            "masks, fixed fields, Parameters not differentiated; also image / mask tensors that already have the float32 dtype the "
            "correlation and overlap losses cast to, and scalar non-zero padding values 0.5 / -1.0 / 2 for grid_sample / sample_image / "
            "warp_image / Image.sample / SampleImage / AlignImage / TransformImage / ImageTransformer with the image held constant) is "
            "bitwise unchanged after forward + backward + all finite-difference evaluations + the optimiser iterations; the "
            "differentiated input is not written to by a no-grad evaluation; the second evaluation reproduces the value of the first "
            "and the value after the finite-difference evaluations equals the value before them (round-off of one evaluation) - "
            "checked before unreliable directions become a skip, because a drifting input is exactly what makes them unreliable. "
            "KINKS AND SINGULAR POINTS (20 entries): mae / l1 / L1ImageLoss at identical images, L1Norm / Sparsity at zero parameters, "
            "total variation / grad_loss (p*q >= 1, incl. q = 1/p: the Euclidean norm of the gradient) and their modules on zero, "
            "constant and compactly supported fields, inverse_consistency_loss on exactly inverse-consistent pairs (zero fields, "
            "compact support, a translation and its inverse as matrices, a transformation with its linked inverse or with a second "
            "transformation at the inverse parameters), Landmark / ClosestPointDistance at coincident points, abspow(exponent >= 1) "
            "at 0, the angle-axis / quaternion conversions at the zero rotation vector / identity quaternion / identity matrix, with "
            "the residual exactly zero everywhere or on a generated part: the gradient is finite and, with positive generated "
            "weights, -D+f(-d) <= <grad f, d> <= D+f(d) for the one-sided directional derivatives along 3 generated directions "
            "(both bounds coincide with the derivative at a smooth point). Grid axes with a single sample are generated for "
            "normalize_flow / denormalize_flow / normalize_grid / denormalize_grid. Every entry is probed by a seed-independent floor (at generic values AND at its special point) plus "
            "generated cases (1 in 4 at the special point); the self-test fails "
            "(exit 2) when a public name of losses.functional, losses, core.functional, modules or spatial has neither an entry nor "
            "a justified exclusion (EXCLUDED). TRANSFORM HISTORIES (108 entries: 16 transform classes x read path call / tensor() / "
            "disp() / flow() / points() / .inv.tensor() / inverse(update_buffers=True).disp()): the transformation object is not fresh "
            "but has a generated history of public calls - a prefix of 0..3 of {call, update, tensor / disp read, data_, "
            "reset_parameters, condition_, clear_buffers, load_state_dict, optimiser step, train, eval, .inv, grid_ (resampling / "
            "B-spline subdivision)}, each executed under torch.no_grad() or with autograd enabled, then a LAST operation that defines "
            "the cached state by contract (constructor; the documented setters data_ with a Parameter or a plain tensor, grid_, "
            "reset_parameters, condition_; clear_buffers - each under no_grad or grad; update / call with autograd enabled) - and the "
            "loss is built from the read path WITHOUT an intervening update() / call: the output requires grad, the gradient reaches "
            "the parameters the history left behind and equals the finite difference, and the value equals the one after an explicit "
            "update() (later evaluations refresh explicitly; the call path relies on its pre-forward hook alone, also in eval mode). "
            "OPTION FLOOR: every entry that takes the derivative `mode` option (spatial / flow derivatives, Jacobians, curl, "
            "divergence, Lie bracket, compose_svfs, the regularisers and their modules, Curl) x every documented mode (default, "
            "forward, backward, central, forward_central_backward, sobel, prewitt, gaussian, bspline) with sigma None / 0.7 / 1.0 at "
            "generic float64 values, seed-independent. FLOAT64 IS FLOAT64: under the float64 rule a float32 result is a violation "
            "unless the entry declares the float32 rule, and a finite-difference direction is dropped as unreliable at a generic "
            "point only after the STAIRCASE PROBE passed: increments over the micro steps h/512 and h/256 are linear on at least one "
            "side within 4096 eps64 sum|w*out| + curvature + 5 % (a float64-accurate piecewise smooth function; a float32 "
            "intermediate - data or coordinates cast down and back, a kernel pulling the convolution to single precision - moves the "
            "value in jumps of eps32 * |term| on both sides, or not at all). Exploration, not proof.",
    "note": "Trusted: nothing of autograd - the reference is the finite difference of the same forward function, whose accuracy "
            "is established per direction by comparing steps h and h/2 and the extrapolated second difference (kink "
            "detector); unreliable directions are dropped and counted, cases without a reliable direction are skipped and "
            "counted. Forward values are not checked here (other properties do). Tolerance: rel*max(|ad|,|fd|) + "
            "8*eps(dtype)*sum|w*out|/h (round-off of the difference quotient). The checker is self-tested on a known-good "
            "composite and module and on wrong-backward / detach / rounding / integer-cast / in-place / kink / NaN-gradient / "
            "stale-after-step / float32-staircase / zero-input-shortcut functions. A direction is used only if the difference "
            "quotients of steps h and h/2 agree within HALF the tolerance (their difference estimates the error of the finer one when "
            "the second-order term is only piecewise smooth, as for exp(v) at v = 0) and the second differences are consistent. The "
            "round-off floor uses the magnitude of the perturbed outputs as well (outputs that are exactly zero at a special point). "
            "Kink oracle: valid for locally Lipschitz, Clarke-regular scalarisations (positive combinations of |.| / norms of "
            "functions that are smooth, or piecewise linear with value 0, at the point; smooth functions), which is why its weights "
            "are positive and why the two fields of a compactly supported inverse-consistency pair share their support; one-sided "
            "quotients of steps h and h/2, their difference (x3) is the error estimate added to the bracket, a direction whose "
            "estimate exceeds max(1.5 tol, 1e-2 natural units) or in which the lower bound exceeds the upper one is dropped and "
            "counted. The inputs held constant are found by walking the closure of the entry's evaluation function (tensors, "
            "lists / dicts of tensors, Parameters of captured modules; module buffers are recomputed state, not inputs). The kink "
            "oracle and the purity checks are self-tested (|x| and norm at 0 pass as open kinks, sqrt(x**2) is NaN, an out-of-"
            "bracket gradient, an operation writing into a constant input / into its leaf under no_grad / drifting with the call count).",
    "technique": "property-based testing (Hypothesis) with a finite-difference derivative oracle over a data-driven table of entry points",
}
ASSUMPTIONS = [
    "transform_histories: probed at generic parameter values only; a final state 'fresh' has no prefix and reset_parameters is not "
    "used as last operation (zero parameters put every sample on an interpolation knot, where autograd legitimately returns a "
    "one-sided derivative; special points of transformations are covered by the facets without history)",
    "special points (central-difference oracle) are generated only where the operation is differentiable there and not legitimately "
    "constant in a leaf, decided from the formula: not for |x| at 0 (mae / l1, L1Norm, Sparsity, total_variation_loss, grad_loss with "
    "odd p or q not in {1, 2}) and norm at 0 (inverse_consistency_loss, point distances) - these convex kinks, and the angle-axis / "
    "quaternion conversions at zero rotation (smooth maps computed through sqrt of the squared angle), are the entries of the kinks "
    "facet (finite gradient + one-sided bracket) -, acos at 1 (3D euler_rotation_angles), linear interpolation of non-constant data exactly at its knots (flow / transform leaves of warps on the "
    "same grid: generated with a source grid of another size, remaining knot hits are dropped by the kink detector and counted as "
    "skips), bilinear forms with a zero factor (lie_bracket; the weights W of a callable at zero conditioning input; masks / weights / "
    "norm of a zero residual at identical images), sample_flow w.r.t. coordinates of a zero field, constant images w.r.t. coordinates",
    "GenericSpatialTransform(flip_grid_coords=True) with predicted 3D Euler angles that are exactly zero returns a NaN gradient "
    "(euler_rotation_angles: acos at 1, the gimbal lock of the ZXZ / XZX decomposition) although the transformation is a smooth "
    "function of the predicted angles there: generated, reported under its own kind grad_nonfinite:GenericSpatialTransform.callable"
    "[flip_grid_coords,zero_euler_angles] (proposed known finding K20-1)",
    "not generated at all, because no finite one-sided derivative exists and nothing can be asserted: x ** q with q < 1 at 0 (abspow "
    "with exponent < 1, grad_loss with p * q < 1), normalisation of a zero vector (normalize_quaternion at 0, polyline directions / "
    "tangents of coincident points with normalize=True), euler_rotation_angles of a 3D matrix at the gimbal lock, "
    "quaternion_exp_to_log next to w = 1 (acos); nor the kinks that are not of the regular (convex) type, where autograd's mixed "
    "one-sided selection need not lie between the one-sided directional derivatives: linear interpolation exactly at the knots "
    "(identity transformation sampled on its own grid), max / min pooling ties, max_difference ties",
    "purity compares constant inputs bitwise and values within the round-off of one evaluation (8 eps sum|w*out|); it presumes that "
    "deepali's CPU kernels are run-to-run deterministic for one thread (the runner pins OMP_NUM_THREADS=1)",
    "at identical images the similarity losses are at their optimum: the true gradient is zero, the comparison is against the round-off "
    "floor only (for the float32 correlation / overlap ratios 8 x the single-rounding floor: three accumulated sums; 4 x was exceeded by 4 % in one thorough case), such cases are "
    "not counted as non-trivial; they assert that the output requires grad and that the gradient is finite and zero within round-off",
    "CompositeTransform.disp() / tensor() of a composite with a non-rigid member evaluate the members at float32 grid.coords(): the "
    "float64 result is a float32 staircase and the float32 step would cross interpolation knots, so a direction is used only if "
    "the difference quotient of a 512 times smaller step still agrees (otherwise dropped and counted); not a defect",
    "inputs are generic (hash noise) and constructed >= 0.05 samples away from interpolation knots / clamping and reflection "
    "borders where the sampling coordinates are inputs; derived sampling positions (transformed grids, scaling-and-squaring "
    "iterates) are generic and protected by the h vs h/2 and second-difference reliability test",
    "mi_loss/nmi_loss (and the MI/NMI modules) are called with explicit vmin/vmax/num_bins (with the defaults the bin centres are "
    "taken from the data through .item(), so autograd differentiates another function than a finite difference perturbs; not a "
    "defect); for the same reason normalize_image and rescale are called with explicit bounds and data strictly inside them",
    "nearest-neighbour sampling and binarize=True are excluded (piecewise constant by definition); masks are fixed positive "
    "weights, differentiated only where the documentation calls them multiplicative weights (dice 'weight', wlcc_loss masks, "
    "dot_channels/dot_batch 'weight', vectordot 'w', masked_loss 'mask')",
    "closest-point distances: the second point set lies on jittered lattice sites (pairwise separation >= 0.8 units), every point "
    "of the first set is one of them plus an offset of norm 0.1..0.3 units, so the nearest neighbour is unique with a margin >= 0.2 "
    "units and no distance is zero; landmark distances: offsets of norm 0.1..0.5",
    "entries whose differentiated input moves interpolation positions are run in float64 only (module.double()); the float32 "
    "rule is applied where deepali itself computes in float32 (ncc/lcc/wlcc/dice/tversky, point set distances, grid_sample_mask, "
    "disp() of linear transforms, resampling on Grid objects) and to default float32 Parameters of linear transforms (smooth in "
    "their parameters); disp(other grid) of the two stationary-velocity classes is not generated (float32 step would cross "
    "interpolation knots)",
    "grad_loss with an effective exponent q < 1 is not combined with mode forward/backward: the replicate-padded one-sided "
    "difference is identically zero at one border and x**q has an infinite slope there for every input (autograd returns NaN; "
    "recorded as an observation, not asserted)",
    "Grid.transform_points with its documented default decimals rounds (zero gradient by design): recorded, not asserted",
    "transform histories: only operations that define the cached state by contract are generated as the LAST operation before a read "
    "through tensor() / disp() / flow() / points() / .inv / inverse(update_buffers=True) - the constructor, data_(), grid_(), "
    "condition_(), reset_parameters(), clear_buffers() (each clears the buffers, the next read recomputes them lazily: "
    "NonRigidTransform.tensor), update() or a call with autograd enabled. After an in-place edit of the parameters (optimiser step, "
    "load_state_dict) or after an evaluation under torch.no_grad() the documentation requires update() or a call before such a "
    "read (SpatialTransform.update docstring; C09 / C06 assumptions): these occur in the generated prefix only, and the "
    "finite-difference side / later iterations call update() explicitly. The gradient is taken w.r.t. the Parameters the history "
    "left behind (data_ with a plain tensor and grid_ create new Parameter objects; grid_ is @torch.no_grad() by design, nothing "
    "is asserted about derivatives through a re-gridding). condition_() is called with a tensor (CompositeTransform.condition_ "
    "asserts an argument); parameters are held as Parameters (callable parameters of linear transformations after condition_: "
    "known finding K5 of C09, not generated here)",
    "staircase probe: asserted at generic points only (at special points nominal interpolation knots displaced by the float32 "
    "round-off of Grid attributes cluster within 1e-9 of the point: one-sided kinks inside the micro steps, measured on "
    "ImageTransformer at identity parameters) and only if BOTH sides deviate from linearity; entries whose float64 result is "
    "float32 accurate by documented design declare it: rule='f32' (correlation / overlap losses, point set distances, "
    "grid_sample_mask, resampling on Grid objects incl. grid_resample, affine_flow / disp() / flow() of linear transformations, "
    "label_smoothing) or staircase=True (CompositeTransform.disp() / tensor() with a non-rigid member)",
    "cases hitting defects owned by other properties are skipped and counted: tversky_loss TypeError (F11, C16), compose_flows / "
    "logv with N > 1 (F25, C13), elasticity_loss(mode='bspline') shape error (N17-1, C17)",
    "forward limitations that are not gradient matters are generated around (reported, not asserted): PatchwiseImageLoss accepts a "
    "mask only for single-channel volumes; TransformImage takes a 3-dimensional tensor for an unbatched 2D flow field, so linear "
    "transforms are generated for D = 3 only; GenericSpatialTransform._data() has no 'shearing' entry, so 'K' is not generated with "
    "callable parameters, and flip_grid_coords uses euler_rotation_angles (orders ZXZ / XZX only); denormalize_grid infers the size "
    "from channels-last shapes only; gaussian_pyramid is called with min_size=2 (a grid axis reduced to one sample with "
    "align_corners=True is a Grid.downsample matter); Pad / pad with a non-constant mode take no fill value",
    "the Image / ImageBatch / FlowFields tensor itself is the optimised leaf of the data-API entries (their constructors create a "
    "new leaf from a plain tensor, like torch.nn.Parameter)",
    "rand_sample is made deterministic by a freshly seeded torch.Generator per call (differentiated w.r.t. the sampled data)",
]

REL64, REL32 = 1e-5, 2e-2
H64, H32 = 1e-6, 1e-2
KNOISE = 8.0
NT_FRACTION = 1e-3  # non-trivial: |fd| >= 1e-3 * sum|w*out| / scale


# =======================================================================================
# generic oracle


class Probe:
    """A differentiable entry point prepared for one case.

    leaves    tensors with requires_grad=True (torch.nn.Parameter of a module or plain inputs)
    evaluate  zero-argument callable computing the output (Tensor | list | dict of tensors) from the
              *current* values of the leaves (modules are called again, so buffers are recomputed)
    scale     natural magnitude of the leaves (step h = H*scale)
    abs_mag   lower bound of |out_i| used in the round-off floor: losses returned as 1 - (ratio <= 1) are computed with
              intermediate values of magnitude 1, so their round-off is relative to 1, not to the (smaller) result
    rule      None: float64 rule iff output and leaves are float64, else float32 rule; "f32" forces the float32 rule
    stateful  evaluate() goes through a torch.nn.Module that keeps buffers: a second forward/backward
              on the same object is required to give the same gradient (optimiser iteration 2)

    Every tensor that evaluate() can reach besides the leaves (the tensors captured by its closure: constant images, coordinates,
    masks, fixed fields, Parameters of modules that are not differentiated) is an INPUT HELD CONSTANT: see _Inputs (purity).
    """

    def __init__(self, leaves, evaluate, scale, stateful=False, labels=(), record_only=None, rule=None, abs_mag=0.0, staircase=False,
                 tag=""):
        self.tag = str(tag)  # suffix of the entry name in violation kinds: a documented sub-condition of the entry (stable, no numbers)
        self.staircase = bool(staircase)  # float64 result computed through float32 coordinates: see _staircase()
        self.abs_mag = float(abs_mag)  # magnitude of intermediate values when the output is a difference (1 - ratio)
        self.rule = rule  # "f32": the operation computes in float32 internally although it returns the input dtype
        self.leaves = list(leaves)
        self.evaluate = evaluate
        self.scale = float(scale)
        self.stateful = stateful
        self.labels = list(labels)
        self.record_only = record_only


def _tensors(out):
    if isinstance(out, torch.Tensor):
        return [out]
    if isinstance(out, dict):
        return [out[k] for k in sorted(out)]
    return list(out)


def _flat(out) -> torch.Tensor:
    ts = [t.as_subclass(torch.Tensor).reshape(-1) for t in _tensors(out)]
    return ts[0] if len(ts) == 1 else torch.cat(ts)


def noise(shape, key, lo=-1.0, hi=1.0, dtype=torch.float64) -> torch.Tensor:
    return torch.tensor(hash_noise(tuple(shape), int(key), lo, hi), dtype=dtype)


def _weights(n: int, key: int) -> torch.Tensor:
    """Generated fixed weights in +-[0.25, 1] (bounded away from zero so that no output is ignored)."""
    u = hash_noise((n,), key * 7 + 1, -1.0, 1.0)
    return torch.tensor(np.sign(u) * (0.25 + 0.75 * np.abs(u)) + (u == 0), dtype=torch.float64)


def _directions(leaves, key: int):
    """Three generated directions with max|d| = 1: two dense, one supported on ~30 % of the entries of one leaf."""
    dirs = []
    for k in range(3):
        ds = [noise(p.shape, key * 13 + 101 * k + 7 * i + 3) for i, p in enumerate(leaves)]
        if k == 2:
            j = (key + 1) % len(leaves)
            m = noise(leaves[j].shape, key * 17 + 5, 0.0, 1.0) < 0.3
            if not bool(m.any()):
                m.reshape(-1)[(key // 3) % m.numel()] = True
            ds = [d * m if i == j else torch.zeros_like(d) for i, d in enumerate(ds)]
        mx = max(float(d.abs().max()) for d in ds)
        dirs.append([d / mx for d in ds])
    return dirs


_INPLACE = "modified by an inplace operation"
_TWICE = "backward through the graph a second time"


def _backward(entry, s, leaves):
    try:
        return torch.autograd.grad(s, leaves, allow_unused=True)
    except RuntimeError as e:  # only the two documented autograd failure modes are property violations
        msg = str(e)
        if _INPLACE in msg:
            raise Violation(f"inplace_modification:{entry}", msg[:300])
        if _TWICE in msg:
            raise Violation(f"stale_graph:{entry}", msg[:300])
        raise


def _captured_tensors(fn, leaves):
    """The tensors evaluate() can reach besides the leaves: contents of its closure cells, followed through nested closures,
    lists / tuples / dicts and the Parameters of captured modules (buffers are recomputed by update() and are not inputs)."""
    seen, out = set(), []

    def visit(o, depth):
        if id(o) in seen or depth > 6:
            return
        seen.add(id(o))
        if isinstance(o, torch.Tensor):
            if not any(o is leaf for leaf in leaves):
                out.append(o)
        elif isinstance(o, torch.nn.Module):
            for q in o.parameters():
                visit(q, depth + 1)
        elif isinstance(o, (list, tuple)):
            for x in o:
                visit(x, depth + 1)
        elif isinstance(o, dict):
            for x in o.values():
                visit(x, depth + 1)
        elif callable(o):
            for x in (getattr(o, "__self__", None), getattr(o, "__func__", None)):
                if x is not None and not isinstance(x, type):
                    visit(x, depth + 1)
            for cell in getattr(o, "__closure__", None) or ():
                try:
                    visit(cell.cell_contents, depth + 1)
                except ValueError:  # empty cell
                    pass

    visit(fn, 0)
    return out


class _Inputs:
    """Purity of an entry point: the operation is a FUNCTION of its inputs.  Snapshot of every input held constant, taken before
    the first evaluation; after all forward / backward / finite-difference evaluations (leaves restored) every one of them must be
    bitwise unchanged, and evaluating the same entry with the same inputs again must reproduce the first value (an operation that
    writes into a caller's tensor - e.g. an in-place subtraction on an un-copied alias of the image - returns the right value and
    gradient once, every later evaluation (finite differences, the next optimisation step) sees drifted data; the finite-difference
    reliability test alone would drop such directions as 'unreliable')."""

    def __init__(self, probe: Probe):
        self.tensors = _captured_tensors(probe.evaluate, probe.leaves)
        self.snap = [t.detach().as_subclass(torch.Tensor).clone() for t in self.tensors]

    def check(self, entry: str):
        for i, (t, s) in enumerate(zip(self.tensors, self.snap)):
            now = t.detach().as_subclass(torch.Tensor)
            if now.shape != s.shape or now.dtype != s.dtype or not torch.equal(now, s):
                same = now.shape == s.shape and now.dtype == s.dtype
                d = float((now.double() - s.double()).abs().max()) if same else float("nan")
                raise Violation(f"input_modified:{entry}",
                                f"a tensor that is passed to the operation and held constant (captured input {i}, shape "
                                f"{tuple(s.shape)}, {s.dtype}, requires_grad={t.requires_grad}) was modified by evaluating the "
                                f"operation: max |change| {d:.6g}")


def _check_reproducible(entry, what, a, b, eps, fmag):
    """Two evaluations of the same entry with the same inputs: equal up to the round-off of one evaluation."""
    tol = KNOISE * eps * max(fmag, 1e-300)
    if not abs(a - b) <= tol:
        raise Violation(f"not_reproducible:{entry}",
                        f"{what}: {a!r} vs {b!r} (|delta| {abs(a - b):.3g} > {tol:.3g}): the value of the operation depends on "
                        "how often it was evaluated before, not only on its inputs")


class _Eval:
    def __init__(self, probe: Probe, w: torch.Tensor):
        self.p = probe
        self.w = w
        self.base = [leaf.detach().clone() for leaf in probe.leaves]
        self.mag = 0.0  # max over the evaluations of sum|w * out|: magnitude of the PERTURBED outputs (round-off floor at
        #                 special points where the unperturbed output is exactly zero)
        self.moved = None  # (leaf index, max |change|) if an evaluation wrote into a differentiated input (see leaves_kept)

    def set(self, t: float, d):
        with torch.no_grad():
            for leaf, b, di in zip(self.p.leaves, self.base, d):
                leaf.copy_(b + t * di.to(b.dtype))

    def __call__(self, t: float, d) -> float:
        self.set(t, d)
        with torch.no_grad():
            o = _flat(self.p.evaluate()).double()
            value = float((self.w * o).sum())  # before the leaves are restored: `o` may alias a leaf
            self.mag = max(self.mag, float((self.w.abs() * o.abs()).sum()))
            if self.moved is None:
                for i, (leaf, b, di) in enumerate(zip(self.p.leaves, self.base, d)):
                    want = b + t * di.to(b.dtype)
                    if not torch.equal(leaf.detach().as_subclass(torch.Tensor), want):
                        self.moved = (i, float((leaf.detach().as_subclass(torch.Tensor) - want).abs().max()))
                        break
        self.set(0.0, d)
        return value

    def leaves_kept(self, entry: str):
        """Purity w.r.t. the differentiated inputs: an evaluation (in no-grad mode, as at inference time) must not write into
        them either (the finite-difference oracle itself relies on the leaves staying where it put them)."""
        if self.moved is not None:
            raise Violation(f"input_modified:{entry}",
                            f"evaluating the operation with autograd disabled changed the differentiated input (leaf {self.moved[0]}) "
                            f"in place: max |change| {self.moved[1]:.6g}")


def _staircase(probe, F, h, d, c2, tol, floor) -> bool:
    """Probes marked `staircase` return a float64 result that is computed through float32 coordinates (a staircase at the 1e-7
    level): the difference quotient of a step 512 times smaller must still agree, else the direction is unreliable."""
    if not probe.staircase:
        return False
    tau = h / 512
    c4 = (F(tau, d) - F(-tau, d)) / (2 * tau)
    return abs(c4 - c2) > tol + 512 * floor


STAIR_DIV = 512  # micro step tau = h / STAIR_DIV (~2e-9 natural units under the float64 rule)
STAIR_NOISE = 4096.0  # x eps64 * sum|w*out|: ~1e-12 relative; a float32 intermediate moves the value in jumps of ~1e-8 relative


def _float32_staircase(entry, F, h, d, fmag, quotients, second):
    """Float64 rule = the operation preserves float64 (property: 'float64 where the operation preserves it'): its value is then a
    float64-accurate function of the differentiated input.  Asserted at GENERIC points when a finite-difference direction is
    unreliable, BEFORE it is dropped: with the micro steps tau = h / 512 and 2 tau the one-sided increments a(t) = F(t) - F(0) of a
    float64-accurate function that is smooth on (0, 2 tau) satisfy a(2 tau) = 2 a(tau) up to curvature * tau^2 (bounded by the
    second difference at step h, scaled) and the round-off of the evaluations.  A kink of a piecewise smooth function inside
    (0, 2 tau) breaks this on ONE side (probability ~1e-8 per kink of a generic input; special points, where nominal knots
    displaced by round-off cluster around the point, are not probed); a result that passed through a float32 intermediate (data
    or coordinates cast down and back, a kernel that pulls the computation to single precision) is a staircase at the 1e-7
    level: on BOTH sides the increments are sums of a few jumps of eps32 * |term|, four to six orders above the float64
    round-off, and a(2 tau) is not 2 a(tau); or nothing flips at all and the value is bitwise constant at the micro level although
    it moves consistently at the level of h.  (The autograd gradient of such an operation is close to the true one; it is the
    FUNCTION that cannot be optimised / checked to float64 accuracy, and the 'unreliable' finite differences are its symptom.)"""
    tau = h / STAIR_DIV
    f0 = F(0.0, d)
    a = {s: F(s * tau, d) - f0 for s in (1, 2, -1, -2)}
    mag = max(fmag, F.mag)
    noise_ = STAIR_NOISE * EPS64 * mag + 8 * abs(second) / STAIR_DIV ** 2
    dev = {sgn: abs(a[2 * sgn] - 2 * a[sgn]) for sgn in (1, -1)}
    lim = {sgn: noise_ + 0.05 * max(abs(a[sgn]), abs(a[2 * sgn])) for sgn in (1, -1)}
    if all(dev[s] > lim[s] for s in (1, -1)):
        raise Violation(f"float32_staircase:{entry}",
                        f"float64 input and output, but the value is not a float64-accurate function of the input: increments "
                        f"F(t)-F(0) at t = tau, 2 tau, -tau, -2 tau (tau = {tau:.3g}): {a[1]:.6g}, {a[2]:.6g}, {a[-1]:.6g}, {a[-2]:.6g} "
                        f"deviate from linearity on both sides by {dev[1]:.3g}, {dev[-1]:.3g} > {lim[1]:.3g}, {lim[-1]:.3g} "
                        f"({STAIR_NOISE:g} eps64 sum|w*out| + curvature + 5 %; a float32 intermediate moves the value in jumps of "
                        f"~{EPS32 * mag:.3g} * fraction); difference quotients at h, h/2: {quotients[1]:.6g}, {quotients[2]:.6g}, "
                        f"autograd {quotients[0]:.6g}")
    ad, c1, c2 = quotients
    moving = abs(c1) * h > 64 * noise_ and abs(c2) * h > 64 * noise_ and c1 * c2 > 0 and 0.5 < abs(c1 / c2) < 2.0
    if moving and all(v == 0.0 for v in a.values()):
        raise Violation(f"float32_staircase:{entry}",
                        f"float64 input and output, but the value is bitwise constant for perturbations of +-{tau:.3g} and "
                        f"+-{2 * tau:.3g} while the difference quotients at h = {h:.3g} and h/2 are {c1:.6g} and {c2:.6g}: "
                        "piecewise constant function (float32 intermediate)")


def check_probe(entry: str, probe: Probe, key: int) -> dict:
    leaves = probe.leaves
    inputs = _Inputs(probe)  # snapshot of the inputs held constant, before the first evaluation
    out = _flat(probe.evaluate())
    labels = [entry] + probe.labels
    entry = entry + probe.tag  # violation kinds of a documented sub-condition of the entry
    if not out.is_floating_point():
        raise Violation(f"output_not_float:{entry}", f"output dtype {out.dtype}")
    if not out.requires_grad:
        if probe.record_only:
            return {"nontrivial": False, "labels": labels + [f"{probe.record_only}:no_grad_path"]}
        raise Violation(f"no_grad_path:{entry}", "output does not require grad although an input/parameter does")
    if not bool(torch.isfinite(out).all()):
        raise Violation(f"output_nonfinite:{entry}", "forward value is not finite")
    if out.dtype != torch.float64 and probe.rule != "f32" and all(p.dtype == torch.float64 for p in leaves):
        # the table declares (rule="f32") where deepali casts to float32; everywhere else float64 inputs give a float64 result -
        # otherwise the float32 rule with its large step would silently judge an operation that lost its precision
        raise Violation(f"float64_not_preserved:{entry}",
                        f"every differentiated input is float64 but the output is {out.dtype} (the operation is not one of those "
                        "that documentedly compute in float32)")
    f64 = out.dtype == torch.float64 and all(p.dtype == torch.float64 for p in leaves) and probe.rule != "f32"
    eps, rel, h = (EPS64, REL64, H64 * probe.scale) if f64 else (EPS32, REL32, H32 * probe.scale)
    labels.append("rule=f64" if f64 else "rule=f32")
    w = _weights(out.numel(), key)
    s = (w.to(out.dtype) * out).sum()
    fmag = float((w.abs() * out.detach().double().abs().clamp_min(probe.abs_mag)).sum())
    grads = _backward(entry, s, leaves)
    grads = [torch.zeros_like(p) if g is None else g.detach().clone() for g, p in zip(grads, leaves)]
    if probe.record_only:
        z = all(float(g.abs().max()) == 0.0 for g in grads)
        return {"nontrivial": False, "labels": labels + [f"{probe.record_only}:{'grad_zero' if z else 'grad_nonzero'}"]}
    for i, g in enumerate(grads):
        if not bool(torch.isfinite(g).all()):
            raise Violation(f"grad_nonfinite:{entry}", f"gradient w.r.t. leaf {i} has non-finite entries (finite forward value)")
    F = _Eval(probe, w)
    f0 = F(0.0, [torch.zeros_like(p) for p in leaves])
    # purity (1): the second evaluation (no-grad mode) reproduces the value of the first one (grad mode, before backward)
    inputs.check(entry)
    _check_reproducible(entry, "value of the first evaluation vs the second evaluation with the same inputs",
                        float((w * out.detach().double()).sum()), f0, eps, max(fmag, F.mag))

    # -- leaves whose gradient is identically zero: does the function depend on them at all?
    for i, g in enumerate(grads):
        if float(g.abs().max()) != 0.0:
            continue
        d = [noise(p.shape, key * 19 + 11) if j == i else torch.zeros_like(p) for j, p in enumerate(leaves)]
        d = [x / max(1e-30, float(d[i].abs().max())) for x in d]
        hc = 1e-3 * probe.scale if f64 else h
        vals = [F(hc, d), F(-hc, d), F(hc / 2, d), F(-hc / 2, d)]
        fmag = max(fmag, F.mag)
        unit = fmag / probe.scale  # natural unit of a directional derivative
        if all(v == f0 for v in vals):
            raise Violation(f"locally_constant:{entry}",
                            f"the scalarised output is bitwise unchanged by perturbations of +-{hc:.3g} and half of it of leaf {i} "
                            "(and its gradient is identically zero): the operation is locally constant in an input it is meant to "
                            "be optimised through")
        c1, c2 = (vals[0] - vals[1]) / (2 * hc), (vals[2] - vals[3]) / hc
        floor = 10 * KNOISE * eps * fmag / hc + NT_FRACTION * unit
        if abs(c1) > floor and abs(c2) > floor and c1 * c2 > 0 and 0.5 < abs(c1 / c2) < 2.0:
            raise Violation(f"zero_gradient:{entry}",
                            f"gradient w.r.t. leaf {i} is identically zero but the central difference along a direction in that "
                            f"leaf is {c1:.6g} (step {hc:.3g}) / {c2:.6g} (step {hc / 2:.3g})")

    worst, nontrivial, used = 0.0, False, 0
    for k, d in enumerate(_directions(leaves, key)):
        ad = float(sum((g.double() * di).sum() for g, di in zip(grads, d)))
        fp, fm, fp2, fm2 = F(h, d), F(-h, d), F(h / 2, d), F(-h / 2, d)
        c1, c2 = (fp - fm) / (2 * h), (fp2 - fm2) / h
        j1, j2 = (fp - 2 * f0 + fm) / h, (fp2 - 2 * f0 + fm2) / (h / 2)
        fmag = max(fmag, F.mag)  # outputs that are exactly zero at a special point: round-off of the perturbed values
        unit = fmag / probe.scale  # natural unit of a directional derivative
        floor = KNOISE * eps * fmag / h
        tol = rel * max(abs(ad), abs(c1), abs(c2)) + floor
        # |c1 - c2| estimates the error of c2 itself when the truncation error is linear in h (second-order terms that are only
        # piecewise smooth, e.g. exp(v) at v = 0): half the tolerance keeps a margin of 2 (smooth terms: O(h^2), margin 6)
        if abs(c1 - c2) > tol / 2 or abs(2 * j2 - j1) > tol + 4 * floor or _staircase(probe, F, h, d, c2, tol, floor):
            if f64 and not probe.staircase and "point=special" not in probe.labels:
                # float64 rule: the direction may be unreliable because of a kink or strong curvature, NOT because the float64
                # result is only float32 accurate (checked before the direction is dropped: see _float32_staircase)
                _float32_staircase(entry, F, h, d, fmag, (ad, c1, c2), fp - 2 * f0 + fm)
                labels.append("staircase_probe=passed")
            labels.append(f"fd_unreliable:{entry}")
            continue
        used += 1
        err = abs(ad - c2)
        if err > tol:
            kind = "zero_gradient" if all(float(g.abs().max()) == 0.0 for g in grads) else "grad_mismatch"
            raise Violation(f"{kind}:{entry}",
                            f"direction {k}: autograd {ad:.9g} vs central difference {c2:.9g} (h/2) / {c1:.9g} (h={h:.3g}); "
                            f"|delta|={err:.3g} > tol {tol:.3g} (rel {rel:g}, floor {floor:.3g}, rule {'f64' if f64 else 'f32'})")
        worst = max(worst, err / tol)
        nontrivial = nontrivial or abs(c2) >= NT_FRACTION * unit
    # purity (2): after the finite-difference evaluations the same inputs still give the same value, and no input held constant
    # was written to (checked BEFORE unreliable directions are turned into a skip: a drifting input makes them unreliable)
    inputs.check(entry)
    F.leaves_kept(entry)
    _check_reproducible(entry, "value before vs after the finite-difference evaluations (same inputs)", f0,
                        F(0.0, [torch.zeros_like(p) for p in leaves]), eps, fmag)
    if used == 0:
        raise Skip(f"fd_unreliable:{entry}")

    if probe.stateful:
        out2 = _flat(probe.evaluate())
        if not out2.requires_grad:
            raise Violation(f"no_grad_path_second_call:{entry}", "second forward on the same module lost the graph")
        g2 = _backward(entry, (w.to(out2.dtype) * out2).sum(), leaves)
        for i, (a, b) in enumerate(zip(grads, g2)):
            b = torch.zeros_like(a) if b is None else b
            m = float(a.abs().max())
            if float((a - b).abs().max()) > 64 * eps * max(m, 1e-30) * max(1.0, math.sqrt(a.numel())):
                raise Violation(f"second_backward_differs:{entry}",
                                f"leaf {i}: gradient of a second forward/backward on the same module differs by "
                                f"{float((a - b).abs().max()):.3g} (max |g| {m:.3g})")
        # optimiser iteration 2: the leaves are changed in place (as an optimiser step does), then forward/backward on the
        # same module again; the gradient must be the derivative at the NEW point (buffers recomputed from the parameters)
        dirs = _directions(leaves, key + 1)
        step = 0.03 * probe.scale
        with torch.no_grad():
            for leaf, di in zip(leaves, dirs[0]):
                leaf.add_(step * di.to(leaf.dtype))
        try:
            out3 = _flat(probe.evaluate())
            if not out3.requires_grad:
                raise Violation(f"no_grad_path_after_step:{entry}", "forward after an in-place parameter step lost the graph")
            g3 = _backward(entry, (w.to(out3.dtype) * out3).sum(), leaves)
            g3 = [torch.zeros_like(p) if g is None else g.detach().clone() for g, p in zip(g3, leaves)]
            F3 = _Eval(probe, w)
            f03 = F3(0.0, dirs[1])
            d = dirs[1]
            ad = float(sum((g.double() * di).sum() for g, di in zip(g3, d)))
            fp, fm, fp2, fm2 = F3(h, d), F3(-h, d), F3(h / 2, d), F3(-h / 2, d)
            c1, c2 = (fp - fm) / (2 * h), (fp2 - fm2) / h
            j1, j2 = (fp - 2 * f03 + fm) / h, (fp2 - 2 * f03 + fm2) / (h / 2)
            floor = KNOISE * eps * max(fmag, F3.mag) / h
            tol = rel * max(abs(ad), abs(c1), abs(c2)) + floor
            if abs(c1 - c2) <= tol / 2 and abs(2 * j2 - j1) <= tol + 4 * floor and not _staircase(probe, F3, h, d, c2, tol, floor):
                if abs(ad - c2) > tol:
                    raise Violation(f"grad_mismatch_after_step:{entry}",
                                    f"after an in-place step of {step:.3g} of the leaves: autograd {ad:.9g} vs central difference "
                                    f"{c2:.9g} at the new point (tol {tol:.3g}); gradient at the first point along the same "
                                    f"direction: {float(sum((g.double() * di).sum() for g, di in zip(grads, d))):.9g}")
                worst = max(worst, abs(ad - c2) / tol)
                labels.append("after_step=checked")
            else:
                labels.append("after_step=fd_unreliable")
        finally:
            with torch.no_grad():
                for leaf, b in zip(leaves, F.base):
                    leaf.copy_(b)
        inputs.check(entry)  # purity (3): nor by the repeated forward / backward passes of the optimiser iterations
    return {"ratio": worst, "nontrivial": nontrivial, "labels": labels}


# =======================================================================================
# self-test of the checker


class _WrongSin(torch.autograd.Function):
    @staticmethod
    def forward(ctx, x):
        ctx.save_for_backward(x)
        return x.sin()

    @staticmethod
    def backward(ctx, g):
        (x,) = ctx.saved_tensors
        return g * x.cos() * 1.001


def _expect(kind_prefix, fn):
    try:
        fn()
    except Violation as v:
        assert v.kind.startswith(kind_prefix), f"expected {kind_prefix}, got {v.kind}"
        return
    except Skip as s:
        assert kind_prefix == "skip", f"expected {kind_prefix}, got Skip({s.reason})"
        return
    raise AssertionError(f"checker did not report {kind_prefix}")


def selftest():
    def leaf(key, dtype=torch.float64, shape=(3, 4)):
        return noise(shape, key, -1.0, 1.0, dtype).requires_grad_(True)

    for dt in (torch.float64, torch.float32):
        x, y = leaf(1, dt), leaf(2, dt)
        r = check_probe("good", Probe([x, y], lambda: (torch.sin(x * y) + x.exp().cumsum(1) * y).tanh(), 1.0), 5)
        assert r["ratio"] < 0.5 and r["nontrivial"], r
    x = leaf(3)
    _expect("grad_mismatch", lambda: check_probe("t", Probe([x], lambda: _WrongSin.apply(x) * 2, 1.0), 1))
    x32 = leaf(3, torch.float32)

    class _W2(torch.autograd.Function):
        @staticmethod
        def forward(ctx, x):
            ctx.save_for_backward(x)
            return x.sin()

        @staticmethod
        def backward(ctx, g):
            return g * ctx.saved_tensors[0].cos() * 1.1

    _expect("grad_mismatch", lambda: check_probe("t", Probe([x32], lambda: _W2.apply(x32), 1.0), 1))
    x, y = leaf(4), leaf(5)
    _expect("zero_gradient", lambda: check_probe("t", Probe([x, y], lambda: x.detach() * y + y, 1.0), 2))
    _expect("zero_gradient", lambda: check_probe("t", Probe([x], lambda: (torch.round(x * 1e6) / 1e6).sin(), 1.0), 2))
    _expect("no_grad_path", lambda: check_probe("t", Probe([x], lambda: x.detach().sin(), 1.0), 2))
    _expect("locally_constant", lambda: check_probe("t", Probe([x, y], lambda: torch.round(x) * y, 1.0), 2))
    _expect("locally_constant", lambda: check_probe("t", Probe([x], lambda: x.long().double() + 0 * x, 1.0), 2))

    _expect("crash_or_inplace", lambda: _inplace_probe(x))
    z = torch.zeros(3, 4, dtype=torch.float64).requires_grad_(True)
    _expect("skip", lambda: check_probe("t", Probe([z], lambda: z.abs() + z, 1.0), 2))
    _expect("grad_nonfinite", lambda: check_probe("t", Probe([z], lambda: torch.where(z > 1, z.sqrt(), z * 0 + 1) * (z + 1), 1.0), 2))
    xs = leaf(9)  # float64 result computed through a float32 intermediate: every direction is dropped, not reported
    _expect("skip", lambda: check_probe("t", Probe([xs], lambda: (xs * 3.0).float().double().sin(), 1.0, staircase=True), 2))
    # float64 rule: a float64 result computed through an UNDECLARED float32 intermediate is reported (staircase probe), a kink next to
    # the point (a float64-accurate piecewise smooth function) is not: its directions are dropped as before; a float32 result of
    # float64 inputs is reported unless the entry declares the float32 rule
    _expect("float32_staircase", lambda: check_probe("t", Probe([xs], lambda: (xs * 3.0).float().double().sin(), 1.0), 2))
    _expect("float32_staircase", lambda: check_probe("t", Probe([xs], lambda: xs.sin() + 0.05 * (xs * 3.0).float().double(), 1.0), 2))
    xk0 = xs.detach().clone()
    _expect("skip", lambda: check_probe("t", Probe([xs], lambda: (xs - xk0 - 3e-7).abs() + 0.5 * xs.sin(), 1.0), 2))
    _expect("float64_not_preserved", lambda: check_probe("t", Probe([xs], lambda: xs.float().sin(), 1.0), 2))
    r = check_probe("declared_f32", Probe([xs], lambda: xs.float().sin(), 1.0, rule="f32"), 2)
    assert r["nontrivial"] and "rule=f32" in r["labels"], r
    z0 = torch.zeros(3, 4, dtype=torch.float64).requires_grad_(True)  # special points: exactly zero output / zero gradient
    r = check_probe("zero_out", Probe([z0], lambda: z0 * 2.0 + z0 * z0.abs(), 1.0), 2)
    assert r["nontrivial"] and r["ratio"] < 0.5, r
    r = check_probe("zero_grad", Probe([z0], lambda: (z0 * z0).cumsum(1), 1.0), 2)
    assert not r["nontrivial"], r
    _expect("grad_mismatch", lambda: check_probe("t", Probe([z0], lambda: z0 if not bool(z0.any()) else z0 * 2.0, 1.0), 2))
    p = torch.nn.Parameter(noise((3, 4), 7, 0.2, 1.0))
    mod = _StaleAfterStep(p)
    _expect("grad_mismatch_after_step", lambda: check_probe("t", Probe([p], mod, 1.0, stateful=True), 3))
    good = torch.nn.Linear(4, 2).double()
    xin = noise((3, 4), 8)
    r = check_probe("good_module", Probe(list(good.parameters()), lambda: good(xin).tanh(), 1.0, stateful=True), 4)
    assert "after_step=checked" in r["labels"], r
    # purity: an operation that writes into an input held constant / whose value depends on the number of evaluations / that writes
    # into the differentiated input when autograd is disabled
    const, xk = noise((3, 4), 11), leaf(12)

    def impure():
        const.sub_(0.5)
        return (xk * const).sin()

    _expect("input_modified", lambda: check_probe("t", Probe([xk], impure, 1.0), 2))
    calls = {"n": 0}

    def drifting():
        calls["n"] += 1
        return xk.sin() + 0.25 * calls["n"]

    _expect("not_reproducible", lambda: check_probe("t", Probe([xk], drifting, 1.0), 2))

    def moves_leaf():
        if not torch.is_grad_enabled():
            xk.mul_(2.0)
            return (0.5 * xk).sin()
        return xk.sin()

    _expect("input_modified", lambda: check_probe("t", Probe([xk], moves_leaf, 1.0), 2))
    # kink oracle: |x| and the Euclidean norm at 0 pass (subgradient 0) and count as an open kink, sqrt(x**2) is NaN, a gradient
    # outside [-D+f(-d), D+f(d)] is reported, a smooth function passes with both bounds equal
    for dt in (torch.float64, torch.float32):
        zk = torch.zeros(3, 4, dtype=dt).requires_grad_(True)
        r = check_kink("k", Probe([zk], lambda: zk.abs() + 0.5 * zk, 1.0), 2)
        assert r["nontrivial"] and "kink_open" in r["labels"], r
        r = check_kink("k", Probe([zk], lambda: torch.linalg.norm(zk, dim=1) + zk.sum(1).sin(), 1.0), 2)
        assert r["nontrivial"] and "kink_open" in r["labels"], r
        _expect("grad_nonfinite", lambda: check_kink("k", Probe([zk], lambda: zk.square().sqrt(), 1.0), 2))
        _expect("grad_nonfinite", lambda: check_kink("k", Probe([zk], lambda: zk.square().sum(1).sqrt(), 1.0), 2))
        _expect("not_a_subgradient", lambda: check_kink("k", Probe([zk], lambda: zk.abs() + 2.0 * (zk - zk.detach()), 1.0), 2))
        _expect("not_a_subgradient", lambda: check_kink("k", Probe([zk], lambda: _W2.apply(zk) * 50, 1.0), 2))
        r = check_kink("k", Probe([zk], lambda: (zk + 0.3).sin() + zk.abs() ** (1.5 if dt == torch.float64 else 2), 1.0), 2)
        assert r["nontrivial"] and r["ratio"] < 0.5, r
    _expect("input_modified", lambda: check_kink("k", Probe([xk], impure, 1.0), 2))
    missing = uncovered_names()
    assert not missing, ("public names without a C20 table entry or a justified exclusion (add an entry to the facet tables of "
                         f"props/c20.py or a reason to EXCLUDED): {missing}")


def _inplace_probe(x):
    def f():
        z = x.exp()
        y = z * z  # needs z for backward
        z.mul_(2.0)
        return y

    try:
        check_probe("t", Probe([x], f, 1.0), 2)
    except Violation as v:
        assert v.kind.startswith("inplace_modification"), v.kind
        raise Violation("crash_or_inplace", "")



# =======================================================================================
# shared construction helpers (all content is a closed-form function of integers in the case)


def cube_axis(n: int, ac: bool) -> np.ndarray:
    i = np.arange(n, dtype=np.float64)
    return 2 * i / (n - 1) - 1 if ac else (2 * i + 1) / n - 1


def index_to_cube(idx: np.ndarray, size_xyz, ac: bool) -> np.ndarray:
    """Index coordinates (..., D) in (x, y, z) order -> normalised cube coordinates of a grid of that size."""
    n = np.asarray(size_xyz, dtype=np.float64)
    return 2 * idx / (n - 1) - 1 if ac else (2 * idx + 1) / n - 1


def safe_index_coords(lead, size_xyz, key: int, outside: bool = False) -> np.ndarray:
    """Generic index coordinates of shape lead + (D,), every coordinate >= 0.05 samples away from the
    interpolation knots (integers), from half-integers (reflection borders of align_corners=False) and
    therefore from the clamping borders; inside [0, n-1], except that with `outside` about 30 % of the
    coordinates (never those of the first point) lie up to 2 samples beyond the borders."""
    D = len(size_xyz)
    sh = tuple(lead) + (D,)
    u, v = hash_noise(sh, key * 3 + 1, 0.0, 1.0), hash_noise(sh, key * 3 + 2, 0.0, 1.0)
    n = np.asarray(size_xyz, dtype=np.float64)
    cell = np.minimum(np.floor(u * (n - 1)), n - 2)
    if outside:
        ext = np.minimum(np.floor(hash_noise(sh, key * 3 + 4, 0.0, 1.0) * (n + 3)), n + 2) - 2.0
        m = hash_noise(sh, key * 3 + 5, 0.0, 1.0) < 0.3
        m.reshape(-1, D)[0] = False
        cell = np.where(m, ext, cell)
    frac = np.where(v < 0.5, 0.05 + 0.8 * v, 0.55 + 0.8 * (v - 0.5))
    return cell + frac


def grid_index_coords(shape) -> np.ndarray:
    """Index coordinates of the samples of a grid with tensor shape (..., X): array shape + (D,), (x, ...) order."""
    axes = [np.arange(n, dtype=np.float64) for n in shape]
    mesh = np.meshgrid(*axes, indexing="ij")
    return np.stack(mesh[::-1], axis=-1)


def monotone_field(N: int, C: int, shape, key: int, lo: float, hi: float) -> torch.Tensor:
    """u[n, c](x) = sum_k A[n, c, k][x_k] with strictly monotone 1-D sequences A (increments of magnitude in
    [lo, hi], one sign per sequence): every forward/central/backward difference has magnitude >= lo."""
    D = len(shape)
    out = np.zeros((N, C) + tuple(shape))
    for k, n in enumerate(shape):
        inc = hash_noise((N, C, n), key * 5 + k, lo, hi)
        sgn = np.where(hash_noise((N, C, 1), key * 7 + k + 11, -1.0, 1.0) < 0, -1.0, 1.0)
        seq = np.cumsum(inc * sgn, axis=-1)
        sh = [N, C] + [1] * D
        sh[2 + k] = n
        out = out + seq.reshape(sh)
    return torch.tensor(out, dtype=torch.float64)


def _leaf(t: torch.Tensor) -> torch.Tensor:
    return t.detach().clone().requires_grad_(True)


def _rule_affine_flow(linear: bool):
    """Declared float32 rule of the displacement field of a LINEAR transformation: affine_flow(matrix, grid) applies the matrix to the
    float32 coordinates of the Grid object and returns float32 displacements also for a float64 matrix."""
    return "f32" if linear else None


@st.composite
def small_shapes(draw, D, lo=4, hi2=8, hi3=6):
    return draw(st.lists(st.integers(lo, hi2 if D == 2 else hi3), min_size=D, max_size=D))


def small_grids(D, ac=None):
    return gen.grids(D, min_size=4, max_size=8 if D == 2 else 6, mag=50.0, spacing_lo=0.2, spacing_hi=5.0, ac=ac)


# ---- the "point" dimension of every table: besides generic (hash noise) values, the differentiated inputs are placed at the
# documented initial / degenerate-but-smooth point of the entry ("special"): freshly constructed (zero / identity initialised)
# transformation parameters, exactly all-zero flow / velocity / coefficient fields, identity matrices, zero angles, the identity
# quaternion, unit scales, identical source and target images, no-op argument forms.  Value-dependent shortcuts taken at such a
# point ("exp(0) = 0", "identity: nothing to do") keep every forward value; their derivative is what is checked here.  The
# finite-difference side is unchanged: the leaves are perturbed around the special point along the generated directions.
# Which entries have a special point (and which of their leaves) is decided by reading the formula: genuine kinks (|x| at 0,
# sqrt / norm at 0, linear interpolation of non-constant data exactly at the knots, acos at +-1) and points where the function
# is legitimately constant in a leaf (bilinear forms with a zero factor, weights of a zero residual) are not generated.
POINTS = ["generic", "generic", "generic", "special"]


def _is_special(case) -> bool:
    return case.get("point", "generic") == "special"


def _disp_mag(case) -> float:
    """abs_mag of displacement outputs: at the identity point x' - x is exactly zero and computed by cancellation of cube
    coordinates of magnitude 1 (round-off relative to 1, not to the perturbed displacement)."""
    return 1.0 if _is_special(case) else 0.0


def _draw_point(draw, has_special: bool, point=None) -> str:
    """The point of a case: generated (1 in 4 special) or forced by `point`; 'generic' for entries without a special point."""
    if not has_special:
        return "generic"
    return point or draw(st.sampled_from(POINTS))


# =======================================================================================
# facet 1: spatial transforms w.r.t. their Parameters and w.r.t. points

LINEAR = ["Translation", "EulerRotation", "QuaternionRotation", "IsotropicScaling", "AnisotropicScaling", "Shearing",
          "HomogeneousTransform", "RigidTransform", "RigidQuaternionTransform", "SimilarityTransform", "AffineTransform",
          "FullAffineTransform"]
NONRIGID = ["DisplacementFieldTransform", "StationaryVelocityFieldTransform", "FreeFormDeformation",
            "StationaryVelocityFreeFormDeformation"]
ONLY3D = ("QuaternionRotation", "RigidQuaternionTransform")
NO_INVERSE = ("DisplacementFieldTransform", "FreeFormDeformation")
SVF = ("StationaryVelocityFieldTransform", "StationaryVelocityFreeFormDeformation")
BSPLINE = ("FreeFormDeformation", "StationaryVelocityFreeFormDeformation")
METHODS = ["call", "call_grid", "disp", "disp_other", "inverse_call", "points.params", "points.points", "pointset.params", "pointset.points"]

# disp_other resamples through Grid objects (float32 coordinates -> float32 rule with its large step): only for the
# classes whose displacement is smooth (linear) in the parameters; the SVF classes are covered by disp (float64)
TRANSFORM_ENTRIES = [f"{c}.{m}" for c in LINEAR + NONRIGID for m in METHODS
                     if not (m == "inverse_call" and c in NO_INVERSE) and not (m == "disp_other" and c in SVF)]


def _param(shape, key, lo, hi, dtype):
    return torch.nn.Parameter(noise(shape, key, lo, hi, dtype))


def _elementary(kind: str, N: int, D: int, key: int, dtype):
    """Generic non-identity parameter values of the elementary linear transforms."""
    na = 1 if D == 2 else 3
    if kind == "translation":
        return _param((N, D), key + 1, -0.3, 0.3, dtype)
    if kind == "euler":  # angles = tanh(p) * pi
        return _param((N, na), key + 2, -0.4, 0.4, dtype)
    if kind == "quaternion":
        q = noise((N, 4), key + 3, -0.6, 0.6, dtype)
        q[:, 0] = q[:, 0].abs() + 0.5
        return torch.nn.Parameter(q)
    if kind == "iso":  # scale = exp(tanh(p - 1))
        return _param((N, 1), key + 4, 0.6, 1.4, dtype)
    if kind == "aniso":
        return _param((N, D), key + 5, 0.6, 1.4, dtype)
    if kind == "shear":  # angles = tanh(p) * pi / 4
        return _param((N, na), key + 6, -0.5, 0.5, dtype)
    raise KeyError(kind)


def build_transform(cls: str, grid, case):
    import deepali.spatial as S

    D, N, key = grid.ndim, case["N"], case["key"]
    dt = torch.float64 if case["dtype"] == "float64" else torch.float32
    T = getattr(S, cls)
    if _is_special(case):
        # the documented initial point: a freshly constructed transformation with optimisable parameters (zero displacement /
        # velocity / coefficients, zero angles, identity quaternion / matrix, unit scales) - where every registration starts
        kw = {}
        if cls == "EulerRotation":
            kw["order"] = case.get("order")
        elif cls in ("DisplacementFieldTransform", "StationaryVelocityFieldTransform"):
            if case["stride"] != 1:
                kw["stride"] = case["stride"]
            if not case.get("resize", True):
                kw["resize"] = False
        elif cls in BSPLINE:
            kw.update(stride=case["ffd_stride"], transpose=case["transpose"])
        if cls in SVF:
            kw.update(steps=case["steps"], scale=case["vscale"])
        if len(MEMBERS[cls]) == 1:
            kw["params"] = True
        t = T(grid, groups=N, **kw)  # (the composite linear classes create optimisable parameters by default)
        return t.double() if dt == torch.float64 else t
    if cls == "Translation":
        t = T(grid, params=_elementary("translation", N, D, key, dt))
    elif cls == "EulerRotation":
        t = T(grid, params=_elementary("euler", N, D, key, dt), order=case.get("order"))
    elif cls == "QuaternionRotation":
        t = T(grid, params=_elementary("quaternion", N, D, key, dt))
    elif cls == "IsotropicScaling":
        t = T(grid, params=_elementary("iso", N, D, key, dt))
    elif cls == "AnisotropicScaling":
        t = T(grid, params=_elementary("aniso", N, D, key, dt))
    elif cls == "Shearing":
        t = T(grid, params=_elementary("shear", N, D, key, dt))
    elif cls == "HomogeneousTransform":
        m = torch.eye(D, D + 1, dtype=dt).unsqueeze(0).repeat(N, 1, 1) + noise((N, D, D + 1), key + 7, -0.2, 0.2, dt)
        t = T(grid, params=torch.nn.Parameter(m))
    elif cls == "RigidTransform":
        t = T(grid, rotation=_elementary("euler", N, D, key, dt), translation=_elementary("translation", N, D, key, dt))
    elif cls == "RigidQuaternionTransform":
        t = T(grid, rotation=_elementary("quaternion", N, D, key, dt), translation=_elementary("translation", N, D, key, dt))
    elif cls == "SimilarityTransform":
        t = T(grid, scaling=_elementary("iso", N, D, key, dt), rotation=_elementary("euler", N, D, key, dt),
              translation=_elementary("translation", N, D, key, dt))
    elif cls == "AffineTransform":
        t = T(grid, scaling=_elementary("aniso", N, D, key, dt), rotation=_elementary("euler", N, D, key, dt),
              translation=_elementary("translation", N, D, key, dt))
    elif cls == "FullAffineTransform":
        t = T(grid, scaling=_elementary("aniso", N, D, key, dt), shearing=_elementary("shear", N, D, key, dt),
              rotation=_elementary("euler", N, D, key, dt), translation=_elementary("translation", N, D, key, dt))
    elif cls in ("DisplacementFieldTransform", "StationaryVelocityFieldTransform"):
        kw = {"stride": case["stride"]} if case["stride"] != 1 else {}
        if not case.get("resize", True):
            kw["resize"] = False  # the buffered field keeps the size of the (strided) parameter grid
        if cls in SVF:
            kw.update(steps=case["steps"], scale=case["vscale"])
        t = T(grid, groups=N, params=True, **kw)
        a = case["amp"]
        t.params = torch.nn.Parameter(noise((N,) + tuple(t.data_shape), key + 8, -a, a, dt))
    else:  # cubic B-spline
        kw = dict(stride=case["ffd_stride"], transpose=case["transpose"])
        if cls in SVF:
            kw.update(steps=case["steps"], scale=case["vscale"])
        t = T(grid, groups=N, params=True, **kw)
        a = case["amp"]
        t.params = torch.nn.Parameter(noise((N,) + tuple(t.data_shape), key + 9, -a, a, dt))
    if dt == torch.float64:
        t = t.double()
    return t


@st.composite
def transform_cases(draw, entry=None, point=None):
    entry = entry or draw(st.sampled_from(TRANSFORM_ENTRIES))
    cls, method = entry.split(".", 1)
    D = 3 if cls in ONLY3D else draw(gen.dims())
    g = draw(small_grids(D, ac=True if cls in BSPLINE else None))
    # float32 (default Parameter dtype) only where the map is smooth in the parameters AND well conditioned in float32:
    # cube coordinates |x| <= 1; world/index coordinates of points go through (x - origin) / spacing cancellation
    smooth = cls in LINEAR and method in ("call", "call_grid", "disp", "inverse_call")
    case = {
        "entry": entry, "D": D, "grid": g, "N": draw(st.integers(1, 2)), "key": draw(st.integers(0, 10 ** 6)),
        "M": draw(st.integers(1, 5)), "dtype": draw(st.sampled_from(["float64", "float64", "float32"])) if smooth else "float64",
        "amp": draw(gen.qfloat(0.05, 0.4, 0.01)), "stride": draw(st.sampled_from([1, 1, 2])),
        "steps": draw(st.integers(1, 5)), "vscale": draw(st.sampled_from([None, 0.5, 1.0, 2.0])),
        "ffd_stride": draw(st.sampled_from([2, 3, 5])), "transpose": draw(st.booleans()),
        "order": draw(st.sampled_from([None, "XYZ", "ZYX", "ZXY", "XZX", "ZXZ", "YXZ", "XYX"])),
        "axes": draw(st.sampled_from(["world", "grid", "cube", "cube_corners"])),
        "to_axes": draw(st.sampled_from(["world", "grid", "cube", "cube_corners"])),
        "other": draw(st.booleans()), "batch_points": draw(st.booleans()),
        "disp_grid": draw(st.sampled_from(["resized", "other_ac", "subdomain"])), "resize": draw(st.sampled_from([True, True, False])),
        "point": _draw_point(draw, True, point),
    }
    if case["other"]:
        case["grid2"] = draw(small_grids(D))
    return case


def build_transform_probe(case) -> Probe:
    import deepali.spatial as S
    from deepali.core import Axes

    cls, method = case["entry"].split(".", 1)
    g = case["grid"]
    grid = make_grid(g)
    D, N, key, M = case["D"], case["N"], case["key"], case["M"]
    t = build_transform(cls, grid, case)
    params = list(t.parameters())
    dt = params[0].dtype
    m = ref.GridModel.from_desc(g)
    size = list(g["size"])
    labels = [f"D={D}", f"N={N}", f"T={cls}", f"m={method}", case["dtype"], f"point={case.get('point', 'generic')}"]
    if cls in SVF:
        labels += [f"steps={case['steps']}", f"vscale={case['vscale']}"]
    NP = N if case["batch_points"] else 1
    idx = safe_index_coords((NP, M), size, key + 21)
    pscale = 0.3 if cls in LINEAR else case["amp"]
    if method == "call":
        x = torch.tensor(index_to_cube(idx, size, g["ac"]), dtype=dt)
        return Probe(params, lambda: t(x), pscale, stateful=True, labels=labels)
    if method == "call_grid":
        x = grid.coords(dtype=dt).unsqueeze(0)
        return Probe(params, lambda: t(x, grid=True), pscale, stateful=True, labels=labels)
    if method == "disp":
        # identity parameters: the displacement x' - x is exactly zero and computed by cancellation of coordinates of magnitude 1
        return Probe(params, lambda: t.update().disp(), pscale, stateful=True, labels=labels, abs_mag=_disp_mag(case),
                     rule=_rule_affine_flow(cls in LINEAR))
    if method == "disp_other":  # displacement field sampled on another grid
        kind = case["disp_grid"]
        if kind == "resized":
            dg = grid.resize([n + 1 + (i % 2) for i, n in enumerate(size)])
        elif kind == "other_ac":
            dg = make_grid(dict(g, ac=not g["ac"]))
        else:  # sub-domain: same centre and orientation, fewer samples of 0.8 x the spacing
            dg = make_grid(dict(g, size=[max(3, n - 1 - (i % 2)) for i, n in enumerate(size)], spacing=[0.8 * v for v in g["spacing"]]))
        labels.append(f"disp_grid={kind}")
        # resampling on a Grid object uses its float32 coordinates: float32 rule
        return Probe(params, lambda: t.update().disp(dg), pscale, stateful=True, labels=labels, rule="f32", abs_mag=_disp_mag(case))
    if method == "inverse_call":
        x = torch.tensor(index_to_cube(idx, size, g["ac"]), dtype=dt)
        return Probe(params, lambda: t.inverse()(x), pscale, stateful=True, labels=labels)
    # points / pointset: coordinates given w.r.t. (grid_a, axes) and returned w.r.t. (grid_b, to_axes)
    ga, ma = (make_grid(case["grid2"]), ref.GridModel.from_desc(case["grid2"])) if case["other"] else (grid, m)
    axes, to_axes = case["axes"], case["to_axes"]
    labels += [f"{axes}->{to_axes}", f"other={case['other']}"]
    pts = m.points(idx, "grid", axes, ma)  # generic w.r.t. the knots of the transform's own grid
    x = torch.tensor(pts, dtype=dt)
    wrt = method.split(".")[1]
    kw = dict(axes=Axes(axes), to_axes=Axes(to_axes))
    if case["other"]:
        kw.update(grid=ga, to_grid=ga)
    if method.startswith("points."):
        def fn(p):
            t.update()
            return t.points(p, **kw)
    else:
        pst = S.PointSetTransformer(t, **kw)
        if dt == torch.float64:
            pst = pst.double()

        def fn(p):
            return pst(p)
    if wrt == "params":
        return Probe(params, lambda: fn(x), pscale, stateful=True, labels=labels)
    xl = _leaf(x)
    xs = float(np.abs(ma.matrix("grid", axes)[:, : D]).max()) if axes != "grid" else 1.0  # one sample in units of `axes`
    return Probe([xl], lambda: fn(xl), xs, stateful=True, labels=labels)


def run_transforms(case):
    return check_probe(case["entry"], build_transform_probe(case), case["key"])




# =======================================================================================
# facet 2: ImageTransformer w.r.t. transform parameters and w.r.t. the image

IT_ENTRIES = [f"ImageTransformer[{c}].{w}" for c in LINEAR + NONRIGID for w in ("params", "image")]


@st.composite
def image_transformer_cases(draw, entry=None, point=None):
    entry = entry or draw(st.sampled_from(IT_ENTRIES))
    cls = entry[entry.index("[") + 1: entry.index("]")]
    D = 3 if cls in ONLY3D else draw(gen.dims())
    g = draw(small_grids(D, ac=True if cls in BSPLINE else None))
    case = {
        "entry": entry, "D": D, "grid": g, "N": draw(st.integers(1, 2)), "key": draw(st.integers(0, 10 ** 6)), "dtype": "float64",
        "amp": draw(gen.qfloat(0.05, 0.3, 0.01)), "stride": draw(st.sampled_from([1, 1, 2])), "steps": draw(st.integers(1, 4)),
        "vscale": draw(st.sampled_from([None, 0.5, 1.0])), "ffd_stride": draw(st.sampled_from([2, 3])),
        "transpose": draw(st.booleans()), "order": draw(st.sampled_from([None, "XYZ", "ZXZ", "YXZ"])),
        "C": draw(st.integers(1, 2)), "padding": draw(st.sampled_from(["border", "zeros", "reflect", 0.5, -1.0, 2])),
        "source": draw(st.sampled_from(["same", "same", "other"])), "NI": draw(st.sampled_from(["N", "one"])),
        "target": draw(st.sampled_from(["same", "same", "resized", "subdomain"])), "centers": draw(st.booleans()),
        "flip_coords": draw(st.sampled_from([False, False, True])), "point": _draw_point(draw, True, point),
    }
    if _is_special(case) and entry.endswith(".params"):
        # identity transformation: with the same source and target grid every sampling position is an interpolation knot (a kink
        # of linear interpolation in the position); a source grid of another size puts the positions between the knots
        case["source"] = "other"
    if case["source"] == "other":
        case["grid2"] = draw(small_grids(D))
    return case


def build_image_transformer_probe(case) -> Probe:
    import deepali.spatial as S

    entry = case["entry"]
    cls = entry[entry.index("[") + 1: entry.index("]")]
    wrt = entry.rsplit(".", 1)[1]
    g = case["grid"]
    grid = make_grid(g)
    t = build_transform(cls, grid, case)
    if case["source"] == "other":  # source image on a grid of another size covering about the same region
        g2 = dict(g, size=list(case["grid2"]["size"]), ac=g["ac"])
        g2["spacing"] = [s * n / n2 for s, n, n2 in zip(g["spacing"], g["size"], g2["size"])]
        source = make_grid(g2)
    else:
        source = grid
    tk = case.get("target", "same")
    if tk == "resized":  # output sampled on a grid of another size of the same domain (vector fields are resized: grid=True)
        target = grid.resize([n + 1 + (i % 2) for i, n in enumerate(g["size"])])
    elif tk == "subdomain":  # another domain: same centre and orientation, fewer samples of 0.8 x the spacing
        target = make_grid(dict(g, size=[max(3, n - 1 - (i % 2)) for i, n in enumerate(g["size"])], spacing=[0.8 * v for v in g["spacing"]]))
    else:
        target = None
    kwt = dict(align_centers=bool(case.get("centers", False)), flip_coords=bool(case.get("flip_coords", False)))
    it = S.ImageTransformer(t, target=target, source=source, padding=case["padding"], **kwt).double()
    N = case["N"] if case["NI"] == "N" else 1
    img = noise((N, case["C"]) + tuple(source.shape), case["key"] + 31, 0.0, 1.0)
    labels = [f"D={case['D']}", f"T={cls}", f"wrt={wrt}", f"pad={case['padding']}", f"source={case['source']}", f"target={tk}",
              f"centers={kwt['align_centers']}", f"flip={kwt['flip_coords']}", f"point={case.get('point', 'generic')}"]
    if wrt == "params":
        return Probe(list(t.parameters()), lambda: it(img), 0.3 if cls in LINEAR else case["amp"], stateful=True, labels=labels)
    x = _leaf(img)
    return Probe([x], lambda: it(x), 1.0, stateful=True, labels=labels)


def run_image_transformer(case):
    return check_probe(case["entry"], build_image_transformer_probe(case), case["key"])


# =======================================================================================
# facet 3: sampling functions w.r.t. data, coordinates and flow

SAMPLING_ENTRIES = ["grid_sample.data", "grid_sample.coords", "sample_image.data", "sample_image.coords", "warp_image.data",
                    "warp_image.flow", "warp_image.grid", "Image.sample.data", "Image.sample.coords", "ImageBatch.sample.coords",
                    "sample_flow.flow", "sample_flow.coords", "warp_points.flow", "warp_points.coords", "warp_grid.flow",
                    "SampleImage.data", "SampleImage.coords", "grid_reshape.data", "Image.sample_grid.data",
                    "ImageBatch.sample_grid.data", "FlowFields.exp.data", "FlowFields.exp.scaled", "FlowFields.warp_image.flow",
                    "FlowFields.warp_image.image"]


# special point: an exactly all-zero flow field.  Not generated where the flow is the leaf and non-constant data are then sampled
# exactly at their knots on the same grid (FlowFields.warp_image.flow: kink) or where the output is legitimately constant in the
# leaf (sample_flow.coords: a zero field sampled anywhere is zero); warp_image.flow samples at the points of another regular grid.
SAMPLING_SPECIAL = ("warp_image.data", "warp_image.flow", "sample_flow.flow", "warp_points.flow", "warp_points.coords",
                    "warp_grid.flow", "FlowFields.exp.data", "FlowFields.exp.scaled", "FlowFields.warp_image.image")


@st.composite
def sampling_cases(draw, entry=None, point=None):
    entry = entry or draw(st.sampled_from(SAMPLING_ENTRIES))
    D = draw(gen.dims())
    return {
        "point": _draw_point(draw, entry in SAMPLING_SPECIAL, point), "steps": draw(st.integers(0, 4)),
        "scale": draw(st.sampled_from([None, None, 0.5, 1.0, -1.0, 2.0])),
        "entry": entry, "D": D, "shape": draw(small_shapes(D, 3)), "oshape": draw(small_shapes(D, 2, 5, 4)),
        "N": draw(st.integers(1, 2)), "C": draw(st.integers(1, 3)), "ac": draw(st.booleans()),
        "padding": draw(st.sampled_from(["border", "zeros", "reflect", 0.5, -1.0, 2, None])), "key": draw(st.integers(0, 10 ** 6)),
        "outside": draw(st.booleans()), "bcast": draw(st.sampled_from(["both", "data1", "grid1"])),
        "mode": draw(st.sampled_from([None, None, "linear", "bilinear"])),
    }


def build_sampling_probe(case) -> Probe:
    from deepali.core import Grid
    from deepali.core import functional as U
    from deepali.data import Image, ImageBatch
    from deepali.modules import SampleImage

    entry, D, shape, key, ac = case["entry"], case["D"], tuple(case["shape"]), case["key"], case["ac"]
    fn, wrt = entry.rsplit(".", 1)
    size = shape[::-1]
    N, C = case["N"], case["C"]
    ND = 1 if case["bcast"] == "data1" else N  # batch size of the data
    NG = 1 if case["bcast"] == "grid1" else N  # batch size of the coordinates
    pad = case["padding"]
    kw = dict(align_corners=ac) if pad is None else dict(padding=pad, align_corners=ac)
    smode = case.get("mode")  # explicit spelling of the (only differentiable) interpolation mode of grid_sample
    if smode is not None and fn in ("grid_sample", "sample_image", "warp_image"):
        kw["mode"] = smode
    oshape = tuple(case["oshape"])
    labels = [f"D={D}", f"ac={ac}", f"pad={pad}", f"bcast={case['bcast']}", f"outside={case['outside']}", f"mode={kw.get('mode')}",
              f"point={case.get('point', 'generic')}"]
    zero = _is_special(case)  # special point: exactly all-zero flow field
    data = noise((ND, C) + shape, key + 41, 0.0, 1.0)
    one = 2.0 / (min(size) - (1 if ac else 0))  # one sample in cube units (coarsest estimate)

    def coords(lead, k=0):
        return torch.tensor(index_to_cube(safe_index_coords(lead, size, key + 43 + k, case["outside"]), size, ac), dtype=torch.float64)

    if fn == "grid_sample":
        x = coords((NG,) + oshape)
        if wrt == "data":
            d = _leaf(data)
            return Probe([d], lambda: U.grid_sample(d, x, **kw), 1.0, labels=labels)
        x = _leaf(x)
        return Probe([x], lambda: U.grid_sample(data, x, **kw), one, labels=labels)
    if fn == "sample_image":
        x = coords((NG, 5))
        if wrt == "data":
            d = _leaf(data)
            return Probe([d], lambda: U.sample_image(d, x, **kw), 1.0, labels=labels)
        x = _leaf(x)
        return Probe([x], lambda: U.sample_image(data, x, **kw), one, labels=labels)
    if fn == "warp_image":
        # sampled positions grid + flow are constructed; the grid is the regular one of the output shape
        tgt = coords((NG,) + oshape)
        g0 = Grid(shape=oshape, align_corners=ac).coords(align_corners=ac, dtype=torch.float64)
        g0 = g0.unsqueeze(0).expand((NG,) + tuple(g0.shape))
        flow = torch.zeros_like(g0) if zero else tgt - g0
        if wrt == "data":
            d = _leaf(data)
            return Probe([d], lambda: U.warp_image(d, g0, flow=flow, **kw), 1.0, labels=labels)
        if wrt == "flow":
            f = _leaf(flow)
            return Probe([f], lambda: U.warp_image(data, g0, flow=f, **kw), one, labels=labels)
        gl = _leaf(tgt)
        return Probe([gl], lambda: U.warp_image(data, gl, **kw), one, labels=labels)
    if fn in ("Image.sample", "ImageBatch.sample"):
        grid = Grid(shape=shape, align_corners=ac)
        kw2 = {} if pad is None else dict(padding=pad)
        if fn == "Image.sample":
            x = coords((5,))
            if wrt == "data":  # the Image tensor itself is the optimised leaf
                im = Image(data[0], grid, requires_grad=True)
                return Probe([im], lambda: im.sample(x, **kw2), 1.0, labels=labels)
            im = Image(data[0], grid)
            x = _leaf(x)
            return Probe([x], lambda: im.sample(x, **kw2), one, labels=labels)
        x = _leaf(coords((NG, 5)))
        ib = ImageBatch(data, grid)
        return Probe([x], lambda: ib.sample(x, **kw2), one, labels=labels)
    if fn in ("Image.sample_grid", "ImageBatch.sample_grid"):  # resampling on another Grid (data tensor API)
        grid = Grid(shape=shape, align_corners=ac)
        other = grid.resize([n + 1 for n in oshape[::-1]])
        kw2 = {} if pad is None else dict(padding=pad)
        if fn == "Image.sample_grid":
            im = Image(data[0], grid, requires_grad=True)
            return Probe([im], lambda: im.sample(other, **kw2), 1.0, labels=labels, rule="f32")
        ib = ImageBatch(data, grid, requires_grad=True)
        return Probe([ib], lambda: ib.sample(other, **kw2), 1.0, labels=labels, rule="f32")
    if fn in ("FlowFields.exp", "FlowFields.warp_image"):
        from deepali.data import FlowFields

        grid = Grid(shape=shape, align_corners=ac)
        a = 0.3
        flow = torch.zeros((ND, D) + shape, dtype=torch.float64) if zero else noise((ND, D) + shape, key + 47, -a, a)
        if fn == "FlowFields.exp":
            ff = FlowFields(flow, grid, requires_grad=True)
            kwe = dict(steps=case.get("steps", 3))
            scale = case.get("scale")
            if wrt == "scaled" and scale in (None, 1.0):  # entry with a non-default scaling factor (e.g. -1: inverse)
                scale = [0.5, -1.0, 2.0][key % 3]
            if scale is not None:
                kwe["scale"] = scale
            if pad in ("border", "zeros", "reflect"):
                kwe["padding"] = pad
            return Probe([ff], lambda: ff.exp(**kwe), a, labels=labels + [f"steps={kwe['steps']}", f"scale={scale}"])
        img = ImageBatch(noise((ND, C) + shape, key + 48, 0.0, 1.0), grid, requires_grad=wrt == "image")
        ff = FlowFields(flow, grid, requires_grad=wrt == "flow")
        return Probe([ff if wrt == "flow" else img], lambda: ff.warp_image(img), a if wrt == "flow" else 1.0, labels=labels)
    if fn in ("sample_flow", "warp_points", "warp_grid"):
        a = 0.3
        flow = torch.zeros((ND, D) + shape, dtype=torch.float64) if zero else noise((ND, D) + shape, key + 47, -a, a)
        kwf = dict(align_corners=ac)
        if fn == "warp_grid":
            x = Grid(shape=oshape, align_corners=ac).coords(align_corners=ac, dtype=torch.float64).unsqueeze(0)
            f = _leaf(flow)
            return Probe([f], lambda: U.warp_grid(f, x, **kwf), a, labels=labels)
        x = coords((NG, 5))
        call = U.sample_flow if fn == "sample_flow" else U.warp_points
        if wrt == "flow":
            f = _leaf(flow)
            return Probe([f], lambda: call(f, x, **kwf), a, labels=labels)
        x = _leaf(x)
        return Probe([x], lambda: call(flow, x, **kwf), one, labels=labels)
    if fn == "SampleImage":
        target = Grid(shape=oshape, align_corners=ac)
        source = Grid(shape=shape, align_corners=ac)
        mod = SampleImage(target, source, **({} if pad is None else dict(padding=pad))).double()
        # the module maps target cube coordinates to the source cube: construct them from source index coordinates
        idx = safe_index_coords((NG,) + oshape, size, key + 53, case["outside"])
        src = index_to_cube(idx, size, ac)
        M = mod.matrix[0].numpy()  # (D, D+1) target cube -> source cube (both unit cubes of the same world box here)
        A, b = M[:, :D], M[:, D]
        x = torch.tensor((src - b) @ np.linalg.inv(A).T, dtype=torch.float64)
        if wrt == "data":
            d = _leaf(data)
            return Probe([d], lambda: mod(x, d), 1.0, stateful=True, labels=labels)
        x = _leaf(x)
        return Probe([x], lambda: mod(x, data), one, stateful=True, labels=labels)
    if fn == "grid_reshape":
        d = _leaf(data)
        return Probe([d], lambda: U.grid_reshape(d, oshape, align_corners=ac), 1.0, labels=labels)
    raise KeyError(entry)


def run_sampling(case):
    return check_probe(case["entry"], build_sampling_probe(case), case["key"])


# =======================================================================================
# facet 4: flow field operations and spatial derivatives

FLOW_ENTRIES = ["expv", "expv.inverse", "ExpFlow", "compose_flows.u", "compose_flows.v", "compose_flows.both", "compose_svfs.u",
                "compose_svfs.v", "compose_svfs.both", "lie_bracket", "logv", "spatial_derivatives", "flow_derivatives",
                "jacobian_det", "jacobian_matrix", "curl", "divergence", "divergence_free_flow", "affine_flow", "normalize_flow",
                "denormalize_flow"]
FD_MODES = [None, "forward", "backward", "central", "forward_central_backward", "sobel", "prewitt", "gaussian", "bspline"]
# special point: exactly all-zero field(s) (identity matrix for affine_flow).  lie_bracket is bilinear: with a zero argument it is
# legitimately constant in the other one (not generated)
FLOW_SPECIAL = tuple(e for e in FLOW_ENTRIES if e != "lie_bracket")


@st.composite
def flow_cases(draw, entry=None, point=None):
    entry = entry or draw(st.sampled_from(FLOW_ENTRIES))
    D = 3 if entry == "curl" and draw(st.booleans()) else draw(gen.dims())
    return {
        "entry": entry, "D": D, "shape": draw(small_shapes(D, 4, 8, 5)), "N": draw(st.integers(1, 2)), "C": draw(st.integers(1, 2)),
        "ac": draw(st.booleans()), "key": draw(st.integers(0, 10 ** 6)), "amp": draw(gen.qfloat(0.05, 0.4, 0.01)),
        "steps": draw(st.integers(0, 5)), "scale": draw(st.sampled_from([None, 0.5, 1.0, 2.0, -1.0])),
        "bch": draw(st.integers(0, 5)), "iters": draw(st.integers(1, 2)), "exp_steps": draw(st.sampled_from([2, 3, 4])),
        "mode": draw(st.sampled_from(FD_MODES)), "sigma": draw(st.sampled_from([None, None, 0.7, 1.0])),
        "order": draw(st.integers(1, 2)), "spacing": draw(st.sampled_from([None, "scalar", "vector", "tensor"])),
        "stride": draw(st.sampled_from([1, 2])), "add_identity": draw(st.booleans()),
        "which": draw(st.sampled_from([None, None, "first", "mixed"])), "padding": draw(st.sampled_from([None, "border", "zeros", "reflect"])),
        "point": _draw_point(draw, entry in FLOW_SPECIAL, point), "zero": draw(st.sampled_from(["both", "both", "u", "v"])),
        "thin": draw(st.sampled_from([None, None, 0, 1, 2])),  # normalize_flow / denormalize_flow: a grid axis with ONE sample
    }


def _deriv_kwargs(case, D, bspline_ok=True):
    mode = case["mode"]
    if mode == "bspline" and not bspline_ok:
        mode = "central"
    kw = {}
    if mode is not None:
        kw["mode"] = mode
    if case["sigma"] is not None:
        kw["sigma"] = case["sigma"]
    if case["spacing"] == "scalar":
        kw["spacing"] = 0.5
    elif case["spacing"] == "vector":
        kw["spacing"] = [0.5 + 0.25 * k for k in range(D)]
    elif case["spacing"] == "tensor":  # documented 2-dimensional tensor form: one spacing (vector) per image of the batch
        N = case["N"]
        kw["spacing"] = torch.tensor([[0.5 + 0.25 * k + 0.125 * n for k in range(D if case["key"] % 2 else 1)] for n in range(N)])
    if mode == "bspline":
        kw["stride"] = case["stride"]
    return kw, mode


def build_flow_probe(case) -> Probe:
    from deepali.core import Grid
    from deepali.core import functional as U
    from deepali.modules import ExpFlow

    entry, D, shape, key, ac, N, a = case["entry"], case["D"], tuple(case["shape"]), case["key"], case["ac"], case["N"], case["amp"]
    labels = [f"D={D}", f"N={N}", f"point={case.get('point', 'generic')}"]
    u = noise((N, D) + shape, key + 61, -a, a)
    v = noise((N, D) + shape, key + 62, -a, a)
    special = _is_special(case)
    if special:  # exactly all-zero field(s); for the operations of two fields: both, or one of them (generated)
        which = case.get("zero", "both") if (entry.startswith("compose_") ) else "both"
        if entry.startswith("compose_flows") and which == "v" and entry.split(".")[1] != "u":
            which = "both"  # v = 0 as a leaf with a non-zero u: u is sampled exactly at its knots (kink in v)
        u = torch.zeros_like(u) if which in ("both", "u") else u
        v = torch.zeros_like(v) if which in ("both", "v") else v
        labels.append(f"zero={which}")
    if entry in ("expv", "expv.inverse", "ExpFlow"):
        f = _leaf(u)
        steps, scale = case["steps"], case["scale"]
        labels += [f"steps={steps}", f"ac={ac}", f"scale={scale}"]
        if entry == "ExpFlow":
            mod = ExpFlow(scale=scale, steps=steps, align_corners=ac)
            return Probe([f], lambda: mod(f), a, stateful=True, labels=labels)
        kw = dict(steps=steps, align_corners=ac, inverse=entry.endswith("inverse"))
        if scale is not None:
            kw["scale"] = scale
        if case.get("padding") is not None:
            kw["padding"] = case["padding"]
            labels.append(f"pad={case['padding']}")
        return Probe([f], lambda: U.expv(f, **kw), a, labels=labels)
    if entry.startswith("compose_flows"):
        wrt = entry.split(".")[1]
        fu, fv = (_leaf(u) if wrt in ("u", "both") else u), (_leaf(v) if wrt in ("v", "both") else v)
        leaves = [x for x in (fu, fv) if x.requires_grad]
        labels.append(f"ac={ac}")
        return Probe(leaves, lambda: _f25(lambda: U.compose_flows(fu, fv, align_corners=ac), N), a, labels=labels)
    if entry.startswith("compose_svfs") or entry == "lie_bracket":
        kw, mode = _deriv_kwargs(case, D, bspline_ok=False)
        labels.append(f"mode={mode}")
        if entry == "lie_bracket":
            fu, fv = _leaf(u), _leaf(v)
            return Probe([fu, fv], lambda: U.lie_bracket(fv, fu, **kw), a, labels=labels)
        wrt = entry.split(".")[1]
        fu, fv = (_leaf(u) if wrt in ("u", "both") else u), (_leaf(v) if wrt in ("v", "both") else v)
        leaves = [x for x in (fu, fv) if x.requires_grad]
        labels.append(f"bch={case['bch']}")
        return Probe(leaves, lambda: U.compose_svfs(fu, fv, bch_terms=case["bch"], **kw), a, labels=labels)
    if entry == "logv":
        f = _leaf(u)
        kw = dict(num_iters=case["iters"], bch_terms=min(case["bch"], 3), sigma=case["sigma"], align_corners=ac,
                  exp_steps=case["exp_steps"])
        labels += [f"iters={case['iters']}", f"ac={ac}"]
        return Probe([f], lambda: _f25(lambda: U.logv(f, **kw), N), a, labels=labels)
    if entry == "spatial_derivatives":
        kw, mode = _deriv_kwargs(case, D)
        d = noise((N, case["C"]) + shape, key + 63, 0.0, 1.0)
        d = _leaf(torch.full_like(d, 0.5 * (key % 3)) if special else d)  # special point: constant image (0, 0.5 or 1)
        labels += [f"mode={mode}", f"order={case['order']}", f"sigma={case['sigma']}", f"which={case.get('which')}"]
        kw.update(_which_kwargs(case, D))
        return Probe([d], lambda: U.spatial_derivatives(d, **kw), 1.0, labels=labels)
    if entry == "flow_derivatives":
        kw, mode = _deriv_kwargs(case, D)
        f = _leaf(u)
        labels += [f"mode={mode}", f"order={case['order']}", f"which={case.get('which')}"]
        kw.update(_which_kwargs(case, D))
        return Probe([f], lambda: U.flow_derivatives(f, **kw), a, labels=labels)
    if entry in ("jacobian_det", "jacobian_matrix", "curl", "divergence"):
        kw, mode = _deriv_kwargs(case, D)
        f = _leaf(u)
        labels.append(f"mode={mode}")
        if entry in ("jacobian_det", "jacobian_matrix"):
            kw["add_identity"] = case["add_identity"]
        return Probe([f], lambda: getattr(U, entry)(f, **kw), a, labels=labels)
    if entry == "divergence_free_flow":
        kw, mode = _deriv_kwargs(case, D)
        C = 1 if D == 2 else (2 + key % 2)
        d = noise((N, C) + shape, key + 64, -1.0, 1.0)
        d = _leaf(torch.zeros_like(d) if special else d)
        labels += [f"mode={mode}", f"C={C}"]
        return Probe([d], lambda: U.divergence_free_flow(d, **kw), 1.0, labels=labels)
    if entry == "affine_flow":
        m = _leaf(torch.eye(D, D + 1, dtype=torch.float64).unsqueeze(0).repeat(N, 1, 1)
                  + noise((N, D, D + 1), key + 65, -0.3, 0.3) * (0.0 if special else 1.0))  # special point: identity matrix
        grid = Grid(shape=shape, align_corners=ac)
        return Probe([m], lambda: U.affine_flow(m, grid), 0.3, labels=labels, rule=_rule_affine_flow(True))
    if entry in ("normalize_flow", "denormalize_flow"):
        thin = case.get("thin")
        if thin is not None:
            # a grid axis with a single sample (a 2D slice kept as a volume, a coarse pyramid level): the functions document the case
            # by their where(size > 1, ..., 0); vectors along that axis map to zero
            sh = list(shape)
            sh[thin % D] = 1
            u = torch.zeros((N, D) + tuple(sh), dtype=torch.float64) if special else noise((N, D) + tuple(sh), key + 61, -a, a)
        f = _leaf(u)
        return Probe([f], lambda: getattr(U, entry)(f, align_corners=ac), a, labels=labels + [f"ac={ac}", f"thin={thin is not None}"],
                     tag="" if thin is None else "[size_one_axis]")
    raise KeyError(entry)


def _which_kwargs(case, D):
    """Either all derivatives of the generated order, or an explicit selection (`which`)."""
    w = case.get("which")
    if w == "first":
        return dict(which=["x", "y"][: 1 + case["key"] % 2])
    if w == "mixed":
        return dict(which=["y", "xx", "xy"] + (["yz"] if D == 3 else []))
    return dict(order=case["order"])


def _f25(fn, N):
    """compose_flows (and logv through it) adds in place to a broadcast coordinate tensor: RuntimeError for N > 1 on
    trees without fix F25 (a forward crash asserted by property C13); skipped and counted here."""
    if N == 1:
        return fn()
    try:
        return fn()
    except RuntimeError as e:
        if "doesn't match the broadcast shape" in str(e) or "more than one element of the written-to tensor" in str(e):
            raise Skip("excluded_known F25 (C13): compose_flows with N > 1")
        raise


def run_flow(case):
    return check_probe(case["entry"], build_flow_probe(case), case["key"])


# =======================================================================================
# facet 5: cubic B-splines

BSPLINE_ENTRIES = ["evaluate_cubic_bspline", "evaluate_cubic_bspline.transpose", "evaluate_cubic_bspline.derivative",
                   "evaluate_cubic_bspline.kernel", "subdivide_cubic_bspline"]


@st.composite
def bspline_cases(draw, entry=None, point=None):
    entry = entry or draw(st.sampled_from(BSPLINE_ENTRIES))
    D = draw(gen.dims())
    return {
        "entry": entry, "D": D, "shape": draw(small_shapes(D, 4)), "N": draw(st.integers(1, 2)), "C": draw(st.integers(1, 3)),
        "key": draw(st.integers(0, 10 ** 6)), "stride": draw(st.lists(st.integers(1, 3), min_size=D, max_size=D)),
        "same_stride": draw(st.booleans()), "derivative": draw(st.lists(st.integers(0, 2), min_size=D, max_size=D)),
        "crop": draw(st.booleans()), "dims": draw(st.lists(st.integers(0, D - 1), min_size=0, max_size=D, unique=True)),
        "point": _draw_point(draw, True, point),
    }


def build_bspline_probe(case) -> Probe:
    from deepali.core import functional as U

    entry, D, shape, key = case["entry"], case["D"], tuple(case["shape"]), case["key"]
    c = noise((case["N"], case["C"]) + shape, key + 71, -1.0, 1.0)
    c = _leaf(torch.zeros_like(c) if _is_special(case) else c)  # special point: all-zero coefficients (initial FFD parameters)
    stride = case["stride"][0] if case["same_stride"] else list(case["stride"])
    sl = [case["stride"][0]] * D if case["same_stride"] else list(case["stride"])
    labels = [f"D={D}", f"stride={sl}", f"point={case.get('point', 'generic')}"]
    kw = {}
    if case["crop"]:
        kw["size"] = [max(1, s * (n - 3) - 1) for s, n in zip(sl, shape[::-1])]
    if entry == "evaluate_cubic_bspline":
        return Probe([c], lambda: U.evaluate_cubic_bspline(c, stride=stride, **kw), 1.0, labels=labels)
    if entry == "evaluate_cubic_bspline.transpose":
        return Probe([c], lambda: U.evaluate_cubic_bspline(c, stride=stride, transpose=True, **kw), 1.0, labels=labels)
    if entry == "evaluate_cubic_bspline.derivative":
        der = list(case["derivative"])
        return Probe([c], lambda: U.evaluate_cubic_bspline(c, stride=stride, derivative=der, **kw), 1.0, labels=labels + [f"der={der}"])
    if entry == "evaluate_cubic_bspline.kernel":
        kernel = [U.bspline_interpolation_weights(degree=3, stride=s, dtype=torch.float64) for s in sl]
        return Probe([c], lambda: U.evaluate_cubic_bspline(c, kernel=kernel, **kw), 1.0, labels=labels)
    dims = sorted(case["dims"]) or None
    return Probe([c], lambda: U.subdivide_cubic_bspline(c, dims=dims), 1.0, labels=[f"D={D}", f"dims={dims}"])


def run_bspline(case):
    return check_probe(case["entry"], build_bspline_probe(case), case["key"])


# =======================================================================================
# facet 6: rotation parameterisations, homogeneous helpers and grid point maps

ROT_ENTRIES = ["euler_rotation_matrix", "euler_rotation_angles", "quaternion_to_rotation_matrix", "rotation_matrix_to_quaternion",
               "angle_axis_to_rotation_matrix", "rotation_matrix_to_angle_axis", "quaternion_to_angle_axis",
               "angle_axis_to_quaternion", "normalize_quaternion", "quaternion_log_to_exp", "quaternion_exp_to_log",
               "scaling_transform", "shear_matrix", "translation", "homogeneous_transform.points", "homogeneous_transform.matrix",
               "homogeneous_matmul", "Grid.transform_points", "Grid.transform_vectors", "Grid.transform_points.default_decimals"]
# special point: zero angles / identity quaternion / identity matrix / unit scales / zero offsets.  Not generated for the angle-axis
# and quaternion log / exp conversions (sqrt / norm of the rotation vector at 0: kink) and for 3D euler_rotation_angles (acos at 1)
ROT_SPECIAL = ("euler_rotation_matrix", "euler_rotation_angles", "quaternion_to_rotation_matrix", "rotation_matrix_to_quaternion",
               "normalize_quaternion", "scaling_transform", "shear_matrix", "translation", "homogeneous_transform.points",
               "homogeneous_transform.matrix", "homogeneous_matmul")
EULER_ORDERS = ["XYZ", "ZYX", "ZXY", "XZX", "ZXZ", "YXZ", "XYX", "YZY", "ZYZ"]
AX4 = ["grid", "cube", "cube_corners", "world"]


@st.composite
def rotation_cases(draw, entry=None, point=None):
    entry = entry or draw(st.sampled_from(ROT_ENTRIES))
    D = draw(gen.dims())
    point = _draw_point(draw, entry in ROT_SPECIAL, point)
    if point == "special" and entry == "euler_rotation_angles":
        D = 2  # identity matrix: atan2 is smooth there; the 3D decompositions have their acos end point / gimbal lock at identity
    case = {"entry": entry, "D": D, "N": draw(st.integers(1, 3)), "key": draw(st.integers(0, 10 ** 6)), "point": point,
            "order": draw(st.sampled_from(EULER_ORDERS)), "homogeneous": draw(st.booleans()),
            "a": draw(st.sampled_from(AX4)), "b": draw(st.sampled_from(AX4)), "two": draw(st.booleans()),
            "dtype": draw(st.sampled_from(["float64", "float64", "float32"]))}
    if entry.startswith("Grid."):
        case["dtype"] = "float64"  # world -> index maps cancel (x - origin) / spacing: float32 round-off is not a gradient matter
        case["grid"] = draw(small_grids(D))
        if case["two"]:
            case["grid2"] = draw(small_grids(D))
    return case


def _generic_rotations(N, key):
    """Rotation matrices (N, 3, 3) of generic quaternions, away from the branch switches of the matrix -> quaternion code."""
    q = hash_noise((N, 4), key, -1.0, 1.0)
    q[:, 0] = np.sign(q[:, 0] + 1e-9) * (0.15 + 0.85 * np.abs(q[:, 0]))
    q /= np.linalg.norm(q, axis=1, keepdims=True)
    return q, np.stack([ref.quaternion_matrix(x) for x in q])


def build_rotation_probe(case) -> Probe:
    from deepali.core import Axes
    from deepali.core import functional as U

    entry, D, N, key = case["entry"], case["D"], case["N"], case["key"]
    dt = torch.float64 if case["dtype"] == "float64" else torch.float32
    labels = [case["dtype"], f"point={case.get('point', 'generic')}"]
    sp = _is_special(case)
    g_ = 0.0 if sp else 1.0  # factor of the generic offsets from the identity element
    if entry == "euler_rotation_matrix":
        if D == 2:
            a = _leaf(noise((N, 1), key + 81, -3.0, 3.0, dt) * g_)
            return Probe([a], lambda: U.euler_rotation_matrix(a, homogeneous=case["homogeneous"]), 1.0, labels=labels + ["D=2"])
        a = _leaf(noise((N, 3), key + 81, -3.0, 3.0, dt) * g_)
        order = case["order"]
        # the generic-order fallback multiplies (N, 3, 3) factors (homogeneous output is a C08 matter, not generated here)
        hom = case["homogeneous"] and order in ("XYZ", "ZYX", "ZXY", "XZX", "ZXZ")
        return Probe([a], lambda: U.euler_rotation_matrix(a, order=order, homogeneous=hom), 1.0,
                     labels=labels + [f"order={order}", f"hom={hom}"])
    q, R = _generic_rotations(N, key + 82)
    if sp:  # identity quaternion / rotation matrix
        q = np.tile(np.array([1.0, 0.0, 0.0, 0.0]), (N, 1))
        R = np.tile(np.eye(3), (N, 1, 1))
    if entry == "euler_rotation_angles":
        order = case["order"] if case["order"] in ("XZX", "ZXZ") else "ZXZ"
        dt = torch.float64  # the function validates |det| = 1 with allclose: only float64 steps keep the perturbed matrix valid
        # generic angles away from the gimbal lock / acos end points: build the matrix from generated angles
        ang = hash_noise((N, 3), key + 83, 0.3, 1.2) * np.where(hash_noise((N, 3), key + 84, -1, 1) < 0, -1.0, 1.0)
        if order in ("XZX", "ZXZ"):
            ang[:, 1] = np.abs(ang[:, 1])
        if D == 2:
            M = _leaf(torch.tensor(np.stack([ref.rot2(x[0] * g_) for x in ang]), dtype=dt))
            return Probe([M], lambda: U.euler_rotation_angles(M), 1.0, labels=["float64", "D=2", labels[1]])
        M = _leaf(torch.tensor(np.stack([ref.euler_matrix(x, order) for x in ang]), dtype=dt))
        return Probe([M], lambda: U.euler_rotation_angles(M, order=order), 1.0, labels=["float64", f"order={order}"])
    if entry == "quaternion_to_rotation_matrix":
        x = _leaf(torch.tensor(q * (1.0 if sp else 0.5 + hash_noise((N, 1), key + 85, 0.0, 1.0)), dtype=dt))
        return Probe([x], lambda: U.quaternion_to_rotation_matrix(x), 1.0, labels=labels)
    if entry in ("rotation_matrix_to_quaternion", "rotation_matrix_to_angle_axis"):
        tr = np.trace(R, axis1=1, axis2=2)
        dg = np.sort(np.diagonal(R, axis1=1, axis2=2), axis=1)
        if np.any(np.abs(tr) < 0.05) or np.any((tr < 0.05) & (np.diff(dg, axis=1).min(axis=1) < 0.05)):
            raise Skip("generated rotation near a branch switch of rotation_matrix_to_quaternion")
        M = _leaf(torch.tensor(R, dtype=dt))
        return Probe([M], lambda: getattr(U, entry)(M), 1.0, labels=labels + [f"trace>0={bool((tr > 0).all())}"])
    if entry == "quaternion_to_angle_axis":
        x = _leaf(torch.tensor(q, dtype=dt))
        return Probe([x], lambda: U.quaternion_to_angle_axis(x), 1.0, labels=labels)
    if entry in ("angle_axis_to_rotation_matrix", "angle_axis_to_quaternion", "quaternion_log_to_exp"):
        v = noise((N, 3), key + 86, -1.5, 1.5, dt)
        v = v + 0.2 * torch.sign(v)
        x = _leaf(v)
        return Probe([x], lambda: getattr(U, entry)(x), 1.0, labels=labels)
    if entry == "quaternion_exp_to_log":
        x = _leaf(torch.tensor(q * 0.9, dtype=dt))  # |w| < 1: inside the clamp of acos
        return Probe([x], lambda: U.quaternion_exp_to_log(x), 1.0, labels=labels)
    if entry == "normalize_quaternion":  # special point: already normalised (identity) quaternion
        x = _leaf(torch.tensor(q * (1.0 if sp else 0.5 + hash_noise((N, 1), key + 85, 0.0, 1.0)), dtype=dt))
        return Probe([x], lambda: U.normalize_quaternion(x), 1.0, labels=labels)
    if entry == "scaling_transform":
        x = _leaf(torch.ones((N, D), dtype=dt) if sp else noise((N, D), key + 87, 0.5, 1.5, dt))
        return Probe([x], lambda: U.scaling_transform(x), 1.0, labels=labels)
    if entry == "shear_matrix":
        x = _leaf(noise((N, 1 if D == 2 else 3), key + 88, -0.6, 0.6, dt) * g_)
        return Probe([x], lambda: U.shear_matrix(x), 1.0, labels=labels)
    if entry == "translation":
        x = _leaf(noise((N, D), key + 89, -1.0, 1.0, dt) * g_)
        return Probe([x], lambda: U.translation(x), 1.0, labels=labels)
    if entry.startswith("homogeneous_transform"):
        m = torch.eye(D, D + 1, dtype=dt).unsqueeze(0).repeat(N, 1, 1) + noise((N, D, D + 1), key + 90, -0.3, 0.3, dt) * g_
        p = noise((N, 4, D), key + 91, -1.0, 1.0, dt)
        if entry.endswith("points"):
            p = _leaf(p)
            return Probe([p], lambda: U.homogeneous_transform(m, p), 1.0, labels=labels)
        m = _leaf(m)
        return Probe([m], lambda: U.homogeneous_transform(m, p), 1.0, labels=labels)
    if entry == "homogeneous_matmul":
        a = _leaf(torch.eye(D, D + 1, dtype=dt).unsqueeze(0).repeat(N, 1, 1) + noise((N, D, D + 1), key + 92, -0.3, 0.3, dt) * g_)
        b = _leaf(torch.eye(D, dtype=dt).unsqueeze(0).repeat(N, 1, 1) + noise((N, D, D), key + 93, -0.3, 0.3, dt) * g_)
        c = _leaf(noise((N, D, 1), key + 94, -0.3, 0.3, dt) * g_)
        return Probe([a, b, c], lambda: U.homogeneous_matmul(a, b, c), 0.3, labels=labels)
    # Grid point / vector maps
    g = case["grid"]
    grid = make_grid(g)
    m = ref.GridModel.from_desc(g)
    a, b = case["a"], case["b"]
    g2, m2 = (make_grid(case["grid2"]), ref.GridModel.from_desc(case["grid2"])) if case["two"] else (None, m)
    idx = safe_index_coords((N, 3), g["size"], key + 95)
    labels += [f"{a}->{b}", f"two={case['two']}"]
    unit = float(np.abs(m.matrix("grid", a)[:, : D]).max())
    if entry == "Grid.transform_vectors":
        x = _leaf(torch.tensor(hash_noise((N, 3, D), key + 96, -1.0, 1.0) * unit, dtype=dt))
        return Probe([x], lambda: grid.transform_vectors(x, Axes(a), Axes(b), to_grid=g2), unit, labels=labels)
    x = _leaf(torch.tensor(m.points(idx, "grid", a), dtype=dt))
    if entry == "Grid.transform_points":
        return Probe([x], lambda: grid.transform_points(x, Axes(a), Axes(b), to_grid=g2, decimals=None), unit, labels=labels)
    # documented default: rounds when mapping to grid / cube axes -> recorded only
    return Probe([x], lambda: grid.transform_points(x, Axes(a), Axes(b), to_grid=g2), unit, labels=labels,
                 record_only=f"default_decimals[to={b}]")


def run_rotation(case):
    return check_probe(case["entry"], build_rotation_probe(case), case["key"])


# =======================================================================================
# facet 7: similarity losses w.r.t. input and target

ELEMENTWISE = ["mse_loss", "ssd_loss", "mae_loss", "l1_loss", "huber_loss", "smooth_l1_loss"]
SIM_ENTRIES = ELEMENTWISE + ["ncc_loss", "lcc_loss", "wlcc_loss", "mi_loss", "nmi_loss", "dice_score", "dice_loss", "tversky_index",
                             "tversky_index_with_logits", "tversky_loss", "tversky_loss_with_logits", "kld_loss",
                             "balanced_binary_cross_entropy_with_logits", "focal_loss_with_logits", "label_smoothing",
                             "binary_cross_entropy_with_logits", "masked_loss", "reduce_loss"]


# special point: identical source and target images (the optimum a registration converges to; for the losses on logits: the target
# equals the predicted probabilities; kld_loss: the standard normal).  Not generated for mae / l1 (|x - y| at 0: kink).  The
# multiplicative weights / masks are not differentiated there (a zero residual makes the loss legitimately constant in them).
SIM_SPECIAL = ("mse_loss", "ssd_loss", "huber_loss", "smooth_l1_loss", "ncc_loss", "lcc_loss", "wlcc_loss", "mi_loss", "nmi_loss",
               "dice_score", "dice_loss", "tversky_index", "tversky_index_with_logits", "tversky_loss", "tversky_loss_with_logits",
               "kld_loss", "balanced_binary_cross_entropy_with_logits", "focal_loss_with_logits", "binary_cross_entropy_with_logits")


@st.composite
def similarity_cases(draw, entry=None, point=None):
    entry = entry or draw(st.sampled_from(SIM_ENTRIES))
    D = draw(gen.dims())
    point = _draw_point(draw, entry in SIM_SPECIAL, point)
    return {
        "point": point, "wrt": draw(st.sampled_from(["both", "input", "target"] + ([] if point == "special" else ["weights"]))),
        "entry": entry, "D": D, "shape": draw(small_shapes(D, 4)), "N": draw(st.integers(1, 2)), "C": draw(st.integers(1, 2)),
        "key": draw(st.integers(0, 10 ** 6)), "reduction": draw(st.sampled_from(["mean", "sum", "none"])),
        "mask": draw(st.sampled_from([None, None, "full", "channel"])), "norm": draw(st.sampled_from([None, 2.5, "tensor"])),
        "delta": draw(gen.qfloat(0.3, 1.0, 0.05)), "kernel": draw(st.sampled_from([3, 5, 7])),
        "bins": draw(st.sampled_from([8, 16, 32])), "alpha": draw(st.sampled_from([None, 0.3, 0.7])),
        "beta": draw(st.sampled_from([None, 0.4])), "gamma": draw(st.sampled_from([None, 1.0, 1.5])),
        "normalize": draw(st.booleans()),
        "norm_from": draw(st.sampled_from([None, "source", "both"])), "alt_name": draw(st.booleans()),
        "wmask": draw(st.sampled_from(["none", "mask", "source_target"])),
        # the correlation / overlap losses compute in float32 (x.float()): inputs that already ARE float32 are not copied by the
        # cast, so an in-place operation on its result would write into the caller's tensor (purity)
        "in32": draw(st.booleans()),
    }


LOSS_MODULES = {  # public loss classes -> functional form whose input construction is reused
    "Dice": "dice_loss", "NCC": "ncc_loss", "LCC": "lcc_loss", "WLCC": "wlcc_loss", "L1ImageLoss": "mae_loss",
    "HuberImageLoss": "huber_loss", "SmoothL1ImageLoss": "smooth_l1_loss", "L2ImageLoss": "mse_loss", "SSD": "ssd_loss", "MI": "mi_loss",
    "NMI": "nmi_loss", "GradLoss": "grad_loss", "Bending": "bending_loss", "Curvature": "curvature_loss", "Diffusion": "diffusion_loss",
    "Divergence": "divergence_loss", "Elasticity": "elasticity_loss", "TotalVariation": "total_variation_loss",
    "BSplineBending": "bspline_bending_loss"}
_FORWARD_KW = ("mask", "source_mask", "target_mask")


def _loss_class(name):
    import deepali.losses as LM
    import deepali.losses.flow as LF

    return getattr(LM, name, None) or getattr(LF, name)


def _loss_fn(case, name, kw):
    """The functional form `name(*tensors, **kw)`, or - for a loss-module case - ONE instance of the module class
    (constructor arguments from kw, mask arguments passed to forward) that is called on every evaluation."""
    import deepali.losses.functional as L

    cls = case.get("module")
    if cls is None:
        fn = getattr(L, name)
        return lambda *a: fn(*a, **kw)
    kw = dict(kw)
    fwd = {k: kw.pop(k) for k in _FORWARD_KW if k in kw}
    if "weight" in kw:
        fwd["mask"] = kw.pop("weight")
    image = name in SIM_ENTRIES
    if image:
        kw.pop("reduction", None)  # the image loss modules always reduce by the mean
    if "norm_from" in kw:
        src, tgt = kw.pop("norm_from")
        kw.update(source=src, target=tgt)
    if cls in ("HuberImageLoss", "SmoothL1ImageLoss") and case.get("alt_name"):  # documented alternative keyword
        a, b = ("delta", "beta") if cls == "HuberImageLoss" else ("beta", "delta")
        kw[b] = kw.pop(a)
    mod = _loss_class(cls)(**kw)
    return lambda *a: mod(*a, **fwd)


def _posmask(shape, key):
    """Generated soft mask with values in [0.2, 1] (a fixed multiplicative weight, not a leaf)."""
    return noise(shape, key, 0.2, 1.0)


def build_similarity_probe(case) -> Probe:
    import deepali.losses.functional as L

    entry, D, shape, key, N, C = case.get("fentry") or case["entry"], case["D"], tuple(case["shape"]), case["key"], case["N"], case["C"]
    full = (N, C) + shape
    red = case["reduction"]
    labels = [f"D={D}", f"red={red}", f"wrt={case['wrt']}", f"point={case.get('point', 'generic')}"]
    stateful = case.get("module") is not None
    same = _is_special(case) and entry in SIM_SPECIAL  # special point: identical source and target

    def pick(x, y):
        """Leaves according to `wrt` ('weights' falls back to both where the entry has no differentiable weights)."""
        xl = _leaf(x) if case["wrt"] in ("both", "input", "weights") else x
        yl = _leaf(y) if case["wrt"] in ("both", "target", "weights") else y
        return xl, yl, [t for t in (xl, yl) if t.requires_grad]

    if entry in ELEMENTWISE:
        x = noise(full, key + 101, 0.0, 1.0)
        # |x - y| is kept >= 0.05 away from 0 (L1) and from the Huber / smooth-L1 threshold
        mag = noise(full, key + 102, 0.0, 1.0)
        sgn = torch.where(noise(full, key + 103) < 0, -1.0, 1.0).double()
        kw = dict(reduction=red)
        if entry in ("huber_loss", "smooth_l1_loss"):
            d = case["delta"]
            lo_hi = torch.where(noise(full, key + 104) < 0, 0.05 + mag * (d - 0.1), d + 0.05 + mag * 0.5)
            y = x.clone() if same else x + sgn * lo_hi  # x = y: the smooth (quadratic) branch
            kw["delta" if entry == "huber_loss" else "beta"] = d
            labels.append(f"delta={d}")
        else:
            y = x.clone() if same else x + sgn * (0.05 + 0.5 * mag)
        if case["mask"] is not None:
            kw["mask"] = _posmask((N, 1 if case["mask"] == "channel" else C) + shape, key + 105)
        norm_leaf = None
        if case["norm"] == "tensor" and not case.get("module") and not same:  # (a zero residual is constant in the norm)
            # 'norm' is documented as float or Tensor (e.g. max_difference(source, target).square() of images being optimised):
            # a 0-dimensional tensor carrying a gradient
            norm_leaf = kw["norm"] = _leaf(torch.tensor(1.5 + (key % 7) / 4.0, dtype=torch.float64))
        elif case["norm"] is not None:
            kw["norm"] = 2.5 if case["norm"] == "tensor" else case["norm"]
        labels += [f"mask={case['mask']}", f"norm={case['norm']}"]
        xl, yl, leaves = pick(x, y)
        if norm_leaf is not None:
            leaves = leaves + [norm_leaf]
        if case["wrt"] == "weights" and "mask" in kw:
            # soft masks are multiplicative weights (masked_loss) and normalise the mean (reduce_loss):
            # the loss sum(l*m)/sum(m) is a differentiable function of the mask (e.g. a warped overlap mask)
            kw["mask"] = _leaf(kw["mask"])
            leaves = leaves + [kw["mask"]]
            labels.append("mask_leaf")
        if case.get("module") and case.get("norm_from") and "norm" not in kw:
            kw["norm_from"] = (x, y) if case["norm_from"] == "both" else (x, None)
        call = _loss_fn(case, entry, kw)
        return Probe(leaves, lambda: call(xl, yl), 1.0, labels=labels, stateful=stateful)
    if entry in ("ncc_loss", "lcc_loss", "wlcc_loss"):
        x = noise(full, key + 106, 0.0, 1.0)
        y = x.clone() if same else 0.6 * x + 0.4 * noise(full, key + 107, 0.0, 1.0)
        in32 = bool(case.get("in32"))
        f32 = (lambda t: t.float()) if in32 else (lambda t: t)
        labels.append(f"in32={in32}")
        xl, yl, leaves = pick(f32(x), f32(y))
        kw = dict(reduction=red)
        if entry != "ncc_loss":
            ks = max(k for k in (3, 5, 7) if k <= min(case["kernel"], min(shape)))
            kw["kernel_size"] = ks if case["alpha"] is None else (ks,) + (3,) * (D - 1)  # scalar or (kx, ky[, kz])
            labels.append(f"kernel={kw['kernel_size']}")
        if entry == "lcc_loss" and case["mask"] is not None:  # ncc_loss rejects every mask (K6, C16)
            kw["mask"] = f32(_posmask((N, 1) + shape, key + 108))
            labels.append(f"mask={case['mask']}")
            if case["wrt"] == "weights":  # local scores are weighted by the mask and the mean is normalised by its sum
                kw["mask"] = _leaf(kw["mask"])
                leaves = leaves + [kw["mask"]]
                labels.append("mask_leaf")
        if entry == "wlcc_loss":
            if case["wmask"] == "mask":
                kw["mask"] = f32(_posmask((N, 1) + shape, key + 108))
            elif case["wmask"] == "source_target":
                kw["source_mask"] = f32(_posmask((N, 1) + shape, key + 108))
                kw["target_mask"] = f32(_posmask((N, 1) + shape, key + 109))
            labels.append(f"wmask={case['wmask']}")
            if case["wrt"] == "weights" and case["wmask"] != "none":  # documented as multiplicative weights
                for k in ("mask", "source_mask", "target_mask"):
                    if k in kw:
                        kw[k] = _leaf(kw[k])
                leaves = [kw[k] for k in ("mask", "source_mask", "target_mask") if k in kw]
        call = _loss_fn(case, entry, kw)
        # identical images: the result 1 - a**2 / (b * c) and its gradient are pure float32 round-off of three accumulated sums
        return Probe(leaves, lambda: call(xl, yl), 1.0, labels=labels, abs_mag=8.0 if same else 1.0, rule="f32", stateful=stateful)
    if entry in ("mi_loss", "nmi_loss"):
        x = noise((N, 1) + shape, key + 110, 0.0, 1.0)
        y = x.clone() if same else 0.5 * x + 0.5 * noise((N, 1) + shape, key + 111, 0.0, 1.0)
        xl, yl, leaves = pick(x, y)
        kw = dict(vmin=-0.25, vmax=1.25, num_bins=case["bins"])
        if case["mask"] is not None:
            kw["mask"] = _posmask((N, 1) + shape, key + 112)
        labels += [f"bins={case['bins']}", f"mask={case['mask']}"]
        call = _loss_fn(case, entry, kw)
        return Probe(leaves, lambda: call(xl, yl), 1.0, labels=labels, stateful=stateful)
    if entry in ("dice_score", "dice_loss"):
        x, y = noise(full, key + 113, 0.05, 0.95), noise(full, key + 114, 0.05, 0.95)
        y = x.clone() if same else y
        in32 = bool(case.get("in32"))
        f32 = (lambda t: t.float()) if in32 else (lambda t: t)
        labels.append(f"in32={in32}")
        xl, yl, leaves = pick(f32(x), f32(y))
        kw = dict(reduction=red)
        if case["mask"] is not None:
            kw["weight"] = f32(_posmask(full, key + 115))
            if case["wrt"] == "weights":  # 'weight': voxelwise multiplicative weights
                kw["weight"] = _leaf(kw["weight"])
                leaves = [kw["weight"]]
        call = _loss_fn(case, entry, kw)
        return Probe(leaves, lambda: call(xl, yl), 1.0, labels=labels, abs_mag=8.0 if same else 1.0, rule="f32", stateful=stateful)
    if entry.startswith("tversky"):
        logits = entry.endswith("with_logits") or case["normalize"]
        C2 = C if not entry.endswith("with_logits") else 1
        x = noise((N, C2) + shape, key + 116, -2.0, 2.0) if logits else noise((N, C2) + shape, key + 116, 0.05, 0.95)
        y = noise((N, max(2, C2) if C2 > 1 else 1) + shape, key + 117, 0.05, 0.95)
        if same and y.shape == x.shape:  # the target equals the prediction (the probabilities of the logits)
            y = (x.sigmoid() if x.shape[1] == 1 else x.softmax(1)) if logits else x.clone()
        if case.get("in32"):
            x, y = x.float(), y.float()
        labels.append(f"in32={bool(case.get('in32'))}")
        xl, yl, leaves = pick(x, y)
        kw = dict(alpha=case["alpha"], beta=case["beta"], reduction=red)
        if not entry.endswith("with_logits"):
            kw["normalize"] = case["normalize"]
        if entry.startswith("tversky_loss"):
            kw["gamma"] = case["gamma"]
        labels += [f"C={C2}", f"logits={logits}"]
        fn = getattr(L, entry)

        def call():
            try:
                return fn(xl, yl, **kw)
            except TypeError as e:
                if "unexpected keyword argument 'gamma'" in str(e):
                    raise Skip("excluded_known F11 (C16): tversky_loss passes gamma to tversky_index")
                raise

        return Probe(leaves, call, 1.0, labels=labels, abs_mag=8.0 if same else 1.0, rule="f32")  # the loss casts to float32
    if entry == "kld_loss":
        z_ = 0.0 if same else 1.0  # special point: mean 0, log-variance 0 (the minimum)
        mu, lv = _leaf(noise((N, 6), key + 118, -1.0, 1.0) * z_), _leaf(noise((N, 6), key + 119, -1.0, 1.0) * z_)
        # (at the minimum the value 1 + lv - mu^2 - exp(lv) is exactly 0 by cancellation of terms of magnitude 1: round-off
        # of the perturbed values is relative to 1, not to the value)
        return Probe([mu, lv], lambda: L.kld_loss(mu, lv, reduction=red), 1.0, labels=labels, abs_mag=1.0 if same else 0.0)
    if entry in ("balanced_binary_cross_entropy_with_logits", "focal_loss_with_logits"):
        x = _leaf(noise((N, 1) + shape, key + 120, -2.0, 2.0))
        y = x.detach().sigmoid() if same else noise((N, 1) + shape, key + 121, 0.05, 0.95)
        kw = dict(reduction=red)
        if case["mask"] is not None:
            kw["weight"] = _posmask((N, 1) + shape, key + 122)
        if entry == "focal_loss_with_logits":
            if case["alpha"] is not None:
                kw["alpha"] = case["alpha"]
            if case["gamma"] is not None:
                kw["gamma"] = case["gamma"]
            labels += [f"alpha={case['alpha']}", f"gamma={case['gamma']}"]
        return Probe([x], lambda: getattr(L, entry)(x, y, **kw), 1.0, labels=labels)
    if entry == "label_smoothing":
        x = _leaf(noise((N, 3) + shape, key + 123, 0.05, 0.95))
        return Probe([x], lambda: L.label_smoothing(x, alpha=0.1), 1.0, labels=labels, rule="f32")  # labels.float(): float32 probabilities
    if entry == "binary_cross_entropy_with_logits":  # re-exported torch function
        x, y = noise(full, key + 124, -2.0, 2.0), noise(full, key + 125, 0.05, 0.95)
        y = x.sigmoid() if same else y
        xl, yl, leaves = pick(x, y)
        kw = dict(reduction=red)
        if case["mask"] is not None:
            kw["weight"] = _posmask(full, key + 126)
        return Probe(leaves, lambda: L.binary_cross_entropy_with_logits(xl, yl, **kw), 1.0, labels=labels)
    if entry in ("masked_loss", "reduce_loss"):
        # the mask is documented as a multiplicative factor: differentiated as a weight when wrt == 'weights'
        x = noise(full, key + 127, 0.1, 1.0)
        m = _posmask((N if case["mask"] != "channel" else 1, 1 if case["mask"] == "channel" else C) + shape, key + 128)
        xl = _leaf(x)
        if entry == "reduce_loss":
            mk = None if case["mask"] is None else m
            leaves = [xl]
            if mk is not None and case["wrt"] == "weights" and red == "mean":  # only 'mean' uses the mask: it divides by its sum
                mk = _leaf(mk)
                leaves = [xl, mk]
            return Probe(leaves, lambda: L.reduce_loss(xl * 1.0, reduction=red, mask=mk), 1.0, labels=labels + [f"mask={case['mask']}"])
        ml = _leaf(m) if case["wrt"] == "weights" else m
        inplace = case["normalize"]  # in-place multiplication of a fresh intermediate
        leaves = [xl, ml] if ml.requires_grad else [xl]
        return Probe(leaves, lambda: L.masked_loss(xl * 1.0, ml, inplace=inplace), 1.0, labels=labels + [f"inplace={inplace}"])
    raise KeyError(entry)


def run_similarity(case):
    return check_probe(case["entry"], build_similarity_probe(case), case["key"])


# =======================================================================================
# facet 8: regularisation losses w.r.t. the vector field

REG_ENTRIES = ["bending_loss", "curvature_loss", "diffusion_loss", "divergence_loss", "elasticity_loss", "grad_loss",
               "total_variation_loss", "bspline_bending_loss", "inverse_consistency_loss"]


# special point: exactly all-zero vector field / coefficients (initial parameters).  Not generated for total_variation_loss (|du| at
# 0) and inverse_consistency_loss (Euclidean norm of a zero residual): kinks; grad_loss there only with even p and q in {1, 2}
REG_SPECIAL = ("bending_loss", "curvature_loss", "diffusion_loss", "divergence_loss", "elasticity_loss", "grad_loss",
               "bspline_bending_loss")


@st.composite
def regulariser_cases(draw, entry=None, point=None):
    entry = entry or draw(st.sampled_from(REG_ENTRIES))
    D = draw(gen.dims())
    case = {
        "point": _draw_point(draw, entry in REG_SPECIAL, point),
        "entry": entry, "D": D, "shape": draw(small_shapes(D, 4, 8, 5)), "N": draw(st.integers(1, 2)), "key": draw(st.integers(0, 10 ** 6)),
        "amp": draw(gen.qfloat(0.05, 0.4, 0.01)), "reduction": draw(st.sampled_from(["mean", "sum", "none"])),
        "mode": draw(st.sampled_from(FD_MODES)), "sigma": draw(st.sampled_from([None, None, 0.7])),
        "spacing": draw(st.sampled_from([None, "scalar", "vector", "tensor"])), "stride": draw(st.sampled_from([1, 2])),
        "p": draw(st.sampled_from([0, 1, 2, 3, 4, 1.5])), "q": draw(st.sampled_from([1, None, 0, 0.5, 2])),
        "lame": draw(st.sampled_from([[1.0, 0.5], [0.0, 1.0], [2.0, 0.0], "rubber"])),
        "units": draw(st.sampled_from(["cube", "voxel", "world"])), "margin": draw(st.sampled_from([0, 1, 0.2])),
        "mask": draw(st.booleans()), "wrt": draw(st.sampled_from(["both", "forward", "inverse"])),
        "kind": draw(st.sampled_from(["fields", "fields", "affine_forward", "affine_inverse"])),
    }
    if entry == "inverse_consistency_loss":
        case["grid"] = draw(small_grids(D))
    return case


def build_regulariser_probe(case) -> Probe:
    import deepali.losses.functional as L

    entry, D, shape, key, N, a, red = (case.get("fentry") or case["entry"], case["D"], tuple(case["shape"]), case["key"], case["N"],
                                       case["amp"], case["reduction"])
    labels = [f"D={D}", f"red={red}", f"point={case.get('point', 'generic')}"]
    stateful = case.get("module") is not None
    zero = _is_special(case) and entry in REG_SPECIAL  # special point: exactly all-zero field
    if entry == "inverse_consistency_loss":
        g = case["grid"]
        grid = make_grid(g)
        shape = tuple(grid.shape)
        u = noise((N, D) + shape, key + 131, -a, a)
        v = -u + noise((N, D) + shape, key + 132, -0.5 * a, 0.5 * a)
        kw = dict(grid=grid, units=case["units"], reduction=red, margin=case["margin"])
        if case["mask"]:
            kw["mask"] = (noise((N, 1) + shape, key + 133, 0.0, 1.0) > 0.3).double()
        labels += [f"units={case['units']}", f"margin={case['margin']}", f"mask={case['mask']}", f"kind={case['kind']}"]
        A = torch.eye(D, D + 1, dtype=torch.float64).unsqueeze(0) + noise((1, D, D + 1), key + 134, -0.1, 0.1)
        fwd, inv = (A if case["kind"] == "affine_forward" else u), (A if case["kind"] == "affine_inverse" else v)
        fl = _leaf(fwd) if case["wrt"] in ("both", "forward") else fwd
        il = _leaf(inv) if case["wrt"] in ("both", "inverse") else inv
        leaves = [t for t in (fl, il) if t.requires_grad]
        return Probe(leaves, lambda: L.inverse_consistency_loss(fl, il, **kw), a, labels=labels)
    if entry == "bspline_bending_loss":
        u = _leaf(noise((N, D) + shape, key + 135, -a, a) * (0.0 if zero else 1.0))
        st_ = case["stride"]
        call = _loss_fn(case, entry, dict(stride=st_, reduction=red))
        return Probe([u], lambda: call(u), a, labels=labels + [f"stride={st_}"], stateful=stateful)
    kw, mode = _deriv_kwargs(case, D)
    kw["reduction"] = red
    labels.append(f"mode={mode}")
    if entry in ("total_variation_loss", "grad_loss"):
        # |du| has kinks at du = 0: separable strictly monotone field, every finite difference >= 0.05 in magnitude
        # (only the un-smoothed difference modes keep that guarantee)
        p, q = (1, 1) if entry == "total_variation_loss" else (case["p"], case["q"])
        # sum(du**p)**q with even p and q in {1, 2} is a polynomial of the derivatives (no kink): every derivative mode / sigma
        smooth_pq = entry == "grad_loss" and p in (2, 4) and q in (1, 2)
        if smooth_pq:
            labels.append("smooth_pq")
        elif mode in ("gaussian", "bspline", "sobel", "prewitt") or case["sigma"] is not None:
            kw.pop("sigma", None)
            if mode in ("gaussian", "bspline", "sobel", "prewitt"):
                kw["mode"] = mode = "central"
                kw.pop("stride", None)
                labels[-1] = "mode=central"
        u = _leaf(monotone_field(N, D, shape, key + 136, 0.05, 0.3))
        if zero:  # sum(|du|**p)**q is smooth at du = 0 for even p and q in {1, 2} only
            p, q = (p if p in (2, 4) else 2), (q if q in (1, 2) else 1)
            u = _leaf(torch.zeros_like(u))
        if entry == "grad_loss":
            if p == 0 and q not in (1, 2):
                q = 1  # sum of signed derivatives raised to a fractional power / abs: kink at 0
            qe = (1.0 / p) if q is None else q
            if qe < 1 and mode in ("forward", "backward"):
                # the replicate-padded one-sided difference is identically 0 at one border, x**q with q < 1 has an
                # infinite slope there for every input (a kink that cannot be generated around): use central differences
                kw["mode"] = mode = "central"
                labels[-1] = "mode=central"
            kw.update(p=p, q=q)
            labels += [f"p={p}", f"q={q}"]
        call = _loss_fn(case, entry, kw)
        return Probe([u], lambda: call(u), 0.3, labels=labels, stateful=stateful)
    u = _leaf(noise((N, D) + shape, key + 137, -a, a) * (0.0 if zero else 1.0))
    if entry == "elasticity_loss":
        lame = case["lame"]
        if lame == "rubber":
            kw["material_name"] = "rubber"
        else:
            kw.update(first_parameter=lame[0], second_parameter=lame[1])
        labels.append(f"lame={lame}")
    fn = _loss_fn(case, entry, kw)
    if entry == "elasticity_loss" and mode == "bspline":
        def call():
            try:
                return fn(u)
            except RuntimeError as e:
                if "must match the size of tensor" in str(e):
                    raise Skip("excluded_known N17-1 (C17): elasticity_loss(mode='bspline') allocates the input shape")
                raise

        return Probe([u], call, a, labels=labels, stateful=stateful)
    return Probe([u], lambda: fn(u), a, labels=labels, stateful=stateful)


def run_regulariser(case):
    return check_probe(case["entry"], build_regulariser_probe(case), case["key"])


# =======================================================================================
# facet 8b: the loss MODULE classes (deepali.losses.*) wrapping the functional forms, and the parameter / patch losses

PARAM_LOSSES = ["L1Norm", "L2Norm", "Sparsity"]
LOSS_MODULE_ENTRIES = sorted(LOSS_MODULES) + PARAM_LOSSES + ["PatchwiseImageLoss"]


@st.composite
def loss_module_cases(draw, entry=None, point=None):
    entry = entry or draw(st.sampled_from(LOSS_MODULE_ENTRIES))
    if entry in LOSS_MODULES:
        f = LOSS_MODULES[entry]
        case = draw(similarity_cases(entry=f, point=point) if f in SIM_ENTRIES else regulariser_cases(entry=f, point=point))
        case.update(entry=entry, fentry=f, module=entry)
        if f in SIM_ENTRIES:
            case["reduction"] = "mean"
        return case
    return {"entry": entry, "D": 3 if entry == "PatchwiseImageLoss" else draw(gen.dims()), "N": draw(st.integers(1, 2)),
            "point": _draw_point(draw, entry == "L2Norm", point),  # zero parameters (L1Norm / Sparsity: |p| at 0 is a kink)
            "C": draw(st.integers(1, 2)), "key": draw(st.integers(0, 10 ** 6)), "shape": draw(small_shapes(3, 3, 5, 5)),
            "pshape": draw(small_shapes(3, 1, 3, 3)), "scale": draw(st.sampled_from([None, 1.0, 1000.0])),
            "inner": draw(st.sampled_from([None, "SSD", "L2ImageLoss", "L1ImageLoss", "NCC"])), "mask": draw(st.booleans()),
            "wrt": draw(st.sampled_from(["both", "input", "target"])), "psize": draw(st.lists(st.integers(1, 5), min_size=1, max_size=3))}


def build_loss_module_probe(case) -> Probe:
    import deepali.losses as LM

    entry, key, N = case["entry"], case["key"], case["N"]
    if entry in LOSS_MODULES:
        f = LOSS_MODULES[entry]
        p = build_similarity_probe(case) if f in SIM_ENTRIES else build_regulariser_probe(case)
        p.labels.append(f"module={entry}")
        return p
    C = case["C"]
    if entry in PARAM_LOSSES:
        shape = tuple(case["psize"])
        mag = noise((N,) + shape, key + 161, 0.05, 1.0)  # |p| >= 0.05: away from the kink of abs()
        x = _leaf(mag * torch.where(noise((N,) + shape, key + 162) < 0, -1.0, 1.0).double())
        if _is_special(case) and entry == "L2Norm":
            x = _leaf(torch.zeros_like(x))
        kw = {} if (case["scale"] is None or entry == "Sparsity") else dict(scale=case["scale"])
        mod = getattr(LM, entry)(**kw)
        return Probe([x], lambda: mod(x), 1.0, stateful=True, labels=[f"scale={case['scale']}", f"point={case.get('point', 'generic')}"])
    # PatchwiseImageLoss: 2D patches sampled within a 3D volume; source and target have the same shape
    shape, psh = tuple(case["shape"]), tuple(case["pshape"])
    inner = case["inner"]
    if inner == "NCC":  # the correlation of a single sample is constant: patches of at least 2 x 2 samples
        psh = (psh[0], max(2, psh[1]), max(2, psh[2]))
    size = shape[::-1]
    x = noise((N, C) + shape, key + 163, 0.0, 1.0)
    y = 0.6 * x + 0.4 * noise((N, C) + shape, key + 164, 0.0, 1.0) + 0.3
    patches = torch.tensor(index_to_cube(safe_index_coords((N,) + psh, size, key + 165), size, True), dtype=torch.float64)
    mod = LM.PatchwiseImageLoss(patches) if inner is None else LM.PatchwiseImageLoss(patches, loss_fn=getattr(LM, inner)())
    xl = _leaf(x) if case["wrt"] in ("both", "input") else x
    yl = _leaf(y) if case["wrt"] in ("both", "target") else y
    kw = {}
    if case["mask"] and C == 1 and inner != "NCC":  # mask: shape of the target AND a single channel; NCC rejects masks (K6, C16)
        kw["mask"] = torch.ones((N, C) + shape, dtype=torch.float64)
    f32 = inner == "NCC"
    return Probe([t for t in (xl, yl) if t.requires_grad], lambda: mod(xl, yl, **kw), 1.0, stateful=True,
                 labels=[f"inner={inner}", f"wrt={case['wrt']}", f"mask={case['mask']}"], rule="f32" if f32 else None,
                 abs_mag=1.0 if f32 else 0.0)


def run_loss_module(case):
    return check_probe(case["entry"], build_loss_module_probe(case), case["key"])


# =======================================================================================
# facet 9: point set distances w.r.t. EVERY point set argument (first and later ones)

POINTSET_ENTRIES = ["ClosestPointDistance.x", "ClosestPointDistance.y", "ClosestPointDistance.all", "ClosestPointDistance.transformed",
                    "LandmarkPointDistance.x", "LandmarkPointDistance.y", "LandmarkPointDistance.all", "LandmarkPointDistance.transformed",
                    "closest_point_distances.x", "closest_point_distances.y", "distance_matrix.x", "distance_matrix.y",
                    "distance_matrix.both"]


@st.composite
def pointset_cases(draw, entry=None, point=None):
    entry = entry or draw(st.sampled_from(POINTSET_ENTRIES))
    D = draw(gen.dims())
    return {"entry": entry, "D": D, "N": draw(st.integers(1, 2)), "X": draw(st.integers(1, 6)), "extra": draw(st.integers(0, 4)),
            "point": _draw_point(draw, entry.endswith(".transformed"), point),  # the transformation at its initial parameters
            "sets": draw(st.integers(1, 3)), "which": draw(st.integers(0, 2)), "key": draw(st.integers(0, 10 ** 6)),
            "scale": draw(st.sampled_from([10.0, 1.0, 0.5])), "split": draw(st.sampled_from([None, 1, 2, 100000])),
            "dtype": draw(st.sampled_from(["float64", "float32"])), "T": draw(st.sampled_from(["AffineTransform", "FreeFormDeformation",
                                                                                             "Translation"]))}


def lattice_points(N, Y, D, key, jitter=0.1):
    """(N, Y, D) points on distinct sites of an integer lattice (generated order) plus a jitter: pairwise separation >= 1 - 2*jitter."""
    side = int(math.ceil(Y ** (1.0 / D))) + 1
    sites = np.stack(np.meshgrid(*[np.arange(side, dtype=np.float64)] * D, indexing="ij"), -1).reshape(-1, D)
    out = np.empty((N, Y, D))
    for n in range(N):
        order = np.argsort(hash_noise((len(sites),), key * 3 + n, 0.0, 1.0), kind="stable")
        out[n] = sites[order[:Y]]
    return out + hash_noise((N, Y, D), key * 3 + 7, -jitter, jitter)


def offset_vectors(shape, key, lo, hi):
    """Vectors (..., D) of generated direction with Euclidean norm in [lo, hi]."""
    v = hash_noise(tuple(shape), key, -1.0, 1.0)
    v = v + np.where(np.abs(v).sum(-1, keepdims=True) < 0.1, 1.0, 0.0)
    r = lo + (hi - lo) * hash_noise(tuple(shape[:-1]) + (1,), key + 1, 0.0, 1.0)
    return v / np.linalg.norm(v, axis=-1, keepdims=True) * r


def build_pointset_probe(case) -> Probe:
    import deepali.losses as LM
    from deepali.core import functional as U

    entry, D, N, X, key = case["entry"], case["D"], case["N"], case["X"], case["key"]
    fn, wrt = entry.split(".")
    dt = torch.float64 if case["dtype"] == "float64" else torch.float32
    labels = [f"D={D}", f"N={N}", case["dtype"]]
    closest = fn in ("ClosestPointDistance", "closest_point_distances")
    module = fn in ("ClosestPointDistance", "LandmarkPointDistance")
    nsets = case["sets"] if module else 1
    j = case["which"] % nsets  # argument position (among the later point sets) of the `base` set
    Y = X + (case["extra"] if closest else 0)
    base = lattice_points(N, Y, D, key + 141)  # pairwise separation >= 0.8
    unit, t, src = 1.0, None, None
    if wrt == "transformed":
        # registration use: the point set in argument position j + 1 is the output of the transformation being optimised
        tcase = {"N": 1, "key": key, "dtype": "float64", "amp": 0.2, "ffd_stride": 2, "transpose": False, "order": None,
                 "point": case.get("point", "generic")}
        grid = make_grid({"kind": "identity", "size": [5] * D, "spacing": [1.0] * D, "center": [0.0] * D, "ac": True,
                          "rot": [0.0] * (1 if D == 2 else 3), "perm": list(range(D)), "flip": [1] * D})
        t = build_transform(case["T"], grid, tcase)
        side = int(math.ceil(Y ** (1.0 / D))) + 1
        src = torch.tensor(base / side * 1.6 - 0.8, dtype=torch.float64)  # inside the cube of the transform
        with torch.no_grad():
            base = t(src).numpy().copy()
        if Y > 1:
            dist = np.linalg.norm(base[:, :, None] - base[:, None, :], axis=-1) + 1e9 * np.eye(Y)
            unit = float(dist.min()) / 0.8
        else:
            unit = 0.3
        labels += [f"T={case['T']}", f"point={case.get('point', 'generic')}"]
    # x: a point of `base` plus an offset of norm in [0.1, 0.3] units -> the nearest neighbour in `base` of each x is
    # unique with a margin >= 0.2 units and no distance is zero (kink of the Euclidean norm)
    if closest:
        pick = np.stack([np.argsort(hash_noise((Y,), key * 5 + n, 0.0, 1.0), kind="stable")[:X] for n in range(N)])
        xs = np.take_along_axis(base, pick[..., None], axis=1) + unit * offset_vectors((N, X, D), key + 142, 0.1, 0.3)
    else:  # landmarks: one-to-one correspondence
        xs = base + unit * offset_vectors((N, X, D), key + 142, 0.1, 0.5)
    sets = []
    for k in range(nsets):
        if k == j:
            sets.append(base)
        elif closest:  # the same neighbour structure: a copy of `base` moved by < 0.07 units per point
            sets.append(base + unit * hash_noise((N, Y, D), key + 150 + k, -0.04, 0.04))
        else:
            sets.append(xs + unit * offset_vectors((N, X, D), key + 150 + k, 0.1, 0.5))
    x = torch.tensor(xs, dtype=dt)
    ys = [torch.tensor(y, dtype=dt) for y in sets]
    if module:
        kw = dict(scale=case["scale"])
        if closest and case["split"] is not None:
            kw["split_size"] = case["split"]
        mod = getattr(LM, fn)(**kw)
        labels += [f"sets={nsets}", f"wrt={wrt}" + (f"[{j}]" if wrt in ("y", "transformed") else "")]
        if wrt == "transformed":
            def ev():
                args = list(ys)
                args[j] = t(src).to(dt)
                return mod(x, *args)

            return Probe(list(t.parameters()), ev, 0.3 if case["T"] != "FreeFormDeformation" else 0.2, stateful=True,
                         labels=labels, rule="f32")
        xl = _leaf(x) if wrt in ("x", "all") else x
        yl = [(_leaf(y) if (wrt == "all" or (wrt == "y" and i == j)) else y) for i, y in enumerate(ys)]
        leaves = [v for v in [xl] + yl if v.requires_grad]
        return Probe(leaves, lambda: mod(xl, *yl), 1.0, stateful=True, labels=labels, rule="f32")
    y = ys[0]
    xl = _leaf(x) if wrt in ("x", "both") else x
    yl = _leaf(y) if wrt in ("y", "both") else y
    leaves = [v for v in (xl, yl) if v.requires_grad]
    labels.append(f"wrt={wrt}")
    if fn == "closest_point_distances":  # computes in float32 (x.float())
        kw = {} if case["split"] is None else dict(split_size=case["split"])
        return Probe(leaves, lambda: U.closest_point_distances(xl, yl, **kw), 1.0, labels=labels, rule="f32")
    return Probe(leaves, lambda: U.distance_matrix(xl, yl), 1.0, labels=labels)


def run_pointset(case):
    return check_probe(case["entry"], build_pointset_probe(case), case["key"])


# =======================================================================================
# facet 10: the remaining differentiable functions of deepali.core.functional (completeness pass over __all__)

CORE_ENTRIES = [
    "abspow", "atanh", "batched_index_select", "max_difference.source", "max_difference.target", "move_dim", "as_tensor",
    "as_float_tensor", "atleast_1d", "affine_rotation_matrix", "affine_transform_points.transforms", "affine_transform_points.points",
    "affine_transform_vectors.transforms", "affine_transform_vectors.vectors", "apply_affine_transform", "as_homogeneous_matrix",
    "as_homogeneous_tensor", "hmm", "homogeneous_matrix", "rotation_matrix", "tensordot", "vectordot", "vectordot.w", "vector_rotation", "avg_pool",
    "max_pool", "min_pool", "conv.data", "conv.kernel", "conv1d.data", "conv1d.kernel", "crop", "pad", "center_crop", "center_pad",
    "fill_border", "flatten_channels", "image_slice", "dot_batch", "dot_channels", "dot_channels.weight", "downsample", "upsample",
    "gaussian_pyramid", "finite_differences", "grid_resample", "grid_resize", "normalize_image", "rescale", "rand_sample",
    "grid_sample_mask.coords", "jacobian_dict", "normalize_grid", "denormalize_grid", "polyline_directions", "polyline_tangents",
    "transform_grid.transform", "transform_grid.grid", "transform_points.transform", "transform_points.points", "bounding_box"]
PAD_MODES = ["constant", "reflect", "replicate"]
# special point: identity matrices / zero offsets / zero angles / all-zero flow, and the no-op argument forms that return the input
# (zero margins, same size, same spacing, zero levels)
CORE_SPECIAL = ("affine_rotation_matrix", "affine_transform_points.transforms", "affine_transform_points.points",
                "affine_transform_vectors.transforms", "affine_transform_vectors.vectors", "apply_affine_transform",
                "as_homogeneous_matrix", "as_homogeneous_tensor", "hmm", "homogeneous_matrix", "rotation_matrix", "jacobian_dict",
                "transform_grid.transform", "transform_grid.grid", "transform_points.transform", "transform_points.points",
                "crop", "pad", "center_crop", "center_pad", "downsample", "upsample", "grid_resample", "grid_resize")


@st.composite
def core_cases(draw, entry=None, point=None):
    entry = entry or draw(st.sampled_from(CORE_ENTRIES))
    D = draw(gen.dims())
    return {"entry": entry, "D": D, "shape": draw(small_shapes(D, 4, 8, 6)), "N": draw(st.integers(1, 2)), "C": draw(st.integers(1, 2)),
            "point": _draw_point(draw, entry in CORE_SPECIAL, point),
            "key": draw(st.integers(0, 10 ** 6)), "ac": draw(st.booleans()), "opt": draw(st.integers(0, 5)), "opt2": draw(st.integers(0, 3)),
            "flag": draw(st.booleans()), "mode": draw(st.sampled_from(PAD_MODES)), "sigma": draw(st.sampled_from([None, 0, 0.7, 1.0])),
            "margin": draw(st.lists(st.integers(-1, 2), min_size=D, max_size=D)), "ksize": draw(st.sampled_from([2, 3])),
            "exponent": draw(st.sampled_from([1, 2, 3, 1.5, 0.5])), "order": draw(st.sampled_from(EULER_ORDERS)),
            "fd": draw(st.sampled_from(["forward", "backward", "central", "forward_central_backward"])),
            "tshape": draw(st.sampled_from(["translation", "affine", "homogeneous", "flow"])), "dtype": "float64"}


def build_core_probe(case) -> Probe:
    from deepali.core import functional as U

    entry, D, shape, key, N, C = case["entry"], case["D"], tuple(case["shape"]), case["key"], case["N"], case["C"]
    ac, opt, flag = case["ac"], case["opt"], case["flag"]
    fn, _, wrt = entry.partition(".")
    size = shape[::-1]
    labels = [f"D={D}", f"point={case.get('point', 'generic')}"]
    f = getattr(U, fn)
    sp = _is_special(case) and entry in CORE_SPECIAL
    g_ = 0.0 if sp else 1.0  # factor of the generic offsets from the identity element

    def image(k=0, lo=0.0, hi=1.0, n=None, c=None):
        return noise((N if n is None else n, C if c is None else c) + shape, key + 171 + k, lo, hi)

    def matrix(k=0, cols=None, amp=0.3):
        cols = D + 1 if cols is None else cols
        return torch.eye(D, cols, dtype=torch.float64).unsqueeze(0).repeat(N, 1, 1) + noise((N, D, cols), key + 181 + k, -amp, amp) * g_

    def away(t, eps=0.05):  # values with |t| >= eps
        return t + eps * torch.where(t < 0, -1.0, 1.0).to(t.dtype)

    # ---- math / tensor helpers
    if fn == "abspow":
        x = _leaf(away(image(0, -1.0, 1.0)))
        e = case["exponent"]
        return Probe([x], lambda: f(x, e), 1.0, labels=labels + [f"exponent={e}"])
    if fn == "atanh":
        x = _leaf(image(0, -0.8, 0.8))
        return Probe([x], lambda: f(x), 1.0, labels=labels)
    if fn == "batched_index_select":
        x = _leaf(image())
        dim = 1 + opt % (D + 1)
        n = x.shape[dim]
        idx = torch.tensor(np.floor(hash_noise((N, 3), key + 172, 0.0, 1.0) * n).clip(0, n - 1), dtype=torch.int64)
        return Probe([x], lambda: f(x, dim, idx), 1.0, labels=labels + [f"dim={dim}"])
    if fn == "max_difference":
        # piecewise linear in the extreme elements: unique extrema (gap >= 0.1), distinct ranges (no tie of the two candidates)
        a, b = image(0, 0.2, 0.8), image(1, 0.2, 0.8) + 0.35
        for t, k in ((a, 3), (b, 5)):
            flat = t.reshape(-1)
            i, j = (key + k) % flat.numel(), (key + 3 * k + 1) % flat.numel()
            j = j if j != i else (j + 1) % flat.numel()
            flat[i] -= 0.15 + float(flat[i] - flat.min())
            flat[j] += 0.15 + float(flat.max() - flat[j])
        same = flag and wrt == "source"
        al = _leaf(a) if wrt == "source" else a
        bl = _leaf(b) if wrt == "target" else b
        return Probe([al if wrt == "source" else bl], lambda: f(al, al if same else bl), 1.0, labels=labels + [f"same={same}"])
    if fn == "move_dim":
        x = _leaf(image())
        dim, pos = opt % x.ndim, case["opt2"] % x.ndim
        return Probe([x], lambda: f(x, dim, pos) * 1.0, 1.0, labels=labels)
    if fn in ("as_tensor", "as_float_tensor", "atleast_1d"):
        x = _leaf(image())
        if fn == "as_tensor" and flag:
            return Probe([x], lambda: f(x, dtype=torch.float32) * 1.0, 1.0, labels=labels + ["to=float32"], rule="f32")
        return Probe([x], lambda: f(x) * 1.0, 1.0, labels=labels)
    # ---- homogeneous transforms
    if fn == "affine_rotation_matrix":
        m = torch.eye(3, 4 if flag else 3, dtype=torch.float64).unsqueeze(0).repeat(N, 1, 1)
        m = _leaf(m + noise(tuple(m.shape), key + 182, -0.25, 0.25) * g_)
        return Probe([m], lambda: f(m), 0.3, labels=labels + [f"cols={m.shape[-1]}"])
    if fn in ("affine_transform_points", "affine_transform_vectors", "apply_affine_transform"):
        cols = [1, D, D + 1][opt % 3]
        if fn == "affine_transform_vectors" and cols == 1:
            cols = D  # a pure translation does not act on vectors
        m = matrix(0, cols) if cols > 1 else noise((N, D, 1), key + 183, -0.5, 0.5) * g_
        p = noise((N, 4, D), key + 184, -1.0, 1.0)
        labels.append(f"cols={cols}")
        if fn == "apply_affine_transform":
            m, p = _leaf(m), _leaf(p)
            vec = flag and cols > 1
            return Probe([m, p], lambda: f(m, p, vectors=vec), 0.5, labels=labels + [f"vectors={vec}"])
        if wrt == "transforms":
            m = _leaf(m)
            return Probe([m], lambda: f(m, p), 0.3, labels=labels)
        p = _leaf(p)
        return Probe([p], lambda: f(m, p), 1.0, labels=labels)
    if fn in ("as_homogeneous_matrix", "as_homogeneous_tensor"):
        cols = [1, D, D + 1][opt % 3]
        m = _leaf(matrix(0, cols) if cols > 1 else noise((N, D, 1), key + 183, -0.5, 0.5) * g_)
        if fn == "as_homogeneous_tensor":
            return Probe([m], lambda: f(m)[0] * 1.0, 0.3, labels=labels + [f"cols={cols}"])
        return Probe([m], lambda: f(m) * 1.0, 0.3, labels=labels + [f"cols={cols}"])
    if fn == "hmm":
        ca, cb = [1, D, D + 1][opt % 3], [1, D, D + 1][case["opt2"] % 3]
        a = _leaf(matrix(0, ca) if ca > 1 else noise((N, D, 1), key + 183, -0.5, 0.5) * g_)
        b = _leaf(matrix(1, cb) if cb > 1 else noise((N, D, 1), key + 185, -0.5, 0.5) * g_)
        return Probe([a, b], lambda: f(a, b), 0.3, labels=labels + [f"cols={ca},{cb}"])
    if fn == "homogeneous_matrix":
        cols = [1, D, D + 1][opt % 3]
        m = _leaf(matrix(0, cols) if cols > 1 else noise((N, D, 1), key + 183, -0.5, 0.5) * g_)
        if flag:
            off = _leaf(noise((N, D), key + 186, -0.5, 0.5) * g_)
            return Probe([m, off], lambda: f(m, offset=off), 0.3, labels=labels + [f"cols={cols}", "offset"])
        return Probe([m], lambda: f(m), 0.3, labels=labels + [f"cols={cols}"])
    if fn == "rotation_matrix":  # alias of euler_rotation_matrix
        a = _leaf(noise((N, 1 if D == 2 else 3), key + 187, -3.0, 3.0) * g_)
        kw = {} if D == 2 else dict(order=case["order"])
        return Probe([a], lambda: f(a, **kw), 1.0, labels=labels + [f"order={case['order']}"])
    if fn == "tensordot":
        a, b = _leaf(noise((2, 3, 4), key + 188)), _leaf(noise((3, 4, 2) if flag else (4, 3), key + 189))
        dims = 2 if flag else 1
        return Probe([a, b], lambda: f(a, b, dims=dims), 1.0, labels=labels + [f"dims={dims}"])
    if fn == "vectordot":
        a, b = _leaf(noise((N, 5, D), key + 188)), _leaf(noise((N, 5, D), key + 189))
        dim = [-1, 1][opt % 2]
        if wrt == "w":  # weights of the inner product
            w = _leaf(noise((N, 5, D), key + 190, 0.2, 1.0))
            a, b = a.detach(), b.detach()
            return Probe([w], lambda: f(a, b, w=w, dim=dim), 1.0, labels=labels + [f"dim={dim}"])
        return Probe([a, b], lambda: f(a, b, dim=dim), 1.0, labels=labels + [f"dim={dim}"])
    if fn == "vector_rotation":
        # generic non-parallel 3D vectors at an acute angle (asin of the norm of the cross product: kink at 90 degrees)
        a = noise((N, 3), key + 188)
        a = a + 0.3 * torch.where(a < 0, -1.0, 1.0).double()
        b = a + noise((N, 3), key + 189, -0.4, 0.4).double() * a.norm(dim=-1, keepdim=True) * 0.5 + 0.05
        a, b = _leaf(a), _leaf(b)
        return Probe([a, b], lambda: f(a, b), 0.5, labels=labels)
    # ---- images
    x = image()
    if fn in ("avg_pool", "max_pool", "min_pool"):
        k = case["ksize"]
        kw = dict(stride=[None, 1, 2][opt % 3], padding=(1 if (flag and k > 2) else 0))
        if fn == "avg_pool":
            kw.update(count_include_pad=case["opt2"] % 2 == 0, ceil_mode=case["opt2"] > 1)
        x = _leaf(x)
        return Probe([x], lambda: f(x, k, **kw), 1.0, labels=labels + [f"k={k}", f"stride={kw['stride']}"])
    if fn in ("conv", "conv1d"):
        k1 = noise((3,), key + 190, 0.1, 1.0)
        pad = [None, "constant", "reflect", "replicate", 1, 0][opt]
        if pad == "reflect" and D == 3 and fn == "conv":
            pad = "replicate"  # PaddingMode.pad_mode: reflection padding is documented for 1 and 2 spatial dimensions only
        if fn == "conv1d":
            pad = [None, "zeros", "reflect", "replicate", 1, 0][opt]
            dim = 2 + case["opt2"] % D
            kw = dict(dim=dim, padding=pad)
            if flag and pad in (None, 0, 1):
                kw.update(stride=2, transpose=case["opt2"] > 1)
            xl, kl = (_leaf(x), k1) if wrt == "data" else (x, _leaf(k1))
            return Probe([xl if wrt == "data" else kl], lambda: f(xl, kl, **kw), 1.0, labels=labels + [f"pad={pad}", f"dim={dim}"])
        kind = ["1d", "seq", "dense"][case["opt2"] % 3]
        if kind == "1d":
            kern = k1
        elif kind == "seq":
            kern = [k1] + [None if (flag and i == 1) else noise((3,), key + 191 + i, 0.1, 1.0) for i in range(1, D)]
        else:
            kern = noise((3,) * D, key + 192, 0.1, 1.0)
        labels += [f"kernel={kind}", f"pad={pad}"]
        if wrt == "data":
            xl = _leaf(x)
            return Probe([xl], lambda: f(xl, kern, padding=pad), 1.0, labels=labels)
        if kind == "seq":
            kern = [None if k is None else _leaf(k) for k in kern]
            return Probe([k for k in kern if k is not None], lambda: f(x, kern, padding=pad), 1.0, labels=labels)
        kern = _leaf(kern)
        return Probe([kern], lambda: f(x, kern, padding=pad), 1.0, labels=labels)
    if fn in ("crop", "pad"):
        x = _leaf(x)
        mode = case["mode"] if (D == 2 or case["mode"] != "reflect") else "replicate"
        m = [abs(v) if (mode != "constant" and fn == "pad") else v for v in case["margin"]]
        if fn == "crop":
            m = [min(v, 1) for v in m]
        if sp:  # no-op form: zero margins (the input is returned)
            m = [0 for _ in m]
        kw = dict(mode=mode)
        if mode == "constant":
            kw["value"] = 0.5
        if flag:  # (left, right) numbers per dimension
            kw["num"] = [v for a in m for v in (a, max(a - 1, 0) if a > 0 else a)]
        else:
            kw["margin"] = m
        return Probe([x], lambda: f(x, **kw), 1.0, labels=labels + [f"mode={mode}", "num" if flag else "margin"])
    if fn in ("center_crop", "center_pad"):
        x = _leaf(x)
        new = [max(1, n - 1 - i) for i, n in enumerate(size)] if fn == "center_crop" else [n + 1 + i for i, n in enumerate(size)]
        if sp:  # no-op form: the size of the input
            new = list(size)
        if fn == "center_crop":
            return Probe([x], lambda: f(x, new), 1.0, labels=labels)
        mode = case["mode"] if (D == 2 or case["mode"] != "reflect") else "replicate"
        return Probe([x], lambda: f(x, new, mode=mode), 1.0, labels=labels + [f"mode={mode}"])
    if fn == "fill_border":
        x = _leaf(x)
        return Probe([x], lambda: f(x * 1.0, 1, value=0.3, inplace=flag), 1.0, labels=labels + [f"inplace={flag}"])
    if fn == "flatten_channels":
        x = _leaf(x)
        return Probe([x], lambda: f(x) * 1.0, 1.0, labels=labels + [f"N={N}", f"C={C}"])
    if fn == "image_slice":
        x = _leaf(x)
        off = None if flag else opt % shape[0]
        return Probe([x], lambda: f(x, off) * 1.0, 1.0, labels=labels)
    if fn in ("dot_batch", "dot_channels"):
        a, b = x, image(1)
        w = _posmask((N, 1 if flag else C) + shape, key + 193)
        if wrt == "weight":
            w = _leaf(w)
            return Probe([w], lambda: f(a, b, weight=w), 1.0, labels=labels)
        a, b = _leaf(a), _leaf(b)
        kw = dict(weight=w) if opt % 2 else {}
        return Probe([a, b], lambda: f(a, b, **kw), 1.0, labels=labels + [f"weight={bool(opt % 2)}"])
    if fn in ("downsample", "upsample", "gaussian_pyramid"):
        x = _leaf(x)
        kw = dict(align_corners=ac)
        if case["sigma"] is not None:
            kw["sigma"] = case["sigma"]
        if flag:
            kw["dims"] = [opt % D]
        if case["opt2"] == 3 and D == 2 and not flag:
            kw["mode"] = "bicubic"
        if fn == "gaussian_pyramid":
            kw["min_size"] = 2  # a grid axis reduced to one sample with align_corners=True is a Grid.downsample matter
            return Probe([x], lambda: f(x, 2 + opt % 2, **kw), 1.0, labels=labels + [f"sigma={case['sigma']}", f"ac={ac}"])
        levels = 0 if sp else 1  # special: the no-op form (zero levels)
        return Probe([x], lambda: f(x, levels, **kw), 1.0, labels=labels + [f"sigma={case['sigma']}", f"ac={ac}"])
    if fn == "finite_differences":
        x = _leaf(x)
        kw = dict(mode=case["fd"], dilation=1 + case["opt2"] % 2, spacing=[1, 0.5][opt % 2])
        return Probe([x], lambda: f(x, opt % D, **kw), 1.0, labels=labels + [f"mode={case['fd']}"])
    if fn == "grid_resample":
        x = _leaf(x)
        ins = [1.0 + 0.5 * i for i in range(D)] if flag else 1.0
        outs = [0.7 + 0.4 * i for i in range(D)] if flag else [0.7, 1.3][opt % 2]
        if sp:  # no-op form: the output spacing is the input spacing
            outs = ins
        # the sampling positions are the float32 coordinates of a Grid object and grid_sample() interpolates in their dtype: the
        # float64 result is float32 accurate (linear in the data: float32 rule)
        return Probe([x], lambda: f(x, ins, outs), 1.0, labels=labels, rule="f32")
    if fn == "grid_resize":
        x = _leaf(x)
        new = list(size) if sp else [n + 1 - 2 * (i % 2) for i, n in enumerate(size)]  # special: no-op form (same size)
        mode = ["linear", "linear", "bicubic" if D == 2 else "linear", "area"][case["opt2"]]
        kw = dict(mode=mode) if mode == "area" else dict(mode=mode, align_corners=ac)
        return Probe([x], lambda: f(x, new, **kw), 1.0, labels=labels + [f"ac={ac}", f"mode={mode}"])
    if fn == "normalize_image":
        # explicit bounds (the default takes them from the data through float(): another function than a finite difference
        # perturbs); data strictly inside the clamping interval
        x = _leaf(x)
        mode = ["unit", "center", "zscore"][opt % 3]
        kw = dict(min=-0.5, max=1.5) if mode != "zscore" else (dict(min=-10.0) if flag else dict(max=10.0))
        return Probe([x], lambda: f(x, mode, **kw), 1.0, labels=labels + [f"mode={mode}"])
    if fn == "rescale":
        x = _leaf(x)
        return Probe([x], lambda: f(x, -1.0, 3.0, data_min=-0.5, data_max=1.5), 1.0, labels=labels)
    if fn == "rand_sample":  # deterministic given a freshly seeded generator per call
        x = _leaf(x)
        kw = dict(replacement=flag)
        if opt % 2:
            kw["mask"] = _posmask((N, 1) + shape, key + 194) > 0.4
        return Probe([x], lambda: f(x, 5, generator=torch.Generator().manual_seed(key), **kw), 1.0, labels=labels)
    if fn == "grid_sample_mask":  # linear interpolation of the binarised mask: differentiable in the coordinates only
        m = image(0, 0.0, 1.0, c=1)
        m = (m > 0.4) if flag else m
        idx = safe_index_coords((N,) + (1,) * (D - 1) + (5,), size, key + 195)
        g = _leaf(torch.tensor(index_to_cube(idx, size, ac), dtype=torch.float64))
        one = 2.0 / (min(size) - (1 if ac else 0))
        return Probe([g], lambda: f(m, g, threshold=0.4, align_corners=ac), one, labels=labels + [f"ac={ac}"], rule="f32")
    if fn == "jacobian_dict":
        u = _leaf(noise((N, D) + shape, key + 196, -0.3, 0.3) * g_)
        mode = [None, "central", "forward", "bspline"][case["opt2"]]
        kw = dict(add_identity=flag) if mode is None else dict(mode=mode, add_identity=flag)
        return Probe([u], lambda: f(u, **kw), 0.3, labels=labels + [f"mode={mode}"])
    if fn in ("normalize_grid", "denormalize_grid"):
        thin = case["opt2"] == 3  # a grid axis with ONE sample (documented by where(size > 1, ..., 0): the coordinate maps to zero)
        tag = "[size_one_axis]" if thin else ""
        if thin:
            shape = tuple(1 if i == key % D else n for i, n in enumerate(shape))
            size = shape[::-1]
            labels.append("thin")
        if flag:  # points with explicit size
            g = _leaf(noise((N, 5, D), key + 197, -1.0, 1.0) * (1.0 if fn == "denormalize_grid" else 4.0))
            kw = dict(size=size, align_corners=ac, side_length=[2, 1][opt % 2])
            return Probe([g], lambda: f(g, **kw), 1.0, labels=labels + ["points"], tag=tag)
        cl = opt % 2 == 0
        g = noise((N,) + shape + (D,), key + 197, -1.0, 1.0)
        if not cl:
            g = g.movedim(-1, 1).contiguous()
        g = _leaf(g)
        kw = dict(align_corners=ac, channels_last=cl)
        if not cl:  # denormalize_grid infers the size from a channels-last shape only
            kw["size"] = size
        return Probe([g], lambda: f(g, **kw), 1.0, labels=labels + [f"channels_last={cl}"], tag=tag)
    if fn in ("polyline_directions", "polyline_tangents"):
        p = _leaf(torch.tensor(lattice_points(N, 5, 3, key + 198), dtype=torch.float64))  # distinct points: non-zero segments
        kw = {"normalize": flag, ("repeat_last" if fn == "polyline_directions" else "repeat_first"): opt % 2 == 0}
        return Probe([p], lambda: f(p, **kw), 1.0, labels=labels + [f"normalize={flag}"])
    if fn in ("transform_grid", "transform_points"):
        ts = case["tshape"]
        if ts == "flow":
            t = noise((N, D) + shape, key + 199, -0.3, 0.3) * g_
        else:
            cols = {"translation": 1, "affine": D, "homogeneous": D + 1}[ts]
            t = matrix(0, cols) if cols > 1 else noise((N, D, 1), key + 183, -0.5, 0.5) * g_
        if fn == "transform_grid":  # undeformed grid points of another size: the flow is resized, not sampled
            from deepali.core import Grid

            oshape = tuple(max(2, n - 1 - (i % 2)) for i, n in enumerate(shape))
            p = Grid(shape=oshape, align_corners=ac).coords(align_corners=ac, dtype=torch.float64).unsqueeze(0)
            one = 1.0
        else:
            p = torch.tensor(index_to_cube(safe_index_coords((N, 5), size, key + 200), size, ac), dtype=torch.float64)
            one = 2.0 / (min(size) - (1 if ac else 0)) if ts == "flow" else 1.0
        labels += [f"transform={ts}", f"ac={ac}"]
        if wrt == "transform":
            t = _leaf(t)
            return Probe([t], lambda: f(t, p, align_corners=ac), 0.3, labels=labels)
        p = _leaf(p)
        return Probe([p], lambda: f(t, p, align_corners=ac), one, labels=labels)
    if fn == "bounding_box":
        p = _leaf(torch.tensor(lattice_points(1, 6, D, key + 201, jitter=0.3)[0], dtype=torch.float64))
        return Probe([p], lambda: f(p), 1.0, labels=labels)
    raise KeyError(entry)


def run_core(case):
    return check_probe(case["entry"], build_core_probe(case), case["key"])


# =======================================================================================
# facet 11: the remaining layers of deepali.modules (module wrappers of the functional forms)

# special point: identity transformation tensor (w.r.t. the image; w.r.t. the transform only with a source grid of another size:
# positions off the knots), exactly all-zero velocity field
MODULE_SPECIAL = ("AlignImage.transform", "AlignImage.data", "TransformImage.transform", "TransformImage.data", "ExpFlow.inverse")
MODULE_ENTRIES = ["AlignImage.transform", "AlignImage.data", "TransformImage.transform", "TransformImage.data", "BlurImage", "FilterImage",
                  "GaussianConv", "Curl", "Pad", "Narrow", "Reshape", "View", "LambdaLayer", "GetItem", "ExpFlow.inverse"]


@st.composite
def module_cases(draw, entry=None, point=None):
    entry = entry or draw(st.sampled_from(MODULE_ENTRIES))
    D = 3 if entry == "Curl" and draw(st.booleans()) else draw(gen.dims())
    case = {"entry": entry, "D": D, "N": draw(st.integers(1, 2)), "C": draw(st.integers(1, 2)), "key": draw(st.integers(0, 10 ** 6)),
            "shape": draw(small_shapes(D, 4, 7, 5)), "padding": draw(st.sampled_from(["border", "zeros", "reflect", 0.5, -1.0, 2])),
            "tshape": draw(st.sampled_from(["translation", "affine", "homogeneous", "flow"])), "centers": draw(st.booleans()),
            "opt": draw(st.integers(0, 5)), "flag": draw(st.booleans()), "sigma": draw(st.sampled_from([0.7, 1.0, 1.5])),
            "mode": draw(st.sampled_from(FD_MODES)), "steps": draw(st.integers(0, 4)), "ac": draw(st.booleans()),
            "source": draw(st.sampled_from(["same", "same", "other"])), "point": _draw_point(draw, entry in MODULE_SPECIAL, point)}
    if _is_special(case) and entry.endswith(".transform"):
        case["source"] = "other"
    if entry.split(".")[0] in ("AlignImage", "TransformImage"):
        case["grid"] = draw(small_grids(D))
        if case["source"] == "other":
            case["grid2"] = draw(small_grids(D))
    return case


def build_module_probe(case) -> Probe:
    import deepali.modules as M
    from deepali.core import functional as U

    entry, D, N, C, key, shape = case["entry"], case["D"], case["N"], case["C"], case["key"], tuple(case["shape"])
    name, _, wrt = entry.partition(".")
    opt, flag = case["opt"], case["flag"]
    labels = [f"D={D}", f"point={case.get('point', 'generic')}"]
    g_ = 0.0 if (_is_special(case) and entry in MODULE_SPECIAL) else 1.0  # factor of the generic offsets from identity / zero
    if name in ("AlignImage", "TransformImage"):
        g = case["grid"]
        target = make_grid(g)
        if case["source"] == "other":  # source image on a grid of another size covering about the same region
            g2 = dict(g, size=list(case["grid2"]["size"]))
            g2["spacing"] = [s * n / n2 for s, n, n2 in zip(g["spacing"], g["size"], g2["size"])]
            source = make_grid(g2)
        else:
            source = target
        ts = case["tshape"]
        if name == "AlignImage" and ts == "flow":
            ts = "homogeneous"
        if name == "TransformImage" and D == 2:
            ts = "flow"  # a 3-dimensional tensor is taken for an unbatched 2D flow field (D, Y, X) by TransformImage.forward
        mod = getattr(M, name)(target, source, padding=case["padding"], align_centers=case["centers"]).double()
        img = noise((N, C) + tuple(source.shape), key + 211, 0.0, 1.0)
        if ts == "flow":
            t = noise((N, D) + tuple(target.shape), key + 212, -0.2, 0.2) * g_
        else:
            cols = {"translation": 1, "affine": D, "homogeneous": D + 1}[ts]
            t = (torch.eye(D, cols, dtype=torch.float64).unsqueeze(0).repeat(N, 1, 1) + noise((N, D, cols), key + 213, -0.15, 0.15) * g_
                 if cols > 1 else noise((N, D, 1), key + 213, -0.2, 0.2) * g_)
        labels += [f"transform={ts}", f"pad={case['padding']}", f"source={case['source']}", f"centers={case['centers']}"]
        if wrt == "transform":  # moves interpolation positions: generic positions, protected by the reliability test
            t = _leaf(t)
            return Probe([t], lambda: mod(t, img), 0.2, stateful=True, labels=labels)
        x = _leaf(img)
        return Probe([x], lambda: mod(t, x), 1.0, stateful=True, labels=labels)
    x = noise((N, C) + shape, key + 214, 0.0, 1.0)
    if name in ("BlurImage", "FilterImage"):
        pad = [None, "constant", "reflect", "replicate"][opt % 4]
        if pad == "reflect" and D == 3:
            pad = "replicate"  # reflection padding is documented for 1 and 2 spatial dimensions only
        if name == "BlurImage":
            sigma = min(case["sigma"], 1.0) if pad == "reflect" else case["sigma"]  # reflection needs radius < axis size (>= 4)
            mod = M.BlurImage(sigma, padding=pad)
        else:
            kern = noise((3,) * (1 if flag else D), key + 215, 0.1, 1.0)
            mod = M.FilterImage(kern, padding=pad)
        mod = mod.double()
        xl = _leaf(x)
        return Probe([xl], lambda: mod(xl), 1.0, stateful=True, labels=labels + [f"pad={pad}"])
    if name == "GaussianConv":
        mod = M.GaussianConv(C, 3, case["sigma"], dim=D).double()
        xl = _leaf(x)
        return Probe([xl], lambda: mod(xl), 1.0, stateful=True, labels=labels)
    if name == "Curl":
        kw, mode = _deriv_kwargs(dict(case, spacing=[None, "scalar", "vector"][opt % 3], stride=1 + opt % 2,
                                      sigma=None if flag else case["sigma"]), D)
        mod = M.Curl(**kw)
        u = _leaf(noise((N, D) + shape, key + 216, -0.3, 0.3))
        return Probe([u], lambda: mod(u), 0.3, stateful=True, labels=labels + [f"mode={mode}"])
    if name == "ExpFlow":  # the inverse() / inv copies of the layer and the forward(inverse=True) argument
        base = M.ExpFlow(scale=[None, 0.5, 2.0][opt % 3], steps=case["steps"], align_corners=case["ac"])
        mod = base.inv if flag else base.inverse()
        u = _leaf(noise((N, D) + shape, key + 217, -0.3, 0.3) * g_)
        inv_arg = opt > 2
        return Probe([u], lambda: mod(u, inverse=inv_arg), 0.3, stateful=True, labels=labels + [f"steps={case['steps']}"])
    xl = _leaf(x)
    if name == "Pad":
        mode = ["constant", "reflect", "replicate"][opt % 3]
        if D == 3 and mode == "reflect":
            mode = "replicate"
        kw = dict(margin=1 + opt % 2) if flag else dict(padding=[1, 0] * D)
        if mode == "constant":
            kw["value"] = 0.5
        mod = M.Pad(mode=mode, **kw)
        return Probe([xl], lambda: mod(xl), 1.0, stateful=True, labels=labels + [f"mode={mode}"])
    if name == "Narrow":
        dim = 2 + opt % D
        mod = M.Narrow(dim, 1, shape[dim - 2] - 2)
        return Probe([xl], lambda: mod(xl) * 1.0, 1.0, stateful=True, labels=labels)
    if name in ("Reshape", "View"):
        new = ((C,) + shape[:-2] + (-1,)) if flag else (N * C, -1)  # without / with the batch dimension
        mod = getattr(M, name)(new)
        return Probe([xl], lambda: mod(xl) * 1.0, 1.0, stateful=True, labels=labels)
    if name == "LambdaLayer":
        mod = M.LambdaLayer(lambda t: U.avg_pool(t, 2).tanh())
        return Probe([xl], lambda: mod(xl), 1.0, stateful=True, labels=labels)
    if name == "GetItem":
        mod = M.GetItem("b" if flag else 1)
        return Probe([xl], lambda: mod({"a": xl.detach(), "b": xl.sin()} if flag else [xl.detach(), xl.sin()]), 1.0, stateful=True,
                     labels=labels)
    raise KeyError(entry)


def run_module(case):
    return check_probe(case["entry"], build_module_probe(case), case["key"])


# =======================================================================================
# facet 12: where the parameters come from (callable / plain tensor / linked inverse) and composite containers

MEMBERS = {
    "Translation": [("params", "translation")], "EulerRotation": [("params", "euler")], "QuaternionRotation": [("params", "quaternion")],
    "IsotropicScaling": [("params", "iso")], "AnisotropicScaling": [("params", "aniso")], "Shearing": [("params", "shear")],
    "HomogeneousTransform": [("params", "hom")],
    "RigidTransform": [("rotation", "euler"), ("translation", "translation")],
    "RigidQuaternionTransform": [("rotation", "quaternion"), ("translation", "translation")],
    "SimilarityTransform": [("scaling", "iso"), ("rotation", "euler"), ("translation", "translation")],
    "AffineTransform": [("scaling", "aniso"), ("rotation", "euler"), ("translation", "translation")],
    "FullAffineTransform": [("scaling", "aniso"), ("shearing", "shear"), ("rotation", "euler"), ("translation", "translation")],
    "DisplacementFieldTransform": [("params", "field")], "StationaryVelocityFieldTransform": [("params", "field")],
    "FreeFormDeformation": [("params", "field")], "StationaryVelocityFreeFormDeformation": [("params", "field")],
}
COMBOS = {
    "affine+svf": ["AffineTransform", "StationaryVelocityFieldTransform"],
    "ffd+ddf": ["FreeFormDeformation", "DisplacementFieldTransform"],
    "translation+ffd+rotation": ["Translation", "FreeFormDeformation", "EulerRotation"],
    "svffd+shearing": ["StationaryVelocityFreeFormDeformation", "Shearing"],
    "scaling+shearing+rotation+translation": ["AnisotropicScaling", "Shearing", "EulerRotation", "Translation"],
    "rigid+similarity": ["RigidTransform", "SimilarityTransform"],
    "rigid+ddf": ["RigidTransform", "DisplacementFieldTransform"],
}
CONTAINER_METHODS = ["call", "call_grid", "disp", "inverse_call", "points.params", "points.points", "tensor", "image"]
GENERIC_MODELS = ["Affine", "Affine o SVF", "SVF o Affine", "Affine o FFD", "DDF", "SVFFD o Affine", "DDF o Affine", "FFD"]
GENERIC_AFFINE = ["TRS", "A", "TKRS", "TQS", "T o R", "SKT", "R", "TRKS"]
SOURCED_ENTRIES = ([f"{c}.{s}" for c in LINEAR + NONRIGID for s in ("callable", "tensor")]
                   + [f"{c}.{s}" for c in LINEAR + NONRIGID if c not in NO_INVERSE for s in ("linked", "linked_callable")]
                   + [f"{k}[{c}]" for k in ("SequentialTransform", "MultiLevelTransform") for c in COMBOS]
                   + [f"GenericSpatialTransform.{s}" for s in ("parameters", "dict", "callable", "linked")])


@st.composite
def sourced_cases(draw, entry=None, point=None):
    entry = entry or draw(st.sampled_from(SOURCED_ENTRIES))
    cls = entry.split(".")[0].split("[")[0]
    combo = COMBOS.get(entry[entry.index("[") + 1:-1]) if "[" in entry else None
    names = combo or [cls]
    only3 = any(n in ONLY3D for n in names)
    D = 3 if only3 else draw(gen.dims())
    need_ac = any(n in BSPLINE for n in names) or cls == "GenericSpatialTransform"
    case = {
        "entry": entry, "D": D, "grid": draw(small_grids(D, ac=True if need_ac else None)), "N": draw(st.integers(1, 2)),
        "key": draw(st.integers(0, 10 ** 6)), "M": draw(st.integers(1, 5)), "dtype": "float64", "amp": draw(gen.qfloat(0.05, 0.3, 0.01)),
        "stride": draw(st.sampled_from([1, 1, 2])), "steps": draw(st.integers(1, 4)), "vscale": draw(st.sampled_from([None, 0.5, 1.0])),
        "ffd_stride": draw(st.sampled_from([2, 3])), "transpose": draw(st.booleans()),
        "order": draw(st.sampled_from([None, "XYZ", "ZYX", "ZXZ", "YXZ"])),
        "method": draw(st.sampled_from(["call", "disp", "inverse_call"])), "cmethod": draw(st.sampled_from(CONTAINER_METHODS)),
        "variant": draw(st.sampled_from(["ctor", "data_"])), "inv": draw(st.booleans()), "batch_points": draw(st.booleans()),
        "axes": draw(st.sampled_from(["world", "grid", "cube", "cube_corners"])),
        "to_axes": draw(st.sampled_from(["world", "grid", "cube", "cube_corners"])),
        "model": draw(st.sampled_from(GENERIC_MODELS)), "affine_model": draw(st.sampled_from(GENERIC_AFFINE)),
        "rotation_model": draw(st.sampled_from(["ZXZ", "XZX", "XYZ", "ZYX"])), "cps": draw(st.sampled_from([1, 2])),
        "flip": draw(st.booleans()), "padding": draw(st.sampled_from(["border", "zeros", 0.5])), "fresh": draw(st.booleans()),
        "point": _draw_point(draw, True, point),
    }
    return case


class _ParamNet(torch.nn.Module):
    """Stand-in for a network that predicts transformation parameters from a conditioning tensor c of shape (N, K):
    p = b + sum_k c[:, k] * W[k], with its own Parameters b (generic values of the parameter kind) and W."""

    def __init__(self, b: torch.Tensor, key: int, amp: float, cdim: int = 2):
        super().__init__()
        self.b = torch.nn.Parameter(b.detach().clone())
        self.W = torch.nn.Parameter(noise((cdim,) + tuple(b.shape[1:]), key, -amp, amp, b.dtype))

    def forward(self, c):
        return self.b + torch.tensordot(c, self.W, dims=1)


class _DictNet(torch.nn.Module):
    """Callable for GenericSpatialTransform: returns a Mapping name -> parameters predicted by one _ParamNet per member."""

    def __init__(self, nets):
        super().__init__()
        self.nets = torch.nn.ModuleDict(nets)

    def forward(self, c):
        return {k: n(c) for k, n in self.nets.items()}


def _nonrigid_kwargs(cls, case):
    if cls in ("DisplacementFieldTransform", "StationaryVelocityFieldTransform"):
        kw = {"stride": case["stride"]} if case["stride"] != 1 else {}
    else:
        kw = dict(stride=case["ffd_stride"], transpose=case["transpose"])
    if cls in SVF:
        kw.update(steps=case["steps"], scale=case["vscale"])
    return kw


def _raw_values(cls, kind, grid, case, key):
    """Generic values of one parameter tensor in the units the transformation uses for non-Parameter tensors (radians, factors)."""
    import deepali.spatial as S

    D, N = grid.ndim, case["N"]
    sp = _is_special(case)  # the initial point: identity matrix, zero field / offsets / angles, identity quaternion, unit factors
    if kind == "hom":
        return (torch.eye(D, D + 1, dtype=torch.float64).unsqueeze(0).repeat(N, 1, 1)
                + noise((N, D, D + 1), key + 7, -0.2, 0.2) * (0.0 if sp else 1.0))
    if kind == "field":
        shape = getattr(S, cls)(grid, params=None, **_nonrigid_kwargs(cls, case)).data_shape
        return noise((N,) + tuple(shape), key + 8, -case["amp"], case["amp"]) * (0.0 if sp else 1.0)
    values = _elementary(kind, N, D, key, torch.float64).detach().clone()
    if sp:
        values = torch.ones_like(values) if kind in ("iso", "aniso") else torch.zeros_like(values)
        if kind == "quaternion":
            values[:, 0] = 1.0
    return values


def build_sourced(cls, grid, case, source, key):
    """Transformation of class `cls` whose parameters come from `source`; returns (transform, leaves, prepare) where
    prepare() must be called before each evaluation (sets the parameter tensors for the 'tensor' / data_ variant)."""
    import deepali.spatial as S

    N = case["N"]
    T = getattr(S, cls)
    kw = _nonrigid_kwargs(cls, case) if cls in NONRIGID else {}
    if cls == "EulerRotation":
        kw["order"] = case["order"]
    spec = MEMBERS[cls]
    raws = [_raw_values(cls, kind, grid, case, key + 31 * i) for i, (_, kind) in enumerate(spec)]
    if source == "callable":
        nets = [_ParamNet(r, key + 57 + i, 0.1 * (case["amp"] if kind == "field" else 1.0)) for i, (r, (_, kind)) in enumerate(zip(raws, spec))]
        t = T(grid, **{arg: net for (arg, _), net in zip(spec, nets)}, **kw).double()
        c = _leaf(noise((N, 2), key + 59, -1.0, 1.0) * (0.0 if _is_special(case) else 1.0))
        t.condition_(c)
        leaves = [p for net in nets for p in net.parameters()] + [c]
        if _is_special(case):  # zero conditioning input: the prediction is exactly the initial point (the bias) and does not
            leaves = [net.b for net in nets] + [c]  # depend on the weights W (legitimately constant in them)
        return t, leaves, (lambda: None)
    if source == "tensor":
        zs = [_leaf(r) for r in raws]
        if case["variant"] == "ctor":  # a plain tensor (e.g. inferred by a network) given at construction
            t = T(grid, **{arg: z for (arg, _), z in zip(spec, zs)}, **kw).double()
            return t, zs, (lambda: None)
        t = T(grid, **{arg: None for arg, _ in spec}, **kw).double()
        members = list(t.transforms()) if isinstance(t, S.CompositeTransform) else [t]

        def prepare():  # the documented way to set parameters predicted elsewhere: data_() with a (non-leaf) tensor
            for m, z in zip(members, zs):
                m.data_(z * 1.0)

        return t, zs, prepare
    raise KeyError(source)


def _points_for(case, grid, g, dt=torch.float64):
    N, M, key = case["N"], case["M"], case["key"]
    NP = N if case["batch_points"] else 1
    idx = safe_index_coords((NP, M), list(g["size"]), key + 21)
    return torch.tensor(index_to_cube(idx, list(g["size"]), g["ac"]), dtype=dt)


def build_sourced_probe(case) -> Probe:
    import deepali.spatial as S
    from deepali.core import Axes

    entry, g, D, N, key = case["entry"], case["grid"], case["D"], case["N"], case["key"]
    grid = make_grid(g)
    x = _points_for(case, grid, g)
    labels = [f"D={D}", f"N={N}", f"point={case.get('point', 'generic')}"]
    head = entry.split(".")[0]
    # ---- containers with non-rigid / nested members
    if "[" in entry:
        container, combo = head[:head.index("[")], head[head.index("[") + 1:-1]
        members = [build_transform(c, grid, dict(case, key=key + 1000 * (i + 1), amp=case["amp"] * (0.5 if i else 1.0)))
                   for i, c in enumerate(COMBOS[combo])]
        t = getattr(S, container)(grid, *members).double()
        params = list(t.parameters())
        method = case["cmethod"]
        invertible = container == "SequentialTransform" and not any(c in NO_INVERSE for c in COMBOS[combo])
        if method == "inverse_call" and not invertible:
            method = "call"
        labels += [f"m={method}", f"combo={combo}"]
        scale = 0.3 if all(c in LINEAR for c in COMBOS[combo]) else case["amp"]
        return _method_probe(t, params, method, case, grid, g, x, scale, labels)
    # ---- configurable generic transformation
    if head == "GenericSpatialTransform":
        return _generic_probe(case, grid, g, x, labels)
    cls, source = entry.split(".")
    labels += [f"T={cls}", f"source={source}"]
    scale = 0.3 if cls in LINEAR else case["amp"]
    method = case["method"]
    if method == "inverse_call" and cls in NO_INVERSE:
        method = "disp"
    if source in ("callable", "tensor"):
        t, leaves, prepare = build_sourced(cls, grid, case, source, key)
        labels += [f"m={method}"] + ([f"variant={case['variant']}"] if source == "tensor" else [])
        if method == "call":
            return Probe(leaves, lambda: (prepare(), t(x))[1], scale, stateful=True, labels=labels)
        if method == "disp":
            return Probe(leaves, lambda: (prepare(), t.update().disp())[1], scale, stateful=True, labels=labels, abs_mag=_disp_mag(case),
                         rule=_rule_affine_flow(cls in LINEAR))
        return Probe(leaves, lambda: (prepare(), t.inverse()(x))[1], scale, stateful=True, labels=labels)
    # ---- linked inverse, created ONCE: its update() must fetch the current parameters of the transformation it is linked to
    if source == "linked":
        t = build_transform(cls, grid, case)
        leaves = list(t.parameters())
    else:
        t, leaves, _ = build_sourced(cls, grid, case, "callable", key)
    inv = t.inv if case["inv"] else t.inverse(link=True)
    fresh = bool(case.get("fresh"))
    if fresh:
        method = "disp"
    labels += [f"fresh_inverse={fresh}", f"m={'call' if method != 'disp' else 'disp'}", f"inv_property={case['inv']}"]

    def ev():
        t.update()  # e.g. evaluates the callable; the linked inverse reads the buffered prediction
        if fresh:  # inverse obtained after the update with its buffers derived from those of the transformation
            i2 = t.inverse(link=True, update_buffers=True)
            return (i2 if cls in SVF else i2.update()).disp()
        return inv.update().disp() if method == "disp" else inv(x)

    return Probe(leaves, ev, scale, stateful=True, labels=labels, abs_mag=_disp_mag(case),
                 rule=_rule_affine_flow(cls in LINEAR and (fresh or method == "disp")))


def _method_probe(t, params, method, case, grid, g, x, scale, labels, prepare=lambda: None):
    import deepali.spatial as S
    from deepali.core import Axes

    D, key = case["D"], case["key"]
    if method == "call":
        return Probe(params, lambda: (prepare(), t(x))[1], scale, stateful=True, labels=labels)
    if method == "call_grid":
        xg = grid.coords(dtype=torch.float64).unsqueeze(0)
        return Probe(params, lambda: (prepare(), t(xg, grid=True))[1], scale, stateful=True, labels=labels)
    # CompositeTransform.disp() (and tensor() of a composite with a non-rigid member) evaluates the members at grid.coords(),
    # which are float32: a displacement field sampled at float32 points is computed in float32 (the forward value is a
    # staircase at the 1e-7 level although the result is float64, and the float32 step would move sampling positions across
    # interpolation knots): directions whose difference quotient does not survive a 512 times smaller step are dropped
    sc = isinstance(t, S.CompositeTransform) and not t.linear
    if method == "disp":
        return Probe(params, lambda: (prepare(), t.update().disp())[1], scale, stateful=True, labels=labels, staircase=sc,
                     abs_mag=_disp_mag(case), rule=_rule_affine_flow(bool(t.linear)))
    if method == "tensor":
        return Probe(params, lambda: (prepare(), t.update().tensor())[1], scale, stateful=True, labels=labels, staircase=sc,
                     abs_mag=_disp_mag(case))
    if method == "inverse_call":
        return Probe(params, lambda: (prepare(), t.inverse()(x))[1], scale, stateful=True, labels=labels)
    if method == "image":
        it = S.ImageTransformer(t, padding=case["padding"]).double()
        img = noise((case["N"], 1) + tuple(grid.shape), key + 31, 0.0, 1.0)
        return Probe(params, lambda: (prepare(), it(img))[1], scale, stateful=True, labels=labels)
    m = ref.GridModel.from_desc(g)
    axes, to_axes = case["axes"], case["to_axes"]
    idx = safe_index_coords(tuple(x.shape[:-1]), list(g["size"]), key + 21)
    pts = torch.tensor(m.points(idx, "grid", axes), dtype=torch.float64)
    kw = dict(axes=Axes(axes), to_axes=Axes(to_axes))
    labels = labels + [f"{axes}->{to_axes}"]
    if method == "points.params":
        return Probe(params, lambda: (prepare(), t.update().points(pts, **kw))[1], scale, stateful=True, labels=labels)
    pl = _leaf(pts)
    xs = float(np.abs(m.matrix("grid", axes)[:, : D]).max()) if axes != "grid" else 1.0
    return Probe([pl], lambda: (prepare(), t.update().points(pl, **kw))[1], xs, stateful=True, labels=labels)


_GENERIC_KIND = {"affine": "hom", "shearing": "shear", "translation": "translation", "rotation": "euler", "scaling": "aniso",
                 "quaternion": "quaternion", "nonrigid": "field"}


def _generic_probe(case, grid, g, x, labels) -> Probe:
    import deepali.spatial as S

    D, N, key = case["D"], case["N"], case["key"]
    source = case["entry"].split(".")[1]
    model, am = case["model"], case["affine_model"]
    if source == "linked":  # the displacement field / free-form deformation models have no inverse
        model = model.replace("DDF", "SVF").replace("SVFFD", "#").replace("FFD", "SVFFD").replace("#", "SVFFD")
    if D == 2 and "Q" in am:
        am = am.replace("Q", "R")
    if source == "callable":  # GenericSpatialTransform._data() has no 'shearing' entry: a callable cannot provide these parameters
        am = am.replace("K", "")
    flip = bool(case["flip"] and source == "callable")
    rm = case["rotation_model"]
    if flip and rm not in ("ZXZ", "XZX"):
        rm = "ZXZ"  # euler_rotation_angles (used to flip the rotation) implements these orders only
    config = S.TransformConfig(transform=model, affine_model=am, rotation_model=rm,
                               control_point_spacing=case["cps"], scaling_and_squaring_steps=case["steps"],
                               flip_grid_coords=flip)
    labels += [f"model={model}", f"affine={am}", f"source={source}", f"flip={config.flip_grid_coords}"]
    proto = S.GenericSpatialTransform(grid, params=source in ("parameters", "linked"), config=config)
    names = [n for n, _ in proto.named_transforms()]
    raws = {}
    for i, (n, m) in enumerate(proto.named_transforms()):
        kind = _GENERIC_KIND[n]
        if kind == "field":
            raws[n] = noise((N,) + tuple(m.data_shape), key + 8, -case["amp"], case["amp"]) * (0.0 if _is_special(case) else 1.0)
        else:
            raws[n] = _raw_values(type(m).__name__, kind, grid, case, key + 31 * i)
    nonrigid = [c for c in model.split(" o ") if c != "Affine"]
    invertible = not any(c in ("DDF", "FFD") for c in nonrigid)
    method = case["method"]
    if method == "inverse_call" and not invertible:
        method = "disp"
    scale = case["amp"] if nonrigid else 0.3
    if source in ("parameters", "linked"):
        t = proto.double()
        with torch.no_grad():
            for n, m in t.named_transforms():
                if raws[n].shape[0] != m.params.shape[0]:
                    m.data_(torch.nn.Parameter(raws[n]))
                else:
                    m.params.copy_(raws[n])
        leaves = list(t.parameters())
        if source == "linked":
            inv = t.inv if case["inv"] else t.inverse(link=True)
            labels.append(f"m={'disp' if method == 'disp' else 'call'}")

            def ev():
                t.update()
                return inv.update().disp() if method == "disp" else inv(x)

            sc = method == "disp" and not t.linear  # CompositeTransform.disp(): members evaluated at float32 grid points
            return Probe(leaves, ev, scale, stateful=True, labels=labels, staircase=sc, abs_mag=_disp_mag(case),
                         rule=_rule_affine_flow(method == "disp" and bool(t.linear)))
    elif source == "dict":
        zs = {n: _leaf(r) for n, r in raws.items()}
        t = S.GenericSpatialTransform(grid, params=zs, config=config).double()
        leaves = [zs[n] for n in names]
    else:
        nets = {n: _ParamNet(raws[n], key + 57 + i, 0.1 * (case["amp"] if n == "nonrigid" else 1.0)) for i, n in enumerate(names)}
        net = _DictNet(nets).double()
        t = S.GenericSpatialTransform(grid, params=net, config=config).double()
        c = _leaf(noise((N, 2), key + 59, -1.0, 1.0) * (0.0 if _is_special(case) else 1.0))
        t.condition_(c)
        leaves = list(net.parameters()) + [c]
        if _is_special(case):  # zero conditioning input: the prediction is the bias, legitimately constant in the weights W
            leaves = [nt.b for nt in nets.values()] + [c]
    labels.append(f"m={method}")
    probe = _method_probe(t, leaves, method, case, grid, g, x, scale, labels)
    if flip and _is_special(case) and D == 3 and "rotation" in names:
        # flip_grid_coords converts the predicted Euler angles to a matrix, flips it and converts it back with
        # euler_rotation_angles (acos): at exactly zero predicted angles (a network whose last layer is zero-initialised) that
        # decomposition is at its gimbal lock (d acos(1) = -inf), although the transformation itself is a smooth function of the
        # predicted angles there: its own violation kind
        probe.tag = "[flip_grid_coords,zero_euler_angles]"
    return probe


def run_sourced(case):
    return check_probe(case["entry"], build_sourced_probe(case), case["key"])


# =======================================================================================
# facet 12b: transformation objects WITH A HISTORY - the differentiable read paths after a generated sequence of public calls

HISTORY_READS = ["call", "tensor", "disp", "flow", "points", "inv.tensor", "inverse_ub.disp"]
HISTORY_ENTRIES = [f"{c}.history.{r}" for c in NONRIGID + LINEAR for r in HISTORY_READS
                   if not (r in ("inv.tensor", "inverse_ub.disp") and c in NO_INVERSE)]
# the operation executed LAST before the read.  All of them define the cached state by contract: the constructor, the documented
# setters (data_, grid_, condition_, reset_parameters: each clears the buffers -> the next read recomputes them lazily),
# clear_buffers(), and update() / a call with autograd enabled.  In-place edits of the parameters (optimiser step,
# load_state_dict, copy_) do NOT (SpatialTransform.update docstring: update() must be called explicitly before reading): they
# only occur in the generated PREFIX, followed by one of the above.
HISTORY_FINAL = ["fresh", "data_", "data_", "data_.tensor", "grid_", "grid_", "reset_parameters", "condition_", "clear_buffers", "update", "call"]
HISTORY_PREFIX = ["call", "update", "read_tensor", "read_disp", "data_", "reset_parameters", "condition_", "clear_buffers",
                  "load_state_dict", "step", "train", "eval", "inv", "grid_"]


@st.composite
def history_cases(draw, entry=None, point=None):
    entry = entry or draw(st.sampled_from(HISTORY_ENTRIES))
    cls = entry.split(".", 1)[0]
    case = draw(transform_cases(entry=f"{cls}.call", point=point))
    final = draw(st.sampled_from(HISTORY_FINAL))
    if final == "grid_" and cls in LINEAR:  # re-gridding of a linear transformation only replaces the grid attribute
        final = "data_"
    prefix = draw(st.lists(st.tuples(st.sampled_from(HISTORY_PREFIX), st.booleans()), min_size=0, max_size=3))
    case.update(entry=entry, dtype="float64", final=final,
                # grad mode in which the LAST operation is executed: the user idiom `with torch.no_grad(): t.data_(init)` and the
                # library's own @torch.no_grad() setters; update() / call define a differentiable state only with autograd enabled
                final_no_grad=False if final in ("update", "call", "fresh") else draw(st.sampled_from([True, True, False])),
                prefix=[[op, bool(ng)] for op, ng in prefix], set_to_none=draw(st.booleans()),
                # Module.train() / eval() flag at the time of the last operation and of the reads (inference / evaluation of a
                # validation loss in eval mode): the pre-forward hook refreshes the buffers in either mode
                mode=draw(st.sampled_from(["train", "eval"])))
    return case


def _history_members(t):
    import deepali.spatial as S

    return list(t.transforms()) if isinstance(t, S.CompositeTransform) else [t]


def _history_values(cls, t, case, key):
    """New parameter values of every member (the Parameter parameterisation): generic, or the initial ones at the special point."""
    D, N = case["D"], case["N"]
    out = []
    for i, (m, (_, kind)) in enumerate(zip(_history_members(t), MEMBERS[cls])):
        cur = m.params.detach()
        if _is_special(case):
            out.append(cur.clone())
        elif kind == "field":
            out.append(noise(tuple(cur.shape), key + 8 + i, -case["amp"], case["amp"], cur.dtype))
        elif kind == "hom":
            out.append(torch.eye(D, D + 1, dtype=cur.dtype).unsqueeze(0).repeat(N, 1, 1) + noise((N, D, D + 1), key + 7, -0.2, 0.2, cur.dtype))
        else:
            out.append(_elementary(kind, N, D, key + 31 * i, cur.dtype).detach().clone())
    return out


def _history_other_grid(cls, t):
    """Another sampling grid the transformation can be moved to by its documented grid_(): a grid of another size of the same domain
    (dense fields: resampled), the once subdivided grid (cubic B-splines: 2 n - 1 samples, control point subdivision)."""
    g = t.grid()
    if cls in BSPLINE:
        return g.resize([2 * n - 1 for n in g.size()])
    return g.resize([n + 1 + (i % 2) for i, n in enumerate(g.size())])


def _history_apply(cls, t, op, case, key, x, as_parameter=True):
    if op == "call":
        t(x)
    elif op == "update":
        t.update()
    elif op == "read_tensor":
        t.update().tensor()
    elif op == "read_disp":
        t.update().disp()
    elif op in ("data_", "data_.tensor"):
        for m, v in zip(_history_members(t), _history_values(cls, t, case, key)):
            m.data_(torch.nn.Parameter(v) if op == "data_" else v)
    elif op == "reset_parameters":
        for m in _history_members(t):
            m.reset_parameters()
    elif op == "condition_":  # (stored, not used by parameters held as tensors; clears the buffers)
        t.condition_(noise((case["N"], 2), key + 59, -1.0, 1.0))
    elif op == "clear_buffers":
        t.clear_buffers()
    elif op == "load_state_dict":
        sd = {k: v.detach().clone() for k, v in t.state_dict().items()}
        if not _is_special(case):
            for i, k in enumerate(sorted(sd)):
                sd[k] = sd[k] + 0.02 * noise(tuple(sd[k].shape), key + 3 + i, -1.0, 1.0, sd[k].dtype)
        t.load_state_dict(sd)
    elif op == "step":
        params = [q for q in t.parameters() if q.requires_grad]
        opt = torch.optim.SGD(params, lr=1e-3)
        with torch.enable_grad():
            out = t(x)
            if not out.requires_grad:
                raise Violation(f"no_grad_path:{case['entry'].split('.', 1)[0]}.history.step",
                                "t(x) evaluated with autograd enabled does not require grad although the transformation has optimisable parameters")
            out.square().sum().backward()
        opt.step()
        opt.zero_grad(set_to_none=bool(case.get("set_to_none", True)))
    elif op == "train":
        t.train()
    elif op == "eval":
        t.eval()
    elif op == "inv":
        if cls not in NO_INVERSE:
            t.inv
    elif op == "grid_":
        if cls in NONRIGID:
            t.grid_(_history_other_grid(cls, t))
    elif op != "fresh":
        raise KeyError(op)


def _history_normalise(case) -> dict:
    """Histories are probed at GENERIC parameter values only, and a 'fresh' transformation has no history.

    (i) A final state 'fresh' means: the constructed object as it is - a generated prefix (e.g. an evaluation under no_grad)
    would leave cached buffers behind for which the documented contract requires update() before the next read.
    (ii) At zero / initial parameters (special point, final reset_parameters) the nodes whose parameters an optimiser step of
    the prefix did not move are sampled exactly at interpolation knots: the function has a kink there and autograd returns a
    one-sided derivative (observed on the unchanged tree: symmetric difference quotients agree with each other, not with
    autograd).  Special points of transformations are covered by the facets without history."""
    case = dict(case)
    case["point"] = "generic"
    if case["final"] == "fresh":
        case["prefix"] = []
    if case["final"] == "reset_parameters":
        case["final"] = "data_"
    case["prefix"] = [[op, ng] for op, ng in case["prefix"] if op != "reset_parameters"]
    return case


def build_history_probe(case) -> Probe:
    case = _history_normalise(case)
    cls, _, read = case["entry"].split(".", 2)
    g = case["grid"]
    grid = make_grid(g)
    key = case["key"]
    t = build_transform(cls, grid, case)
    x = _points_for(case, grid, g)
    regridded = 0
    for i, (op, ng) in enumerate(case["prefix"]):
        if op == "grid_":
            if regridded or case["final"] == "grid_" or cls not in NONRIGID:
                continue
            regridded += 1
        with (torch.no_grad() if ng else torch.enable_grad()):
            _history_apply(cls, t, op, case, key + 1009 * (i + 1), x)
    final, fng = case["final"], bool(case["final_no_grad"])
    if case.get("mode") in ("train", "eval"):  # (absent in replay files written before the flag was generated: left as the prefix set it)
        t.train(case["mode"] == "train")
    with (torch.no_grad() if fng else torch.enable_grad()):
        _history_apply(cls, t, final, case, key + 77, x)
    leaves = [q for q in t.parameters() if q.requires_grad]
    tag = f"[after_{final}{',no_grad' if fng else ''}]"
    if not leaves:
        raise Violation(f"parameters_not_optimisable:{case['entry']}{tag}",
                        "a transformation constructed with optimisable Parameters has none after a sequence of public setters")

    def do_read():
        if read == "call":
            return t(x)
        if read == "tensor":
            return t.tensor()
        if read == "disp":
            return t.disp()
        if read == "flow":
            return t.flow()
        if read == "points":
            return t.points(x)
        if read == "inv.tensor":
            return t.inv.tensor()
        return t.inverse(update_buffers=True).disp()

    state = {"first": True}

    def ev():
        if torch.is_grad_enabled() and state["first"]:
            state["first"] = False  # the state the history left behind: read WITHOUT an intervening update() / call
        elif read != "call":  # (a call refreshes the buffers itself: pre-forward hook, in training and in evaluation mode)
            t.update()  # the documented explicit refresh after the leaves were edited in place (finite differences, later iterations)
        return do_read()

    zero = _is_special(case) or final == "reset_parameters"
    labels = [f"D={case['D']}", f"N={case['N']}", f"T={cls}", f"read={read}", f"final={final}", f"final_no_grad={fng}",
              f"prefix={len(case['prefix'])}", f"point={'special' if zero else 'generic'}", f"mode={'train' if t.training else 'eval'}"]
    labels += [f"prefix_op={op}{'/no_grad' if ng else ''}" for op, ng in case["prefix"]]
    if cls in SVF:
        labels += [f"steps={case['steps']}", f"vscale={case['vscale']}"]
    scale = 0.3 if cls in LINEAR else case["amp"]
    return Probe(leaves, ev, scale, stateful=True, labels=labels, tag=tag,
                 abs_mag=1.0 if zero and read not in ("call", "points") else 0.0,
                 rule=_rule_affine_flow(cls in LINEAR and read in ("disp", "flow", "inverse_ub.disp")))


def run_history(case):
    return check_probe(case["entry"], build_history_probe(case), case["key"])


# =======================================================================================
# facet 13: kinks and singular points - inputs at which the operation is still locally Lipschitz (finite one-sided directional
# derivatives exist) but not differentiable, or differentiable but computed through a formula that is singular there

# Which points, decided by reading the formula:
#   convex kinks  |x| / Euclidean norm of a residual that is EXACTLY zero on all or on a generated part of the domain: identical
#                 images under mae / l1, zero parameters under L1Norm / Sparsity, locally constant (zero, compactly supported,
#                 constant) vector fields under total variation / grad_loss with p * q >= 1, an exactly inverse-consistent pair
#                 (zero fields, fields with compact support, a translation and its analytic inverse, a transformation at its initial
#                 parameters and its inverse) under inverse_consistency_loss, coincident points under the point set distances,
#                 abspow with exponent >= 1 at 0.  These are where optimisations START (identity / zero initialisation) and END
#                 (perfect alignment), and where fields with compact support live.
#   smooth points of a singular formula  zero rotation vector / identity quaternion / identity matrix for the angle-axis and
#                 quaternion exp / log conversions (the maps are analytic there; the formulas divide by the rotation angle).
# Not generated (no finite derivative of any kind exists, nothing can be asserted): x ** q with q < 1 at 0 (abspow, grad_loss with
# p * q < 1), normalisation of a zero vector (normalize_quaternion, polyline tangents of coincident points), 3D
# euler_rotation_angles at the gimbal lock, quaternion_exp_to_log next to w = 1 (acos).
KINK_ENTRIES = ["mae_loss@equal", "l1_loss@equal", "L1ImageLoss@equal", "L1Norm@zero", "Sparsity@zero", "total_variation_loss@flat",
                "TotalVariation@flat", "grad_loss@flat", "GradLoss@flat", "inverse_consistency_loss@exact.fields",
                "inverse_consistency_loss@exact.affine", "inverse_consistency_loss@exact.transform", "LandmarkPointDistance@coincident",
                "ClosestPointDistance@coincident", "abspow@zero", "angle_axis_to_rotation_matrix@zero", "angle_axis_to_quaternion@zero",
                "quaternion_log_to_exp@zero", "quaternion_to_angle_axis@identity", "rotation_matrix_to_angle_axis@identity"]
KINK_PQ = [[1, 1], [1, 2], [3, 1], [1.5, 1], [0, 0], [1, None], [2, None], [2, 0.5], [3, None], [4, 0.25], [2, 1]]  # p * q >= 1 (or |sum|)


@st.composite
def kink_cases(draw, entry=None, point=None):
    entry = entry or draw(st.sampled_from(KINK_ENTRIES))
    D = draw(gen.dims())
    case = {
        "entry": entry, "D": D, "shape": draw(small_shapes(D, 4, 8, 5)), "N": draw(st.integers(1, 2)), "C": draw(st.integers(1, 2)),
        "key": draw(st.integers(0, 10 ** 6)), "point": "kink", "pattern": draw(st.sampled_from(["all", "part", "part"])),
        "reduction": draw(st.sampled_from(["mean", "sum", "none"])), "mask": draw(st.sampled_from([None, None, "full", "channel"])),
        "norm": draw(st.sampled_from([None, 2.5])), "wrt": draw(st.sampled_from(["both", "first", "second"])),
        "amp": draw(gen.qfloat(0.05, 0.4, 0.01)), "mode": draw(st.sampled_from(FD_MODES)), "sigma": draw(st.sampled_from([None, None, 0.7])),
        "spacing": draw(st.sampled_from([None, "scalar", "vector", "tensor"])), "stride": draw(st.sampled_from([1, 2])),
        "pq": draw(st.sampled_from(KINK_PQ)), "field": draw(st.sampled_from(["zero", "support", "support", "constant"])),
        "units": draw(st.sampled_from(["cube", "voxel", "world"])), "margin": draw(st.sampled_from([0, 0, 1, 0.2])),
        "icmask": draw(st.sampled_from([False, False, True])), "T": draw(st.sampled_from(["Translation", "StationaryVelocityFieldTransform",
                                                                                         "RigidTransform", "StationaryVelocityFreeFormDeformation"])),
        "tpoint": draw(st.sampled_from(["special", "generic"])), "pair": draw(st.sampled_from(["linked", "independent"])),
        "X": draw(st.integers(1, 6)), "extra": draw(st.integers(0, 4)),
        "sets": draw(st.integers(1, 2)), "scale": draw(st.sampled_from([10.0, 1.0])), "dtype": draw(st.sampled_from(["float64", "float32"])),
        "exponent": draw(st.sampled_from([1, 1.5, 2, 3])), "psize": draw(st.lists(st.integers(1, 5), min_size=1, max_size=3)),
        "pscale": draw(st.sampled_from([None, 1.0, 1000.0])), "steps": draw(st.integers(1, 4)),
    }
    if entry.startswith("inverse_consistency_loss"):
        case["grid"] = draw(small_grids(D, ac=True if case["T"] == "StationaryVelocityFreeFormDeformation" else None))
    return case


def _part_mask(shape, key, pattern):
    """Boolean tensor: where the residual is exactly zero ('all': everywhere; 'part': on about half of the elements)."""
    if pattern == "all":
        return torch.ones(tuple(shape), dtype=torch.bool)
    m = noise(shape, key, 0.0, 1.0) < 0.5
    m.reshape(-1)[key % m.numel()] = True
    return m


def _support(shape, key):
    """Indicator (1, 1) + shape of a compact support: zero on the lower or upper part (at least 3 samples, so that central
    differences vanish somewhere) of one axis."""
    s = torch.ones((1, 1) + tuple(shape), dtype=torch.float64)
    ax = key % len(shape)
    n = shape[ax]
    k = 3 + (key // 3) % max(1, n - 4)
    idx = [slice(None)] * (2 + len(shape))
    idx[2 + ax] = slice(0, k) if (key // 7) % 2 else slice(n - k, n)
    s[tuple(idx)] = 0.0
    return s


def build_kink_probe(case) -> Probe:
    import deepali.losses as LM
    import deepali.losses.functional as L
    import deepali.spatial as S
    from deepali.core import functional as U

    entry, D, shape, key, N, C = case["entry"], case["D"], tuple(case["shape"]), case["key"], case["N"], case["C"]
    name, _, where = entry.partition("@")
    red, pat = case["reduction"], case["pattern"]
    labels = [f"D={D}", f"pattern={pat}"]
    full = (N, C) + shape

    def pick(x, y):
        xl = _leaf(x) if case["wrt"] in ("both", "first") else x
        yl = _leaf(y) if case["wrt"] in ("both", "second") else y
        return xl, yl, [t for t in (xl, yl) if t.requires_grad]

    if name in ("mae_loss", "l1_loss", "L1ImageLoss"):  # identical images (everywhere / on a part of the samples)
        x = noise(full, key + 301, 0.0, 1.0)
        off = torch.where(noise(full, key + 303) < 0, -1.0, 1.0).double() * (0.05 + 0.5 * noise(full, key + 302, 0.0, 1.0))
        y = torch.where(_part_mask(full, key + 304, pat), x, x + off)
        kw = {}
        if case["mask"] is not None:
            kw["mask"] = _posmask((N, 1 if case["mask"] == "channel" else C) + shape, key + 305)
        if case["norm"] is not None:
            kw["norm"] = case["norm"]
        xl, yl, leaves = pick(x, y)
        labels += [f"red={red}", f"wrt={case['wrt']}", f"mask={case['mask']}"]
        if name == "L1ImageLoss":
            mod = LM.L1ImageLoss(**({"norm": kw["norm"]} if "norm" in kw else {}))
            fkw = {"mask": kw["mask"]} if "mask" in kw else {}
            return Probe(leaves, lambda: mod(xl, yl, **fkw), 1.0, labels=labels)
        fn = getattr(L, name)
        return Probe(leaves, lambda: fn(xl, yl, reduction=red, **kw), 1.0, labels=labels)
    if name in ("L1Norm", "Sparsity"):  # zero parameters (all / part of them)
        psh = (N,) + tuple(case["psize"])
        mag = noise(psh, key + 311, 0.05, 1.0) * torch.where(noise(psh, key + 312) < 0, -1.0, 1.0).double()
        x = _leaf(torch.where(_part_mask(psh, key + 313, pat), torch.zeros_like(mag), mag))
        kw = {} if (case["pscale"] is None or name == "Sparsity") else dict(scale=case["pscale"])
        mod = getattr(LM, name)(**kw)
        return Probe([x], lambda: mod(x), 1.0, labels=labels + [f"scale={case['pscale']}"])
    if name in ("total_variation_loss", "TotalVariation", "grad_loss", "GradLoss"):
        fk = case["field"]
        if fk == "zero":
            u = torch.zeros((N, D) + shape, dtype=torch.float64)
        elif fk == "constant":  # one constant vector per image of the batch
            u = noise((N, D) + (1,) * D, key + 321, -0.3, 0.3).expand((N, D) + shape).clone()
        else:  # compact support: exactly zero on a part of the domain, strictly monotone (|du| >= 0.05) inside
            u = monotone_field(N, D, shape, key + 322, 0.05, 0.3) * _support(shape, key + 323)
        kw, mode = _deriv_kwargs(case, D)
        kw["reduction"] = red
        tag = ""
        if name in ("grad_loss", "GradLoss"):
            p, q = case["pq"]
            kw.update(p=p, q=q)
            labels += [f"p={p}", f"q={q}"]
            if p != 0 and (1.0 / p if q is None else q) < 1:
                tag = "[q<1]"  # (sum |du|**p)**q with q < 1 <= p * q: the Euclidean / p-norm of the gradient
        u = _leaf(u)
        labels += [f"field={fk}", f"mode={mode}", f"red={red}"]
        if name in ("TotalVariation", "GradLoss"):
            mod = _loss_class(name)(**kw)
            return Probe([u], lambda: mod(u), 0.3, labels=labels, tag=tag)
        fn = getattr(L, name)
        return Probe([u], lambda: fn(u, **kw), 0.3, labels=labels, tag=tag)
    if name == "inverse_consistency_loss":
        g = case["grid"]
        grid = make_grid(g)
        gshape = tuple(grid.shape)
        a = case["amp"]
        kw = dict(grid=grid, units=case["units"], reduction=red, margin=case["margin"])
        if case["icmask"]:  # (the batch size of the mask is 1 or that of the error: 1 for a pair of homogeneous transformations)
            kw["mask"] = (noise((N if where == "exact.fields" else 1, 1) + gshape, key + 333, 0.0, 1.0) > 0.3).double()
        labels += [f"units={case['units']}", f"margin={case['margin']}", f"mask={case['icmask']}", f"red={red}", f"wrt={case['wrt']}"]
        if where == "exact.fields":
            # both fields are exactly zero on the same part of the domain (field = 'zero': everywhere); inside their common
            # support they are generic, so that the forward field is sampled off the knots of the inverse field there
            s = torch.zeros((1, 1) + gshape, dtype=torch.float64) if case["field"] == "zero" else _support(gshape, key + 334)
            fwd = noise((N, D) + gshape, key + 331, -a, a) * s
            inv = (-noise((N, D) + gshape, key + 331, -a, a) + noise((N, D) + gshape, key + 332, -0.5 * a, 0.5 * a)) * s
            fl, il, leaves = pick(fwd, inv)
            return Probe(leaves, lambda: L.inverse_consistency_loss(fl, il, **kw), a, labels=labels + [f"field={case['field']}"])
        if where == "exact.affine":  # a translation and its analytic inverse, both as homogeneous coordinate transformations
            t = noise((1, D, 1), key + 335, -0.3, 0.3)
            eye = torch.eye(D, dtype=torch.float64).unsqueeze(0)
            fl, il, leaves = pick(torch.cat([eye, t], dim=2), torch.cat([eye, -t], dim=2))
            return Probe(leaves, lambda: L.inverse_consistency_loss(fl, il, **kw), 0.3, labels=labels)  # (x + t - t == x exactly)
        # a transformation (initial or generic parameters) and its inverse, as used for an inverse consistency penalty: the linked
        # inverse of the same parameters (the residual is identically zero up to round-off: finiteness is what is asserted), or
        # a second, independently parameterised transformation of the same class at the exactly inverse parameters
        cls = case["T"]
        pair = "independent" if (case["pair"] == "independent" and cls != "RigidTransform") else "linked"
        tcase = {"N": 1, "key": key, "dtype": "float64", "amp": a, "stride": 1, "resize": True, "ffd_stride": 2, "transpose": False,
                 "order": None, "steps": case["steps"], "vscale": None,
                 "point": "special" if cls in SVF else case["tpoint"]}  # (generic velocity fields are not exactly inverse-consistent)
        t = build_transform(cls, grid, tcase)
        labels += [f"T={cls}", f"tpoint={tcase['point']}", f"pair={pair}"]
        # the residual x + t - t - x is pure round-off of cube coordinates of magnitude 1 (in the requested units)
        umag = 1.0 if case["units"] == "cube" else 0.5 * max(g["size"]) * (max(g["spacing"]) if case["units"] == "world" else 1.0)
        scale = 0.3 if cls in LINEAR else a
        if pair == "linked":
            def ev():
                t.update()
                inv = t.inverse(link=True, update_buffers=True)
                return L.inverse_consistency_loss(t.tensor(), inv.tensor(), **kw)

            return Probe(list(t.parameters()), ev, scale, labels=labels, abs_mag=umag)
        t2 = build_transform(cls, grid, tcase)
        with torch.no_grad():
            for q in t2.parameters():
                q.neg_()  # Translation: -offset; velocity fields: -v (both zero at the initial point)

        def ev2():
            return L.inverse_consistency_loss(t.update().tensor(), t2.update().tensor(), **kw)

        return Probe(list(t.parameters()) + list(t2.parameters()), ev2, scale, labels=labels, abs_mag=umag)
    if name in ("LandmarkPointDistance", "ClosestPointDistance"):  # points that coincide with their (closest) counterpart
        dt = torch.float64 if case["dtype"] == "float64" else torch.float32
        X = case["X"]
        closest = name == "ClosestPointDistance"
        Y = X + (case["extra"] if closest else 0)
        base = lattice_points(N, Y, D, key + 341)  # pairwise separation >= 0.8
        if closest:
            sel = np.stack([np.argsort(hash_noise((Y,), key * 5 + n, 0.0, 1.0), kind="stable")[:X] for n in range(N)])
            xs = np.take_along_axis(base, sel[..., None], axis=1)
        else:
            xs = base.copy()
        hit = _part_mask((N, X, 1), key + 342, pat).numpy()
        xs = np.where(hit, xs, xs + offset_vectors((N, X, D), key + 343, 0.1, 0.3))
        ys = [base] + [base + hash_noise((N, Y, D), key + 350 + k, -0.04, 0.04) for k in range(1, case["sets"])]
        x, ys = torch.tensor(xs, dtype=dt), [torch.tensor(y, dtype=dt) for y in ys]
        xl = _leaf(x) if case["wrt"] in ("both", "first") else x
        yl = [(_leaf(y) if case["wrt"] in ("both", "second") else y) for y in ys]
        mod = getattr(LM, name)(scale=case["scale"])
        labels += [case["dtype"], f"sets={len(ys)}", f"wrt={case['wrt']}"]
        return Probe([v for v in [xl] + yl if v.requires_grad], lambda: mod(xl, *yl), 1.0, labels=labels, rule="f32")
    if name == "abspow":
        x = noise(full, key + 351, -1.0, 1.0)
        x = _leaf(torch.where(_part_mask(full, key + 352, pat), torch.zeros_like(x), x + 0.05 * torch.sign(x)))
        e = case["exponent"]
        return Probe([x], lambda: U.abspow(x, e), 1.0, labels=labels + [f"exponent={e}"])
    # ---- smooth points of a singular formula: zero rotation vector / identity quaternion / identity matrix (rows: all / part)
    dt = torch.float64 if case["dtype"] == "float64" else torch.float32
    M = N + 1
    rows = _part_mask((M, 1), key + 361, pat)
    labels.append(case["dtype"])
    if name in ("angle_axis_to_rotation_matrix", "angle_axis_to_quaternion", "quaternion_log_to_exp"):
        v = noise((M, 3), key + 362, -1.5, 1.5, dt)
        v = v + 0.2 * torch.sign(v)
        x = _leaf(torch.where(rows, torch.zeros_like(v), v))
        return Probe([x], lambda: getattr(U, name)(x), 1.0, labels=labels)
    q, R = _generic_rotations(M, key + 363)
    if name == "quaternion_to_angle_axis":
        q = np.where(rows.numpy(), np.array([1.0, 0.0, 0.0, 0.0]), q)
        x = _leaf(torch.tensor(q, dtype=dt))
        return Probe([x], lambda: U.quaternion_to_angle_axis(x), 1.0, labels=labels)
    if name == "rotation_matrix_to_angle_axis":
        tr = np.trace(R, axis1=1, axis2=2)
        R = np.where(rows.numpy()[..., None] | (tr < 0.3)[:, None, None], np.eye(3), R)  # (generic rows: away from the branch switches)
        x = _leaf(torch.tensor(R, dtype=dt))
        return Probe([x], lambda: U.rotation_matrix_to_angle_axis(x), 1.0, labels=labels)
    raise KeyError(entry)


def check_kink(entry: str, probe: Probe, key: int) -> dict:
    """Oracle at a kink / singular point x0 of f = sum(w * out) with POSITIVE generated weights w.

    The entries of KINK_ENTRIES are positive combinations of |.| / Euclidean norms of functions that are smooth (or positively
    homogeneous piecewise linear with value 0) at x0, or smooth functions: such f is locally Lipschitz and Clarke regular, every
    element g of its generalised gradient satisfies, for every direction d,
            - D+ f(x0; -d)  <=  <g, d>  <=  D+ f(x0; d)          (one-sided directional derivatives D+),
    and at a smooth point both bounds coincide with the derivative.  Asserted: the gradient autograd returns is FINITE (a NaN / Inf
    from 0 * inf in the backward pass of sqrt / division at the point poisons every parameter with the first optimiser step) and
    satisfies these inequalities along 3 generated directions, D+ estimated by the one-sided difference quotients of steps h and
    h / 2 (used only if both agree within half the tolerance; a direction in which the lower estimate exceeds the upper one - the
    function would not be regular there - is dropped and counted).  Purity as in check_probe."""
    leaves = probe.leaves
    inputs = _Inputs(probe)
    out = _flat(probe.evaluate())
    labels = [entry] + probe.labels
    entry = entry + probe.tag
    if not out.is_floating_point():
        raise Violation(f"output_not_float:{entry}", f"output dtype {out.dtype}")
    if not out.requires_grad:
        raise Violation(f"no_grad_path:{entry}", "output does not require grad although an input/parameter does")
    if not bool(torch.isfinite(out).all()):
        raise Violation(f"output_nonfinite:{entry}", "forward value is not finite")
    f64 = out.dtype == torch.float64 and all(p.dtype == torch.float64 for p in leaves) and probe.rule != "f32"
    eps, rel, h = (EPS64, REL64, H64 * probe.scale) if f64 else (EPS32, REL32, H32 * probe.scale)
    labels.append("rule=f64" if f64 else "rule=f32")
    w = _weights(out.numel(), key).abs()
    s = (w.to(out.dtype) * out).sum()
    fmag = float((w * out.detach().double().abs().clamp_min(probe.abs_mag)).sum())
    grads = _backward(entry, s, leaves)
    grads = [torch.zeros_like(p) if g is None else g.detach().clone() for g, p in zip(grads, leaves)]
    for i, g in enumerate(grads):
        if not bool(torch.isfinite(g).all()):
            bad = int((~torch.isfinite(g)).sum())
            raise Violation(f"grad_nonfinite:{entry}",
                            f"gradient w.r.t. leaf {i} has {bad} non-finite entries of {g.numel()} at a point where the forward value "
                            "is finite and the operation is locally Lipschitz (finite one-sided derivatives in every direction)")
    F = _Eval(probe, w)
    zero = [torch.zeros_like(p) for p in leaves]
    f0 = F(0.0, zero)
    inputs.check(entry)
    _check_reproducible(entry, "value of the first evaluation vs the second evaluation with the same inputs",
                        float((w * out.detach().double()).sum()), f0, eps, max(fmag, F.mag))
    worst, nontrivial, used = 0.0, False, 0
    for k, d in enumerate(_directions(leaves, key)):
        ad = float(sum((g.double() * di).sum() for g, di in zip(grads, d)))
        fp, fm, fp2, fm2 = F(h, d), F(-h, d), F(h / 2, d), F(-h / 2, d)
        up1, up2 = (fp - f0) / h, (fp2 - f0) / (h / 2)  # -> D+ f(x0; d)
        lo1, lo2 = (f0 - fm) / h, (f0 - fm2) / (h / 2)  # -> -D+ f(x0; -d)
        fmag = max(fmag, F.mag)
        unit = fmag / probe.scale
        floor = 2 * KNOISE * eps * fmag / h  # round-off of a one-sided quotient of step h / 2
        tol = rel * max(abs(ad), abs(up2), abs(lo2)) + floor
        # error of the quotients of step h / 2 estimated from those of step h: for a truncation error c * h**a the error of the
        # finer quotient is |q(h) - q(h/2)| / (2**a - 1) <= 3 |q(h) - q(h/2)| for a >= 0.42 (a = 1 at a smooth point or a norm kink,
        # a = 1/2 for |x|**1.5 at 0); a direction is used if that estimate is within the tolerance, or at least small against the
        # natural unit of a derivative (the bracket is then widened by it)
        eup, elo = 3 * abs(up1 - up2), 3 * abs(lo1 - lo2)
        if max(eup, elo) > max(1.5 * tol, 1e-2 * unit):
            labels.append(f"fd_unreliable:{entry}")
            continue
        if lo2 - elo > up2 + eup + tol:
            labels.append(f"not_regular_direction:{entry}")
            continue
        used += 1
        excess = max((lo2 - elo) - ad, ad - (up2 + eup), 0.0)
        if excess > tol:
            raise Violation(f"not_a_subgradient:{entry}",
                            f"direction {k}: <autograd gradient, d> = {ad:.9g} is outside the one-sided directional derivatives "
                            f"[-D+f(-d), D+f(d)] = [{lo2:.9g}, {up2:.9g}] (h/2; h={h:.3g}: [{lo1:.9g}, {up1:.9g}]) by {excess:.3g} > "
                            f"tol {tol:.3g} (rel {rel:g}, floor {floor:.3g}, rule {'f64' if f64 else 'f32'})")
        worst = max(worst, excess / tol)
        if up2 - lo2 >= NT_FRACTION * unit:
            labels.append("kink_open")
            nontrivial = True
        elif abs(up2) >= NT_FRACTION * unit:
            labels.append("smooth_direction")
            nontrivial = True
    inputs.check(entry)
    F.leaves_kept(entry)
    _check_reproducible(entry, "value before vs after the finite-difference evaluations (same inputs)", f0, F(0.0, zero), eps, fmag)
    if used == 0:
        raise Skip(f"fd_unreliable:{entry}")
    return {"ratio": worst, "nontrivial": nontrivial, "labels": labels}


def run_kink(case):
    return check_kink(case["entry"], build_kink_probe(case), case["key"])


# =======================================================================================
# completeness of the entry table: every public name of the packages named by the property has an entry or a justified exclusion

_CONST = "creates a constant tensor / object (no tensor argument that can carry a gradient)"
_ABSTRACT = "abstract base class / mix-in without an operation of its own (its concrete subclasses are entries)"
_PREDICATE = "predicate / string / configuration helper (no tensor operation)"
EXCLUDED = {
    "deepali.losses.functional": {},
    "deepali.losses": {
        "BSplineLoss": _ABSTRACT, "DisplacementLoss": _ABSTRACT, "NormalizedPairwiseImageLoss": _ABSTRACT, "PairwiseImageLoss": _ABSTRACT,
        "ParamsLoss": _ABSTRACT, "PointSetDistance": _ABSTRACT, "RegistrationLoss": _ABSTRACT,
        "RegistrationLosses": "type alias", "RegistrationResult": "type alias", "is_pairwise_image_loss": _PREDICATE,
        "is_displacement_loss": _PREDICATE, "is_pointset_distance": _PREDICATE, "create_loss": "factory returning one of the entry classes",
        "new_loss": "factory returning one of the entry classes"},
    "deepali.core.functional": {
        "as_one_hot_tensor": "integer label input, one-hot output: piecewise constant by definition",
        "round_decimals": "rounding: zero gradient by definition (C20 asserts that it stays OFF the differentiable paths)",
        "threshold": "boolean output", "unravel_coords": "integer index arithmetic", "unravel_index": "integer index arithmetic",
        "multinomial": "random integer sampling", "euler_rotation_order": _PREDICATE, "identity_transform": _CONST,
        "bspline_interpolation_weights": _CONST, "cubic_bspline_control_point_grid": _CONST, "cubic_bspline_control_point_grid_size": _CONST,
        "circle_image": _CONST, "cshape_image": _CONST, "empty_image": _CONST, "grid_image": _CONST, "ones_image": _CONST,
        "zeros_image": _CONST, "zeros_flow": _CONST, "closest_point_indices": "integer output (indices)",
        "conv_mode": _PREDICATE, "pad_mode": _PREDICATE},
    "deepali.modules": {
        "DeviceProperty": _ABSTRACT, "ReprWithCrossReferences": _ABSTRACT, "LambdaFunc": "type alias",
        "ToImmutableOutput": "container conversion (tuples / named tuples), tensors are passed through untouched",
        "remove_layers_in_state_dict": "state dict utility", "rename_layers_in_state_dict": "state dict utility"},
    "deepali.spatial": {
        "CompositeTransform": _ABSTRACT, "DenseVectorFieldTransform": _ABSTRACT, "BSplineTransform": _ABSTRACT, "LinearTransform": _ABSTRACT,
        "NonRigidTransform": _ABSTRACT, "ParametricTransform": _ABSTRACT, "SpatialTransform": _ABSTRACT, "SpatialTransformer": _ABSTRACT,
        "InvertibleParametricTransform": _ABSTRACT, "ReadOnlyParameters": "exception type", "TransformConfig": _PREDICATE,
        "affine_first": _PREDICATE, "has_affine_component": _PREDICATE, "has_nonrigid_component": _PREDICATE,
        "is_linear_transform": _PREDICATE, "is_nonrigid_transform": _PREDICATE, "is_spatial_transform": _PREDICATE,
        "nonrigid_components": _PREDICATE, "transform_components": _PREDICATE,
        "new_spatial_transform": "factory returning one of the entry classes",
        "ImageTransform": "deprecated empty subclass of ImageTransformer (an entry)",
        "LINEAR_TRANSFORMS": "tuple of names", "NONRIGID_TRANSFORMS": "tuple of names"},
}


def _entry_names():
    import re

    names = set()
    for entries in ALL_ENTRIES.values():
        for e in entries:
            names.update(t for t in re.split(r"[.\[\]]", e) if t)
    names.update(LOSS_MODULES.values())
    names.update(c for combo in COMBOS.values() for c in combo)
    if any(".pointset." in e for e in TRANSFORM_ENTRIES):  # the method token of the transforms facet
        names.add("PointSetTransformer")
    return names


def uncovered_names():
    """Public names of the packages named by property C20 that have neither a table entry (directly, or as an alias of an
    entry: same object) nor a justified exclusion."""
    import importlib
    import inspect

    names = _entry_names()
    missing = []
    for modname, excluded in EXCLUDED.items():
        mod = importlib.import_module(modname)
        objs = [getattr(mod, n) for n in names if hasattr(mod, n)]
        for n in mod.__all__:
            obj = getattr(mod, n)
            if n in names or n in excluded or any(obj is o for o in objs):
                continue
            missing.append(f"{modname}.{n}")
    # every public class defined in the deepali.losses sub-modules (also those not re-exported, e.g. GradLoss)
    import deepali.losses as LM

    for sub in ("base", "bspline", "flow", "image", "params", "pointset"):
        mod = importlib.import_module(f"deepali.losses.{sub}")
        covered = [getattr(mod, k) for k in names if hasattr(mod, k)]
        for n, cls in inspect.getmembers(mod, inspect.isclass):
            if cls.__module__ != mod.__name__ or n.startswith("_"):
                continue
            if n in names or n in EXCLUDED["deepali.losses"] or any(cls is o for o in covered):
                continue
            missing.append(f"deepali.losses.{sub}.{n}")
    return missing


class _StaleAfterStep(torch.nn.Module):
    """Self-test module: the grad-mode forward multiplies with a snapshot of the parameter that is taken once and never
    refreshed; consistent with finite differences until the parameter is changed by an optimiser step."""

    def __init__(self, p):
        super().__init__()
        self.p = p
        self.stale = None
        self.fresh = None

    def forward(self):
        if torch.is_grad_enabled():
            self.fresh = self.p.detach().clone()
            if self.stale is None:
                self.stale = self.fresh
            return self.p.sin() * self.stale.sum()
        return self.p.sin() * self.fresh.sum()


# =======================================================================================
# facets


def _entry_of(strategy_fn, entries):
    return st.sampled_from(entries).flatmap(lambda e: strategy_fn(entry=e))


def _floor_cases_at(strategy_fn, entries, per_entry, point):
    """Deterministic coverage floor: `per_entry` generated cases of every table entry (seed-independent: Hypothesis is
    seeded with a checksum of the entry names; entries are drawn in chunks to keep the generation cheap)."""
    import zlib

    import hypothesis
    from hypothesis import HealthCheck, Phase, given, settings

    out = []
    for i in range(0, len(entries), 8):
        chunk = entries[i:i + 8]
        got = []

        @hypothesis.seed(zlib.crc32("|".join(chunk + [point]).encode()))
        @settings(max_examples=per_entry, database=None, deadline=None, phases=[Phase.generate],
                  suppress_health_check=list(HealthCheck))
        @given(st.tuples(*[strategy_fn(entry=e, point=point) for e in chunk]))
        def collect(cases):
            got.append(cases)

        collect()
        for cases in got[:per_entry]:
            out.extend(cases)
    return out


def _floor_cases(strategy_fn, entries, per_entry):
    """The generic floor plus the same number of cases of every entry at its special point (entries without one: none)."""
    return (_floor_cases_at(strategy_fn, entries, per_entry, "generic")
            + [c for c in _floor_cases_at(strategy_fn, entries, per_entry, "special") if c.get("point") == "special"])


# entries that take the derivative `mode` option (spatial_derivatives and everything built on it): the table has an OPTION dimension
MODE_ENTRIES = {
    "flow_ops": ["compose_svfs.u", "compose_svfs.v", "compose_svfs.both", "lie_bracket", "spatial_derivatives", "flow_derivatives",
                 "jacobian_det", "jacobian_matrix", "curl", "divergence", "divergence_free_flow"],
    "regularisers": ["bending_loss", "curvature_loss", "diffusion_loss", "divergence_loss", "elasticity_loss", "grad_loss"],
    "loss_modules": ["Bending", "Curvature", "Diffusion", "Divergence", "Elasticity", "GradLoss"],
    "modules": ["Curl"],
}
MODE_SIGMAS = [None, 0.7, 1.0]


def _mode_floor(name, strategy_fn, rounds):
    """Option floor: every entry of MODE_ENTRIES[name] x every documented derivative mode (FD_MODES, incl. 'gaussian' / 'bspline' /
    'sobel' / 'prewitt') at generic float64 values, `rounds` times, with sigma cycling through None / 0.7 / 1.0 (the standard
    deviation of the derivative-of-Gaussian kernels of mode='gaussian', Gaussian pre-smoothing for the other modes);
    seed-independent.  grad_loss gets the smooth exponents p = 2, q = 1 there (so that the smoothing modes are kept)."""
    entries = MODE_ENTRIES.get(name, [])
    if not entries:
        return []
    n = len(FD_MODES) * rounds
    by_entry = {}
    for c in _floor_cases_at(strategy_fn, entries, n, "generic"):
        by_entry.setdefault(c["entry"], []).append(c)
    out = []
    for e in entries:
        for i, c in enumerate(by_entry.get(e, [])[:n]):
            c = dict(c, mode=FD_MODES[i % len(FD_MODES)], point="generic")
            if "sigma" in c:
                c["sigma"] = MODE_SIGMAS[(i // len(FD_MODES) + i) % len(MODE_SIGMAS)]
            if "p" in c and (c.get("fentry") or c["entry"]) == "grad_loss":
                c.update(p=2 + 2 * (i % 2), q=1 + (i // 2) % 2)
            out.append(c)
    return out


def _facet(name, run, strategy_fn, entries, what, quick, thorough, floor_quick=3, floor_thorough=12, quick_shards=2):
    return Facet(name, run, strategy=lambda: _entry_of(strategy_fn, entries),
                 enumerate=lambda tier: (_floor_cases(strategy_fn, entries, floor_quick if tier == "quick" else floor_thorough)
                                         + _mode_floor(name, strategy_fn, 1 if tier == "quick" else 3)),
                 rule=f"{what}; {len(entries)} table entries, each probed at least {floor_quick} (quick) / {floor_thorough} (thorough) "
                      "times at generic values and as often at its special point (zero / identity / initial input, where it has one) "
                      "by a seed-independent floor, plus the generated cases (1 in 4 at the special point); non-trivial = some reliable direction with "
                      "|central difference| >= 1e-3 * sum|w*out| / scale",
                 quick=quick, thorough=thorough, shards=16, quick_shards=quick_shards)


ALL_ENTRIES = {"transforms": TRANSFORM_ENTRIES, "image_transformer": IT_ENTRIES, "sampling": SAMPLING_ENTRIES, "flow_ops": FLOW_ENTRIES,
               "bspline": BSPLINE_ENTRIES, "rotations_and_grid_maps": ROT_ENTRIES, "similarity_losses": SIM_ENTRIES,
               "regularisers": REG_ENTRIES, "loss_modules": LOSS_MODULE_ENTRIES,
               "pointset_distances": POINTSET_ENTRIES, "core_functional": CORE_ENTRIES, "modules": MODULE_ENTRIES,
               "parameter_sources_and_composites": SOURCED_ENTRIES, "transform_histories": HISTORY_ENTRIES,
               "kinks_and_singular_points": KINK_ENTRIES}

FACETS = [
    _facet("transforms", run_transforms, transform_cases, TRANSFORM_ENTRIES,
           "transform class x method (call, grid call, disp, disp on another grid, inverse call, points, PointSetTransformer) "
           "w.r.t. its Parameters (generic values, and the initial values of a freshly constructed transformation) or the points",
           quick=400, thorough=10000, floor_quick=2, quick_shards=4),
    _facet("image_transformer", run_image_transformer, image_transformer_cases, IT_ENTRIES,
           "ImageTransformer of every transform class w.r.t. the transform Parameters and w.r.t. the image", quick=120, thorough=3000),
    _facet("sampling", run_sampling, sampling_cases, SAMPLING_ENTRIES,
           "sampling functions/modules w.r.t. data, coordinates (>= 0.05 samples from knots/borders), flow", quick=300, thorough=5000),
    _facet("flow_ops", run_flow, flow_cases, FLOW_ENTRIES,
           "expv/compose/logv/Lie bracket and spatial derivative operators w.r.t. fields (generic, and exactly all-zero fields)",
           quick=200, thorough=4000),
    _facet("bspline", run_bspline, bspline_cases, BSPLINE_ENTRIES,
           "cubic B-spline evaluation (both algorithms, derivatives, given kernels) and subdivision w.r.t. coefficients",
           quick=100, thorough=1500, floor_quick=6),
    _facet("rotations_and_grid_maps", run_rotation, rotation_cases, ROT_ENTRIES,
           "Euler/quaternion/angle-axis conversions, homogeneous helpers, Grid.transform_points(decimals=None)/vectors w.r.t. "
           "their inputs; default-decimals Grid.transform_points recorded only", quick=300, thorough=5000, floor_quick=4),
    _facet("similarity_losses", run_similarity, similarity_cases, SIM_ENTRIES,
           "similarity / overlap losses w.r.t. input and target (|x-y| >= 0.05 from L1/Huber kinks; explicit MI bins)",
           quick=350, thorough=5000, floor_quick=4),
    _facet("regularisers", run_regulariser, regulariser_cases, REG_ENTRIES,
           "regularisation losses w.r.t. the vector field(s) (TV / p=1 on strictly monotone fields)", quick=150, thorough=3000,
           floor_quick=6),
    _facet("loss_modules", run_loss_module, loss_module_cases, LOSS_MODULE_ENTRIES,
           "loss module classes of deepali.losses (image, flow, bspline, params) called as modules (one instance, constructor "
           "arguments generated, masks to forward) w.r.t. source and target / field / parameters; PatchwiseImageLoss w.r.t. both "
           "volumes", quick=160, thorough=3000, floor_quick=3),
    _facet("pointset_distances", run_pointset, pointset_cases, POINTSET_ENTRIES,
           "closest point / landmark distances w.r.t. the first and every later point set (unique nearest neighbours with margin, "
           "no zero distance), also with a later set produced by a transformation being optimised", quick=150, thorough=2500,
           floor_quick=4),
    _facet("core_functional", run_core, core_cases, CORE_ENTRIES,
           "the remaining differentiable functions of deepali.core.functional.__all__ (tensor/math helpers, homogeneous "
           "transform helpers, pooling, convolution, cropping/padding, pyramids, resampling, normalisation with explicit bounds, "
           "point maps) w.r.t. every tensor argument that can carry a gradient", quick=250, thorough=5000, floor_quick=6),
    _facet("modules", run_module, module_cases, MODULE_ENTRIES,
           "layers of deepali.modules not covered elsewhere (AlignImage / TransformImage w.r.t. the transform tensor and the image, "
           "Blur/Filter/GaussianConv, Curl, Pad, Narrow, Reshape, View, LambdaLayer, GetItem, inverse copies of ExpFlow)",
           quick=120, thorough=2000, floor_quick=4),
    _facet("parameter_sources_and_composites", run_sourced, sourced_cases, SOURCED_ENTRIES,
           "every transform class with parameters predicted by a callable module (gradient w.r.t. the callable's own Parameters "
           "and its conditioning input), given as plain tensors (constructor / data_()), and its linked inverse created once "
           "(inverse(link=True) / .inv); SequentialTransform / MultiLevelTransform with non-rigid and nested members (call, grid "
           "call, disp, tensor, inverse, points, ImageTransformer); GenericSpatialTransform (8 models x 8 affine models; Parameters, "
           "dict of tensors, callable returning a dict, linked inverse)", quick=250, thorough=6000, floor_quick=4, quick_shards=4),
    _facet("transform_histories", run_history, history_cases, HISTORY_ENTRIES,
           "transformation objects with a HISTORY: every transform class x read path (call, tensor(), disp(), flow(), points(), "
           ".inv.tensor(), inverse(update_buffers=True).disp()) evaluated - without an intervening update() / call - directly after a "
           "generated sequence of public operations: a prefix of 0..3 of {call, update, tensor / disp read, data_, reset_parameters, "
           "condition_, clear_buffers, load_state_dict, optimiser step, train, eval, .inv, grid_}, each under torch.no_grad() or "
           "with autograd enabled, and a LAST operation that defines the cached state by contract (constructor, data_ with a "
           "Parameter / plain tensor, grid_ = resampling / B-spline subdivision, reset_parameters, condition_, clear_buffers under "
           "no_grad or grad; update / call with autograd enabled)", quick=260, thorough=5000, floor_quick=2, quick_shards=4),
    Facet("kinks_and_singular_points", run_kink, strategy=lambda: _entry_of(kink_cases, KINK_ENTRIES),
          enumerate=lambda tier: _floor_cases_at(kink_cases, KINK_ENTRIES, 6 if tier == "quick" else 24, "kink"),
          rule=f"{len(KINK_ENTRIES)} entries evaluated AT a kink / singular point (identical images under mae / l1, zero parameters "
               "under L1Norm / Sparsity, zero / compactly supported / constant fields under total variation and grad_loss with "
               "p*q >= 1, exactly inverse-consistent pairs, coincident points, zero rotation vector / identity quaternion / matrix "
               "for the angle-axis conversions), exactly zero residual everywhere or on a generated part; finite gradient and "
               "-D+f(-d) <= <g, d> <= D+f(d) along 3 generated directions with positive generated weights; each entry at least "
               "6 (quick) / 24 (thorough) times by a seed-independent floor; non-trivial = a reliable direction in which the one-"
               "sided derivatives differ (kink open) or are clearly non-zero",
          quick=250, thorough=5000, shards=16, quick_shards=2),
]
