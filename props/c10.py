"""C10 - Flow fields mean the same displacement in every vector representation."""
from __future__ import annotations

import math
import os
import tempfile

import numpy as np
import torch
from hypothesis import strategies as st

from props.c11 import build_generator, cube_coords, min_steps
from vlib import gen, ref
from vlib.case import hash_noise, make_grid, tdtype
from vlib.core import EPS32, Facet, Violation, check_close, eps_of

PROPERTY = "C10"
MANIFEST = {
    "text": "Generated FlowField / FlowFields objects (D in {2,3}, N in 1..3 with one shared or per-field distinct oriented "
            "anisotropic grids, both align_corners flags, float32/float64) carrying world-affine, smooth and hash-noise vector "
            "fields are (1) converted between all 4x4 ordered pairs of Axes and compared per item with the vector map of an "
            "independent float64 grid model, with round-trip and path-independence laws; (2) given in each of the four "
            "representations to exp(), warp_image() and sample() and the world-space results compared across representations "
            "and pinned to closed forms (scaling-and-squaring power of an invariant affine velocity; linear-ramp image warped by "
            "a world-affine flow; world-affine field evaluated at the target grid's world points); (3) exported with sitk()/write "
            "and read back with an independent reader. Exploration with Hypothesis, no absence proof.",
    "note": "Trusted: vlib/ref.py GridModel (float64 numpy; self-tested against SimpleITK in C02), the affine closed form of "
            "props/c11.py, SimpleITK as independent reader of exported fields. Tolerances are 64 (conversions) or 256 (flow "
            "operations) times eps32 times a condition term computed from the reference model, because deepali keeps grid "
            "attributes in float32. File round trip only through SimpleITK-backed formats (NRRD); MetaImage/NIfTI belong to C18.",
    "technique": "property-based testing (Hypothesis) with a float64 reference model, closed-form oracles and metamorphic "
                 "representation-independence relations",
}
ASSUMPTIONS = [
    "grids: size 2..10 per axis (cube axes need n >= 2), spacing in [0.1, 10], |center| <= 200 (<= 30 in the resampling facet, "
    "where float32 world coordinates of the point map - C01/C02's subject - would otherwise dominate the bound), |det direction| = 1",
    "a case counts as non-trivial only if its derived bound is <= 2 % of the displacement effect it guards (exp/warp_image/sample)",
    "fields are generated in sample units of their own grid (affine |M| <= 0.3, |t| <= 1.5 samples; smooth/noise amplitude <= 2 "
    "samples) and expressed in each representation with the float64 model, so 'world-affine' holds by construction",
    "image warping assumes the documented precondition that image and flow field share the sampling grid; interpolation is "
    "linear with zeros/border padding (scalar padding constants and reflect padding are representation dependent by definition)",
    "exp(): closed form only for constructed invariant affine velocities with scale > 0; smooth velocities (Lipschitz constant "
    "<= 0.6 samples/sample before scaling) are compared across representations only (C11 pins the core expv)",
    "FlowFields.sample(Tensor) returns the stored vectors (axes r of the old grid) without rescaling, as documented",
]

AX = ["grid", "cube", "cube_corners", "world"]
KC = 64.0   # pure vector conversions
KO = 256.0  # flow operations (DESIGN 6/C10: 256 eps32 * scale)
GRID_KW = dict(mag=200.0, spacing_lo=0.1, spacing_hi=10.0,
               kinds=("identity", "perm", "rotation", "rotation", "rotation", "rotation", "reflection", "reflection"))


def _A(name):
    from deepali.core import Axes

    return Axes(name)


def _eps(dt) -> float:
    return max(EPS32, eps_of(dt))


def selftest():
    g = {"size": [5, 4], "spacing": [2.0, 0.5], "center": [10.0, -3.0], "rot": [0.3], "perm": [1, 0], "flip": [1, -1], "ac": False}
    m = ref.GridModel.from_desc(g)
    v = np.array([[1.0, -2.0], [0.25, 0.5]])
    for a in AX:
        for b in AX:
            assert np.allclose(m.vectors(m.vectors(v, a, b), b, a), v)
            # vector map = difference of the point map
            p = np.array([[0.3, -0.2]])
            assert np.allclose(m.points(p + v, a, b) - m.points(p, a, b), m.vectors(v, a, b))
    assert np.allclose(m.vectors(v, "grid", "cube"), v * 2 / m.n)
    assert np.allclose(m.vectors(v, "grid", "cube_corners"), v * 2 / (m.n - 1))
    assert np.allclose(m.vectors(v, "grid", "world"), v @ (m.R @ np.diag(m.s)).T)
    # index-relative affine field is world-affine with M_w = A M A^-1 about the grid centre
    f = {"type": "affine", "M": [0.1, -0.2, 0.05, 0.3], "t": [0.5, -1.0]}
    Mw, tw = world_affine(f, m, 0)
    uw = m.vectors(index_field(f, m, 0), "grid", "world")
    assert np.allclose(uw, (m.world_points() - m.c) @ Mw.T + tw)


# ---------------------------------------------------------------------------------------
# generators


@st.composite
def one_grid(draw, D: int, min_size: int, max_size: int, mag=None):
    """gen.grids with the share of anisotropic spacings raised to ~5/6 (the shared strategy has 1/3 isotropic)."""
    g = draw(gen.grids(D, min_size=min_size, max_size=max_size, **(GRID_KW if mag is None else dict(GRID_KW, mag=mag))))
    if draw(st.integers(0, 3)) > 0:
        g["spacing"] = draw(st.lists(gen.logfloat(GRID_KW["spacing_lo"], GRID_KW["spacing_hi"]), min_size=D, max_size=D))
    return g


@st.composite
def grid_sets(draw, D: int, max_size: int, near: bool = False, min_size: int = 2):
    """N flow-field grids of equal size: one shared grid, or per-field distinct grids.

    near=True (resampling facet): centres of the distinct grids within a few samples of each other so that one target grid
    overlaps all fields, and |center| <= 30 so that the float32 world coordinates of the point map (error eps32*|x|/spacing
    samples, C01/C02's subject) do not swamp the vector effects this property is about."""
    mag = 30.0 if near else None
    N = draw(st.sampled_from([1, 1, 2, 2, 3]))
    kind = draw(st.sampled_from(["FlowField", "FlowFields"])) if N == 1 else "FlowFields"
    g0 = draw(one_grid(D, min_size, max_size, mag))
    gs = [g0]
    if N > 1 and draw(st.sampled_from([True, True, False])):
        for _ in range(1, N):
            gb = draw(one_grid(D, min_size, max_size, mag))
            gb["size"] = list(g0["size"])
            if near:  # centres within a few samples of each other so that one target grid overlaps all fields
                off = draw(st.lists(gen.qfloat(-1.5, 1.5, 0.01), min_size=D, max_size=D))
                gb["center"] = [round(c + o * min(g0["spacing"]), 4) for c, o in zip(g0["center"], off)]
            gs.append(gb)
    return {"N": N, "kind": kind, "grids": gs}


def fields(D: int, kinds=("affine", "smooth", "noise")):
    opts = {
        "affine": st.fixed_dictionaries({"type": st.just("affine"),
                                         "M": st.lists(gen.qfloat(-0.3, 0.3, 0.01), min_size=D * D, max_size=D * D),
                                         "t": st.lists(gen.qfloat(-1.5, 1.5, 0.01), min_size=D, max_size=D)}),
        "smooth": st.fixed_dictionaries({"type": st.just("smooth"),
                                         "waves": st.lists(st.integers(1, 2), min_size=D, max_size=D),
                                         "amp": gen.qfloat(0.1, 1.5, 0.05)}),
        # smooth field whose amplitude is chosen per grid such that its Lipschitz constant (samples per sample) is `lip`
        "smoothl": st.fixed_dictionaries({"type": st.just("smooth"),
                                          "waves": st.lists(st.integers(1, 2), min_size=D, max_size=D),
                                          "lip": gen.qfloat(0.05, 0.6, 0.01)}),
        "noise": st.fixed_dictionaries({"type": st.just("noise"), "key": st.integers(0, 10 ** 6), "amp": gen.qfloat(0.1, 2.0, 0.1)}),
    }
    return st.one_of([opts[k] for k in kinds])


def wave_field(shape, waves, amp: float, phase: float = 0.4) -> np.ndarray:
    """amp * prod_axes sin(pi w t + phase), t in [0,1] along each axis (does not vanish at the boundary)."""
    D = len(shape)
    out = np.full(shape, float(amp))
    for ax in range(D):
        n = shape[ax]
        t = np.arange(n, dtype=np.float64) / max(n - 1, 1)
        sh = [1] * D
        sh[ax] = n
        out = out * np.sin(np.pi * waves[ax] * t + phase).reshape(sh)
    return out


def smooth_amp(field: dict, m: ref.GridModel) -> float:
    """Amplitude (samples) of a smooth field: given, or derived from the requested Lipschitz constant."""
    if "lip" in field:
        return min(2.0, field["lip"] * max(float(m.n.min()) - 1, 1.0) / (math.pi * m.D * max(field["waves"])))
    return float(field["amp"])


def index_field(field: dict, m: ref.GridModel, b: int) -> np.ndarray:
    """Vector field of batch item b in sample units of its grid, array (..., X, D), (x, ...) component order."""
    D = m.D
    shape = tuple(int(v) for v in m.n[::-1])
    k = 1.0 / (b + 1)
    if field["type"] == "affine":
        Mi = np.array(field["M"], dtype=np.float64).reshape(D, D) * k
        ti = np.array(field["t"], dtype=np.float64) * k
        return (m.index_points() - (m.n - 1) / 2) @ Mi.T + ti
    if field["type"] == "smooth":
        comps = [wave_field(shape, [field["waves"][(c + j) % D] for j in range(D)], smooth_amp(field, m) * k * (1 - 0.3 * c), 0.4 + 0.5 * c)
                 for c in range(D)]
        return np.stack(comps, axis=-1)
    a = field["amp"]
    return hash_noise(shape + (D,), field["key"] + b, -a, a)


def world_affine(field: dict, m: ref.GridModel, b: int):
    """(M_w, t_w) with u_w(x) = M_w (x - c) + t_w for the index-relative affine field of item b."""
    D = m.D
    k = 1.0 / (b + 1)
    Mi = np.array(field["M"], dtype=np.float64).reshape(D, D) * k
    ti = np.array(field["t"], dtype=np.float64) * k
    return m.A @ Mi @ np.linalg.inv(m.A), m.A @ ti


def field_lipschitz(field: dict, m: ref.GridModel) -> float:
    """Bound of the change of the index-unit field per index step (inf-norm, sum over axes)."""
    D = m.D
    if field["type"] == "affine":
        return float(np.abs(np.array(field["M"]).reshape(D, D)).sum(1).max())
    if field["type"] == "smooth":
        return float(smooth_amp(field, m) * math.pi * D * max(field["waves"]) / max(float(m.n.min()) - 1, 1.0))
    return 2.0 * field["amp"] * D


def chfirst(a: np.ndarray) -> np.ndarray:
    return np.moveaxis(a, -1, 0)


def setup(case):
    """models and deepali grids per batch item (shared grid: same object repeated)."""
    N = case["N"]
    ms = [ref.GridModel.from_desc(g) for g in case["grids"]]
    gr = [make_grid(g) for g in case["grids"]]
    if len(ms) == 1:
        ms, gr = ms * N, gr * N
    return ms, gr


def build_flow(case, reps, axes_name, gr, dt, default_axes=False):
    from deepali.data import FlowField, FlowFields

    ax = None if default_axes else _A(axes_name)
    if case["kind"] == "FlowField":
        return FlowField(torch.tensor(chfirst(reps[0]), dtype=dt), gr[0], ax)
    data = torch.tensor(np.stack([chfirst(r) for r in reps]), dtype=dt)
    return FlowFields(data, gr[0] if len(case["grids"]) == 1 else list(gr), ax)


def items(obj):
    """Per-item arrays (..., X, C) in float64 of an Image/FlowField or a batch."""
    from deepali.data import Image

    t = obj.tensor().detach().double().numpy()
    if isinstance(obj, Image):
        return [np.moveaxis(t, 0, -1)]
    return [np.moveaxis(x, 0, -1) for x in t]


def result_grids(obj):
    from deepali.data import Image

    return [obj.grid()] if isinstance(obj, Image) else list(obj.grids())


def check_struct(res, like, n: int, grids, axes_name, dt, what: str):
    """Result container: type, batch size, one grid per item equal to the expected grid, axes, dtype."""
    if type(res) is not type(like):
        raise Violation(what + "_result_type", f"{what}: {type(like).__name__} gave {type(res).__name__}")
    its = items(res)
    if len(its) != n:
        raise Violation(what + "_batch_size", f"{what}: result has {len(its)} items for a batch of {n}")
    rg = result_grids(res)
    if len(rg) != n:
        raise Violation(what + "_grid_count", f"{what}: result has {len(rg)} grids for {n} items")
    for b, (g, e) in enumerate(zip(rg, grids)):
        if not (g == e) or tuple(g.shape) != tuple(its[b].shape[:-1]):
            raise Violation(what + "_result_grid", f"{what}: grid of item {b} is {g!r}, expected {e!r}")
    if axes_name is not None and res.axes() is not _A(axes_name):
        raise Violation(what + "_result_axes", f"{what}: result reports axes {res.axes()} instead of {axes_name}")
    if res.dtype != dt:
        raise Violation(what + "_result_dtype", f"{what}: dtype {res.dtype} for input {dt}")
    return its


def absmat(m: ref.GridModel, a: str, b: str, to=None) -> np.ndarray:
    return np.abs(m.matrix(a, b, to)[: m.D, : m.D])


def conv_scale(m: ref.GridModel, v: np.ndarray, a: str, b: str, to=None) -> float:
    """max_i sum_j |M_ij| |v_j| : the magnitude eps is relative to in y = M v."""
    return max(1e-30, float((np.abs(v).reshape(-1, m.D) @ absmat(m, a, b, to).T).max()))


def kappa(m: ref.GridModel) -> np.ndarray:
    """|A| |A^-1| = |R| |R^T|: world-unit error per unit of eps*|u_w| when vectors pass through grid-aligned axes."""
    return np.abs(m.R) @ np.abs(m.R.T)


def kappa_idx(m: ref.GridModel) -> np.ndarray:
    """|A^-1| |A| = diag(1/s) |R^T| |R| diag(s): index-unit error per unit of eps*|u_idx| when vectors pass through
    world axes (a float32 world vector of a coarse-axis displacement has an error of s_coarse/s_fine samples along an
    oblique fine axis)."""
    return np.abs(np.linalg.inv(m.A)) @ np.abs(m.A)


def cond_vec(m: ref.GridModel) -> float:
    return float(max(kappa(m).sum(1).max(), kappa_idx(m).sum(1).max()))


def given_in(case, ms, gr, dt, r: str, u_idx):
    """The flow object with vectors given w.r.t. axes r: from the model, or through deepali's own axes()."""
    if case.get("src", "model") == "axes" and r != "world":
        fw = build_flow(case, [m.vectors(u, "grid", "world") for m, u in zip(ms, u_idx)], "world", gr, dt)
        return fw.axes(_A(r))
    return build_flow(case, [m.vectors(u, "grid", r) for m, u in zip(ms, u_idx)], r, gr, dt)


def grid_labels(case):
    gs = case["grids"]
    obl = all(gen.grid_is_oblique(g) for g in gs)
    ani = all(gen.grid_is_anisotropic(g) for g in gs)
    distinct = len(gs) > 1 and any(g != gs[0] for g in gs[1:])
    labs = [case["kind"], f"N={case['N']}", "grids=distinct" if distinct else "grids=shared", f"D={case['D']}", case["dtype"],
            "oblique" if obl else "axis-aligned", "aniso" if ani else "iso",
            "ac=" + "".join("T" if g["ac"] else "F" for g in gs)]
    return labs, obl and ani, distinct


# ---------------------------------------------------------------------------------------
# (1) axes(a).axes(b): model vector map, round trip, path independence


@st.composite
def axes_cases(draw):
    D = draw(gen.dims())
    case = draw(grid_sets(D, 10 if D == 2 else 6))
    case.update({"D": D, "a": draw(st.sampled_from(AX)), "b": draw(st.sampled_from(AX)), "c": draw(st.sampled_from(AX)),
                 "dtype": draw(gen.dtypes()), "field": draw(fields(D)), "ctor": draw(st.sampled_from(["explicit", "default"]))})
    return case


def run_axes(case):
    ms, gr = setup(case)
    N, dt = case["N"], tdtype(case["dtype"])
    eps = _eps(dt)
    a, b, c = case["a"], case["b"], case["c"]
    u_idx = [index_field(case["field"], m, i) for i, m in enumerate(ms)]
    va = [m.vectors(u, "grid", a) for m, u in zip(ms, u_idx)]
    dflt = "cube_corners" if case["grids"][0]["ac"] else "cube"
    use_default = case["ctor"] == "default" and a == dflt
    f = build_flow(case, va, a, gr, dt, default_axes=use_default)
    if f.axes() is not _A(a):
        raise Violation("constructor_axes", f"constructed with axes={'None' if use_default else a}: axes() = {f.axes()}")
    f0 = f.tensor().clone()
    fb = f.axes(_A(b))
    ib = check_struct(fb, f, N, gr, b, dt, "axes")
    worst = 0.0
    for i, m in enumerate(ms):
        sab = conv_scale(m, va[i], a, b)
        worst = max(worst, check_close(ib[i], m.vectors(va[i], a, b), KC * eps * sab, "axes_vs_model",
                                       f"{case['kind']}.axes({b}) of {a} vectors, item {i}"))
    back = f.axes(_A(b)).axes(_A(a))
    ia = check_struct(back, f, N, gr, a, dt, "axes")
    direct = f.axes(_A(c))
    via = fb.axes(_A(c))
    ic, iv = check_struct(direct, f, N, gr, c, dt, "axes"), check_struct(via, f, N, gr, c, dt, "axes")
    for i, m in enumerate(ms):
        vb = m.vectors(va[i], a, b)
        eab = KC * eps * conv_scale(m, va[i], a, b)
        # an error e in b-space maps to |M_ba| e in a-space
        bnd = eab * float(absmat(m, b, a).sum(1).max()) + KC * eps * conv_scale(m, vb, b, a)
        worst = max(worst, check_close(ia[i], va[i], bnd, "axes_roundtrip", f"{a}->{b}->{a}, item {i}"))
        bnd = KC * eps * conv_scale(m, va[i], a, c) + eab * float(absmat(m, b, c).sum(1).max()) + KC * eps * conv_scale(m, vb, b, c)
        worst = max(worst, check_close(iv[i], ic[i], bnd, "axes_path_dependent", f"{a}->{c} vs {a}->{b}->{c}, item {i}"))
    if not torch.equal(f.tensor(), f0) or f.axes() is not _A(a):
        raise Violation("input_modified", "axes() modified the flow field it was called on")
    labs, objq, distinct = grid_labels(case)
    nt = objq and a != b and (N == 1 or distinct)
    return {"ratio": worst, "nontrivial": nt, "labels": labs + [f"{a}->{b}", "field=" + case["field"]["type"], "ctor=" + ("default" if use_default else "explicit")]}


# ---------------------------------------------------------------------------------------
# (2a) exp(): same world result in every representation; closed form for invariant affine velocities


@st.composite
def exp_cases(draw):
    D = draw(gen.dims())
    case = draw(grid_sets(D, 9 if D == 2 else 6))
    ftype = draw(st.sampled_from(["affine", "affine", "smooth"]))
    case.update({"D": D, "dtype": draw(gen.dtypes()), "ftype": ftype, "src": draw(st.sampled_from(["model", "model", "axes"])),
                 "steps": draw(st.one_of(st.none(), st.integers(0, 6)))})
    if ftype == "affine":
        case.update({
            "gac": draw(st.booleans()),
            "M": draw(st.lists(gen.qfloat(-0.5, 0.5, 0.01), min_size=D * D, max_size=D * D)),
            "t": draw(st.lists(gen.qfloat(-0.3, 0.3, 0.01), min_size=D, max_size=D)),
            "m1": draw(st.lists(gen.qfloat(0.0, 1.0, 0.05), min_size=D, max_size=D)),
            "m2": draw(st.lists(gen.qfloat(0.0, 0.3, 0.05), min_size=D, max_size=D)),
            "scale": draw(st.one_of(st.none(), st.sampled_from([1.0, 0.5, 2.0]), gen.qfloat(0.1, 2.0, 0.01))),
        })
    else:
        case.update({"field": draw(fields(D, ("smoothl",))),
                     "scale": draw(st.one_of(st.none(), gen.qfloat(0.1, 1.5, 0.01), gen.qfloat(-1.5, -0.1, 0.01)))})
    return case


def run_exp(case):
    ms, gr = setup(case)
    D, N, dt = case["D"], case["N"], tdtype(case["dtype"])
    eps = _eps(dt)
    scale = case["scale"]
    s = 1.0 if scale is None else float(scale)
    size = case["grids"][0]["size"]
    shape = list(size[::-1])
    steps = 5 if case["steps"] is None else case["steps"]
    expect_w = None
    if case["ftype"] == "affine":
        cg = "cube_corners" if case["gac"] else "cube"
        x = cube_coords(shape, case["gac"])
        H0 = build_generator({"D": D, "shape": shape, "ac": case["gac"], "M": case["M"], "t": case["t"], "m1": case["m1"], "m2": case["m2"]})
        Hs = [H0 / (i + 1) for i in range(N)]
        for H in Hs:
            steps = min_steps(H, s, steps)
        u_idx = [m.vectors(x @ H[:, :D].T + H[:, D], cg, "grid") for m, H in zip(ms, Hs)]
        expect_w, bounds = [], []
        for m, H in zip(ms, Hs):
            P = ref.sas_power(H, steps, s)
            expect_w.append(m.vectors(x @ (P[:D, :D] - np.eye(D)).T + P[:D, D], cg, "world"))
            mag = max(1.0, float(np.abs(H).sum(1).max()) * abs(s))
            Lw = float(absmat(m, cg, "world").sum(1).max())
            bounds.append(KO * eps * (steps + 1) * mag * Lw * cond_vec(m))
    else:
        u_idx = [index_field(case["field"], m, i) for i, m in enumerate(ms)]
        bounds = []
        for m, u in zip(ms, u_idx):
            # index units: input/output conversions cond_vec*amp; each squaring step samples the current displacement
            # (Lipschitz L_j <= 2^j lip/2^k e^lip) at coordinates of magnitude n/2 and adds vectors of magnitude <= amp;
            # relative to the doubling magnitudes a perturbation grows by (1 + L_j/2) per step, <= exp(lip e^lip / 2) overall
            amp = float(np.abs(u).max()) * abs(s)
            lip = field_lipschitz(case["field"], m) * abs(s)
            Lw = float(np.abs(m.A).sum(1).max())
            growth = math.exp(0.5 * lip * math.exp(lip))
            bounds.append(KO * eps * growth * (2 * cond_vec(m) * amp + (steps + 1) * (lip * float(m.n.max()) / 2 + amp)) * Lw)
    kw = {}
    if scale is not None:
        kw["scale"] = scale
    if case["steps"] is None and steps == 5:
        pass
    else:
        kw["steps"] = steps
    world = {}
    worst = 0.0
    for r in AX:
        f = given_in(case, ms, gr, dt, r, u_idx)
        f0 = f.tensor().clone()
        out = f.exp(**kw)
        io = check_struct(out, f, N, gr, r, dt, "exp")
        if not torch.equal(f.tensor(), f0):
            raise Violation("input_modified", "exp() modified the flow field it was called on")
        world[r] = [m.vectors(o, r, "world") for m, o in zip(ms, io)]
        if expect_w is not None:
            for i in range(N):
                worst = max(worst, check_close(world[r][i], expect_w[i], bounds[i], "exp_closed_form",
                                               f"exp(scale={scale}, steps={kw.get('steps')}) of {r} vectors (item {i}) vs (I+sH/2^k)^(2^k)"))
        ow = items(out.axes(_A("world")))
        for i, m in enumerate(ms):
            check_close(ow[i], world[r][i], KC * eps * conv_scale(m, io[i], r, "world"), "exp_result_to_world",
                        f"exp() result in {r} axes converted with axes(WORLD), item {i}")
    for r in AX:
        for i in range(N):
            worst = max(worst, check_close(world[r][i], world["cube"][i], 2 * bounds[i], "exp_representation_dependent",
                                           f"world result of exp() for input in {r} axes vs cube axes, item {i}"))
    labs, objq, distinct = grid_labels(case)
    moving = max(float(np.abs(u).max()) for u in u_idx) > 1e-3
    # the bound must be small against the displacement it guards (tiny grids with steep smooth fields give e^lip >> 1)
    tight = all(bounds[i] <= 0.02 * float(np.abs(world["cube"][i]).max()) for i in range(N))
    return {"ratio": worst, "nontrivial": objq and moving and tight and steps >= 1 and (N == 1 or distinct),
            "labels": labs + ["field=" + case["ftype"], f"steps={steps}", "steps_arg=" + ("default" if "steps" not in kw else "given"),
                              "scale=" + ("default" if scale is None else "given"), "src=" + case["src"]]}


# ---------------------------------------------------------------------------------------
# (2b) warp_image(): linear-ramp image, same grid as the flow field


@st.composite
def warp_cases(draw):
    D = draw(gen.dims())
    case = draw(grid_sets(D, 10 if D == 2 else 6))
    shared = len(case["grids"]) == 1
    forms = ["Image", "ImageBatch"] if shared else ["ImageBatch"]
    if case["N"] == 1:
        forms.append("ImageBatchK")  # one flow field applied to a batch of K images
    C = draw(st.integers(1, 2))
    case.update({"D": D, "dtype": draw(gen.dtypes()), "field": draw(fields(D, ("affine", "affine", "smooth"))),
                 "src": draw(st.sampled_from(["model", "model", "axes"])),
                 "image": draw(st.sampled_from(forms)), "K": draw(st.integers(2, 3)), "C": C,
                 "alpha": draw(st.lists(gen.qfloat(-3.0, 3.0, 0.01), min_size=C * D, max_size=C * D)),
                 "beta": draw(st.lists(gen.qfloat(-10.0, 10.0, 0.1), min_size=C, max_size=C)),
                 "sampling": draw(st.sampled_from([None, "linear"])),
                 "padding": draw(st.sampled_from([None, "zeros", "border"]))})
    return case


def ramp_params(case, j: int):
    C, D = case["C"], case["D"]
    alpha = np.array(case["alpha"], dtype=np.float64).reshape(C, D) * (1 + 0.5 * j)
    beta = np.array(case["beta"], dtype=np.float64) + j
    return alpha, beta


def run_warp(case):
    from deepali.data import Image, ImageBatch

    ms, gr = setup(case)
    D, N, dt = case["D"], case["N"], tdtype(case["dtype"])
    eps = _eps(dt)
    u_idx = [index_field(case["field"], m, i) for i, m in enumerate(ms)]
    form = case["image"]
    n_img = {"Image": 1, "ImageBatch": N, "ImageBatchK": case["K"]}[form]
    n_out = max(N, n_img)
    # image j lives on the grid of flow item j (all grids equal unless N == n_img)
    ic = [(ms[min(j, N - 1)].index_points() - (ms[min(j, N - 1)].n - 1) / 2) for j in range(n_img)]
    ramps = []
    for j in range(n_img):
        alpha, beta = ramp_params(case, j)
        ramps.append(ic[j] @ alpha.T + beta)  # (..., X, C)
    if form == "Image":
        image = Image(torch.tensor(chfirst(ramps[0]), dtype=dt), gr[0])
    else:
        gi = [gr[min(j, N - 1)] for j in range(n_img)]
        image = ImageBatch(torch.tensor(np.stack([chfirst(x) for x in ramps]), dtype=dt), gi)
    kw = {}
    if case["sampling"] is not None:
        kw["sampling"] = case["sampling"]
    if case["padding"] is not None:
        kw["padding"] = case["padding"]
    # closed form, output item k: flow item min(k, N-1), image min(k, n_img-1)
    expect, inside, bounds, signal = [], [], [], []
    for k in range(n_out):
        fi, ii = min(k, N - 1), min(k, n_img - 1)
        m = ms[fi]
        alpha, beta = ramp_params(case, ii)
        j = m.index_points() + u_idx[fi]
        expect.append((j - (m.n - 1) / 2) @ alpha.T + beta)
        inside.append(np.all((j >= 0) & (j <= m.n - 1), axis=-1))
        # index error: coordinates of magnitude n plus the conversion of the vectors (componentwise condition |A^-1||A|)
        uterm = float((np.abs(u_idx[fi]).reshape(-1, D) @ kappa_idx(m).T).max())
        gsum = float(np.abs(alpha).sum(1).max())
        imax = float(np.abs(ramps[ii]).max())
        if case["padding"] in (None, "zeros"):
            gsum += imax  # zero padding: the image drops from its boundary value to 0 within one sample
        bounds.append(KO * eps * ((float(m.n.max()) + uterm) * gsum + imax))
        signal.append(float(np.abs(u_idx[fi] @ alpha.T).max()))  # intensity change caused by the displacement
    outs = {}
    worst = 0.0
    for r in AX:
        f = given_in(case, ms, gr, dt, r, u_idx)
        f0 = f.tensor().clone()
        out = f.warp_image(image, **kw)
        single = case["kind"] == "FlowField" and form == "Image"
        want = Image if single else ImageBatch
        if type(out) is not want:
            raise Violation("warp_result_type", f"{case['kind']}.warp_image({form}) returned {type(out).__name__}")
        io = items(out)
        if len(io) != n_out:
            raise Violation("warp_batch_size", f"{case['kind']}(N={N}).warp_image({form} of {n_img}) returned {len(io)} images")
        rg = result_grids(out)
        if len(rg) != n_out:
            raise Violation("warp_batch_grid_count", f"{case['kind']}(N={N}).warp_image({form} of {n_img}): {len(io)} images but {len(rg)} grids")
        for k in range(n_out):
            if not (rg[k] == gr[min(k, N - 1)]):
                raise Violation("warp_result_grid", f"output image {k} is not on the grid of its flow field")
            if io[k].shape != expect[k].shape:
                raise Violation("warp_result_shape", f"output image {k} has shape {io[k].shape}, expected {expect[k].shape}")
        if not torch.equal(f.tensor(), f0):
            raise Violation("input_modified", "warp_image() modified the flow field")
        outs[r] = io
        if case["field"]["type"] == "affine":
            for k in range(n_out):
                msk = inside[k]
                if msk.any():
                    worst = max(worst, check_close(io[k][msk], expect[k][msk], bounds[k], "warp_closed_form",
                                                   f"ramp image warped by world-affine flow given in {r} axes, output {k}"))
    for r in AX:
        for k in range(n_out):
            worst = max(worst, check_close(outs[r][k], outs["cube"][k], 2 * bounds[k], "warp_representation_dependent",
                                           f"warp_image() for flow given in {r} axes vs cube axes, output {k}"))
    n_inside = int(sum(int(x.sum()) for x in inside))
    labs, objq, distinct = grid_labels(case)
    moving = max(float(np.abs(u).max()) for u in u_idx) > 0.05
    tight = all(b <= 0.02 * sg for b, sg in zip(bounds, signal))
    return {"ratio": worst, "nontrivial": objq and moving and tight and n_inside >= 2 and (N == 1 or distinct or form == "Image"),
            "labels": labs + ["field=" + case["field"]["type"], "image=" + form, f"pad={case['padding']}", "src=" + case["src"],
                              "inside>=half" if n_inside * 2 >= sum(x.size for x in inside) else "inside<half"]}


# ---------------------------------------------------------------------------------------
# (2c, 3) sample(): resampling on other grids


@st.composite
def sample_cases(draw):
    D = draw(gen.dims())
    case = draw(grid_sets(D, 10 if D == 2 else 6, near=True))
    g0 = case["grids"][0]
    m0 = ref.GridModel.from_desc(g0)
    mode = draw(st.sampled_from(["single", "single", "list_same", "list_distinct", "coords"]))
    nt = case["N"] if mode == "list_distinct" else 1
    tsize = draw(st.lists(st.integers(2, 5 if D == 2 else 4), min_size=D, max_size=D))
    targets = []
    for _ in range(nt):
        t = draw(one_grid(D, 2, 5))
        t["size"] = list(tsize)
        rel = draw(st.lists(gen.qfloat(0.15, 0.85, 0.01), min_size=D, max_size=D))
        fac = draw(st.lists(gen.qfloat(0.15, 1.2, 0.01), min_size=D, max_size=D))
        c = m0.points(np.array(rel) * (m0.n - 1), "grid", "world")
        t["center"] = [round(float(v), 4) for v in c]
        t["spacing"] = [float(f"{min(g0['spacing']) * f:.4g}") for f in fac]
        targets.append(t)
    case.update({"D": D, "dtype": draw(gen.dtypes()), "field": draw(fields(D, ("affine", "affine", "smooth", "smoothl"))),
                 "src": draw(st.sampled_from(["model", "model", "axes"])), "target": mode, "targets": targets,
                 "mode": draw(st.sampled_from([None, "linear"])), "padding": draw(st.sampled_from([None, "zeros", "border"]))})
    return case


def run_sample(case):
    ms, gr = setup(case)
    D, N, dt = case["D"], case["N"], tdtype(case["dtype"])
    eps = _eps(dt)
    u_idx = [index_field(case["field"], m, i) for i, m in enumerate(ms)]
    tmode = case["target"]
    if case["kind"] == "FlowField" and tmode.startswith("list"):
        tmode = "single"  # a single flow field takes a single grid
    mt = [ref.GridModel.from_desc(t) for t in case["targets"]]
    gt = [make_grid(t) for t in case["targets"]]
    if len(mt) == 1:
        mt, gt = mt * N, gt * N
    if case["kind"] == "FlowField" or tmode in ("single", "coords"):
        arg = gt[0]
    else:
        arg = list(gt)
    kw = {}
    if case["mode"] is not None:
        kw["mode"] = case["mode"]
    if case["padding"] is not None:
        kw["padding"] = case["padding"]
    affine = case["field"]["type"] == "affine"
    expect, inside, bounds, signal = [], [], [], []
    for i in range(N):
        m, t = ms[i], mt[i]
        xw = t.world_points()
        idx = m.points(xw, "world", "grid")
        inside.append(np.all((idx >= 0) & (idx <= m.n - 1), axis=-1))
        if affine:
            Mw, tw = world_affine(case["field"], m, i)
            expect.append((xw - m.c) @ Mw.T + tw)
        else:
            expect.append(None)
        # coordinate error (index units of the source grid) of the point map target cube -> world -> source cube
        W = max(float(np.abs(m.c).max() + np.abs(m.s * m.n).sum()), float(np.abs(t.c).max() + np.abs(t.s * t.n).sum()), 1.0)
        cpt = W / float(m.s.min()) + float(m.n.max()) + float(np.abs(idx).max())
        Lw = float(np.abs(m.A).sum(1).max())
        grad = field_lipschitz(case["field"], m) / (i + 1) * Lw
        uw = m.vectors(u_idx[i], "grid", "world")
        if case["padding"] in (None, "zeros"):
            grad += float(np.abs(uw).max())  # zero padding: the field drops from its boundary value to 0 within one sample
        uterm = float((np.abs(uw).reshape(-1, D) @ (kappa(t) @ kappa(m)).T).max())
        bounds.append(KO * eps * (cpt * grad + uterm))
        signal.append(float(np.abs(uw).max()))
    world = {}
    worst = 0.0
    for r in AX:
        f = given_in(case, ms, gr, dt, r, u_idx)
        f0 = f.tensor().clone()
        if tmode == "coords":
            # tensor of normalised coordinates w.r.t. the flow field's own grid: values are returned as stored (axes r, old grid)
            ac0 = case["grids"][0]["ac"]
            cx = "cube_corners" if ac0 else "cube"
            if case["kind"] == "FlowField":
                coords = torch.tensor(mt[0].points(mt[0].index_points(), "grid", cx, ms[0]), dtype=dt)
            else:
                coords = torch.tensor(np.stack([mt[i].points(mt[i].index_points(), "grid", cx, ms[i]) for i in range(N)]), dtype=dt)
            out = f.sample(coords, **kw)
            if type(out) is not torch.Tensor:
                raise Violation("sample_coords_result_type", f"sample(Tensor) returned {type(out).__name__}")
            t = out.detach().double().numpy()
            io = [np.moveaxis(t, 0, -1)] if case["kind"] == "FlowField" else [np.moveaxis(x, 0, -1) for x in t]
            if len(io) != N:
                raise Violation("sample_batch_size", f"sample(Tensor) returned {len(io)} items for N={N}")
            world[r] = [m.vectors(o, r, "world") for m, o in zip(ms, io)]
        else:
            out = f.sample(arg, **kw)
            if type(out) is not type(f):
                raise Violation("sample_result_type", f"{type(f).__name__}.sample(grid) returned {type(out).__name__}")
            io = items(out)
            rg = result_grids(out)
            if len(io) != N or len(rg) != N:
                raise Violation("sample_single_grid_batch_size" if tmode == "single" else "sample_batch_size",
                                f"{case['kind']}(N={N}, axes={r}).sample({tmode}): result has {len(io)} fields and {len(rg)} grids")
            io = check_struct(out, f, N, gt, r, dt, "sample")
            world[r] = [t.vectors(o, r, "world") for t, o in zip(mt, io)]
        if not torch.equal(f.tensor(), f0):
            raise Violation("input_modified", "sample() modified the flow field")
        if affine:
            for i in range(N):
                msk = inside[i]
                if msk.any():
                    worst = max(worst, check_close(world[r][i][msk], expect[i][msk], bounds[i], "sample_world_affine",
                                                   f"sample({tmode}) of world-affine field given in {r} axes, item {i}"))
    for r in AX:
        for i in range(N):
            worst = max(worst, check_close(world[r][i], world["cube"][i], 2 * bounds[i], "sample_representation_dependent",
                                           f"world result of sample({tmode}) for field given in {r} axes vs cube axes, item {i}"))
    n_inside = int(sum(int(x.sum()) for x in inside))
    labs, objq, distinct = grid_labels(case)
    tobl = all(gen.grid_is_oblique(t) for t in case["targets"])
    tight = all(b <= 0.02 * sg for b, sg in zip(bounds, signal))
    return {"ratio": worst, "nontrivial": objq and tobl and tight and n_inside >= 3 and (N == 1 or distinct),
            "labels": labs + ["field=" + case["field"]["type"], "target=" + tmode, f"pad={case['padding']}", "src=" + case["src"],
                              "inside>=3" if n_inside >= 3 else "inside<3"]}


# ---------------------------------------------------------------------------------------
# (4) sitk() / from_sitk() / write() / read(): files and ITK images hold WORLD vectors


@st.composite
def sitk_cases(draw):
    D = draw(gen.dims())
    g = draw(one_grid(D, 2, 8 if D == 2 else 5))
    return {"D": D, "N": 1, "kind": "FlowField", "grids": [g], "r": draw(st.sampled_from(AX)), "q": draw(st.sampled_from(AX)),
            "dtype": draw(gen.dtypes()), "field": draw(fields(D)), "file": draw(st.sampled_from([None, None, None, ".nrrd"]))}


def run_sitk(case):
    import SimpleITK as sitk
    from deepali.data import FlowField

    ms, gr = setup(case)
    m = ms[0]
    D, dt = case["D"], tdtype(case["dtype"])
    eps = _eps(dt)
    r, q = case["r"], case["q"]
    u_idx = index_field(case["field"], m, 0)
    vr = m.vectors(u_idx, "grid", r)
    uw = m.vectors(u_idx, "grid", "world")
    f = build_flow(case, [vr], r, gr, dt)
    f0 = f.tensor().clone()
    img = f.sitk()
    if img.GetNumberOfComponentsPerPixel() != D or list(img.GetSize()) != list(case["grids"][0]["size"]):
        raise Violation("sitk_layout", f"sitk(): {img.GetNumberOfComponentsPerPixel()} components, size {img.GetSize()}")
    arr = sitk.GetArrayFromImage(img).astype(np.float64)
    bw = KC * eps * conv_scale(m, vr, r, "world")
    worst = check_close(arr, uw, bw, "sitk_world_vectors", f"sitk() of field given in {r} axes vs model world vectors")
    imq = f.sitk(axes=_A(q))
    check_close(sitk.GetArrayFromImage(imq).astype(np.float64), m.vectors(vr, r, q), KC * eps * conv_scale(m, vr, r, q),
                "sitk_axes_argument", f"sitk(axes={q}) of field given in {r} axes")
    if not torch.equal(f.tensor(), f0) or f.axes() is not _A(r):
        raise Violation("input_modified", "sitk() modified the flow field")
    back = FlowField.from_sitk(img, dtype=dt)
    if type(back) is not FlowField or back.axes() is not _A("world"):
        raise Violation("from_sitk_axes", f"from_sitk() returned {type(back).__name__} with axes {back.axes()}")
    check_close(items(back)[0], arr, 2 * eps * max(1e-30, float(np.abs(arr).max())), "from_sitk_vectors", "from_sitk() changed the stored vectors")
    again = back.axes(_A(r))
    vw = m.vectors(vr, r, "world")
    bnd = bw * float(absmat(m, "world", r).sum(1).max()) + KC * eps * conv_scale(m, vw, "world", r)
    check_close(items(again)[0], vr, bnd, "sitk_roundtrip", f"from_sitk(sitk()).axes({r}) vs original {r} vectors")
    lab = FlowField.from_sitk(imq, axes=_A(q), dtype=dt)
    if lab.axes() is not _A(q):
        raise Violation("from_sitk_axes", f"from_sitk(axes={q}) reports {lab.axes()}")
    if case["file"]:
        with tempfile.TemporaryDirectory(prefix="c10_") as d:
            path = os.path.join(d, "flow" + case["file"])
            f.write(path)
            stored = sitk.GetArrayFromImage(sitk.ReadImage(path)).astype(np.float64)
            if stored.shape != uw.shape:
                raise Violation("write_layout", f"written array has shape {stored.shape}, expected {uw.shape}")
            check_close(stored, uw, bw, "write_world_vectors", f"write({case['file']}) of field given in {r} axes, read by SimpleITK")
            rd = FlowField.read(path, dtype=dt)
            if rd.axes() is not _A("world"):
                raise Violation("read_axes", f"read() reports axes {rd.axes()}")
            check_close(items(rd)[0], uw, bw, "read_world_vectors", "FlowField.read() of the written file")
    labs, objq, _ = grid_labels(case)
    return {"ratio": worst, "nontrivial": objq and r != "world", "labels": labs + [f"r={r}", f"q={q}", "file=" + str(case["file"])]}


FACETS = [
    Facet("axes", run_axes, strategy=axes_cases,
          rule="FlowField/FlowFields (N 1..3, shared or per-field distinct grids) x ordered axes triple x affine/smooth/noise content; "
               "non-trivial = all grids oblique and anisotropic, a != b, N = 1 or distinct grids",
          quick=700, thorough=16000, shards=16, quick_shards=3),
    Facet("exp", run_exp, strategy=exp_cases,
          rule="invariant affine velocity (closed form) or smooth velocity, given in all four representations; "
               "non-trivial = oblique anisotropic grids, non-zero field, steps >= 1, N = 1 or distinct grids, bound <= 2 % of the displacement",
          quick=300, thorough=6000, shards=16, quick_shards=2),
    Facet("warp_image", run_warp, strategy=warp_cases,
          rule="linear-ramp image(s) on the flow grids warped by world-affine (closed form inside the field of view) or smooth flow "
               "given in all four representations; non-trivial = oblique anisotropic grids, |u| > 0.05 samples, >= 2 pinned samples, bound <= 2 % of the "
               "intensity change caused by the displacement",
          quick=350, thorough=8000, shards=16, quick_shards=2),
    Facet("sample", run_sample, strategy=sample_cases,
          rule="resampling on a single / per-field target grid(s) overlapping the field, or at normalised coordinates; world-affine "
               "(pinned inside the old sample hull) or smooth fields in all four representations; non-trivial = oblique "
               "anisotropic source and oblique target grids, >= 3 pinned samples, N = 1 or distinct grids, bound <= 2 % of the displacement",
          quick=350, thorough=8000, shards=16, quick_shards=3),
    Facet("sitk", run_sitk, strategy=sitk_cases,
          rule="FlowField in representation r exported by sitk()/sitk(axes=q)/write(.nrrd) and re-imported; non-trivial = oblique "
               "anisotropic grid and r != world",
          quick=250, thorough=5000, shards=8, quick_shards=2),
]
