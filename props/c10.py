"""C10 - Flow fields mean the same displacement in every vector representation."""
from __future__ import annotations

import math
import os
import tempfile

import numpy as np
import torch
from hypothesis import strategies as st

from props.c11 import build_generator, cube_coords, min_steps
from vlib import gen, ref
from vlib.case import hash_noise, make_grid, tdtype
from vlib.core import EPS32, Facet, Skip, Violation, check_close, eps_of

PROPERTY = "C10"
MANIFEST = {
    "text": "Generated FlowField / FlowFields objects (D in {2,3}, N in 1..3 with one shared or per-field distinct oriented "
            "anisotropic grids, both align_corners flags incl. mixed flags within a batch, float32/float64; obtained from the "
            "constructor, from_images()/from_image(), batch(), indexing or clone()) carrying world-affine, smooth and hash-noise vector "
            "fields are (1) converted between all 4x4 ordered pairs of Axes and compared per item with the vector map of an "
            "independent float64 grid model, with round-trip and path-independence laws, and combinations of fields given in "
            "different representations must raise or be expressed consistently; (2) given in each of the four "
            "representations to exp(), warp_image() and sample() and the world-space results compared across representations "
            "and pinned to closed forms (scaling-and-squaring power of an invariant affine velocity; linear-ramp image warped by "
            "a world-affine flow; world-affine field evaluated at the target grid's world points; stored vectors at target points "
            "that coincide with samples of the field). Target grids of sample() are unrelated overlapping grids (any size, or the "
            "size of the source) and grids derived from the field's own grid - same domain at another size (resize, reshape, "
            "downsample, upsample, corners or extent kept), same grid with the other align_corners flag, cropped / padded / "
            "region-of-interest / narrowed sub-domains, translated and mirrored copies - built from a float64 descriptor or with "
            "deepali's own Grid methods, passed as one grid, a sequence of one or of N grids, or as normalised coordinates (per "
            "item or shared, grid-shaped or point lists); (2d) the image operations a flow field inherits (resize, downsample, "
            "upsample, avg_pool, crop, pad, center_crop, center_pad, region_of_interest) are judged like sample() on the derived grid, one "
            "representation per case against the WORLD-axes run; (3) exported with sitk()/write and read back with an independent "
            "reader. Exploration with Hypothesis, no absence proof.",
    "note": "Trusted: vlib/ref.py GridModel (float64 numpy; self-tested against SimpleITK in C02), the affine closed form of "
            "props/c11.py, SimpleITK as independent reader of exported fields. Tolerances are 64 (conversions) or 256 (flow "
            "operations) times eps32 times a condition term computed from the reference model, because deepali keeps grid "
            "attributes in float32. File round trip only through SimpleITK-backed formats (NRRD); MetaImage/NIfTI belong to C18. "
            "Grids derived with Grid methods must agree with the float64 model of the derivation to 64 eps32 (else the case is "
            "skipped and counted: the derivation itself is C03's subject).",
    "technique": "property-based testing (Hypothesis) with a float64 reference model, closed-form oracles and metamorphic "
                 "representation-independence relations",
}
ASSUMPTIONS = [
    "grids: size 2..10 per axis (cube axes need n >= 2), spacing in [0.1, 10], |center| <= 200 (<= 30 in the resampling facet, "
    "where float32 world coordinates of the point map - C01/C02's subject - would otherwise dominate the bound), |det direction| = 1",
    "a case counts as non-trivial only if its derived bound is <= 2 % of the displacement effect it guards (exp/warp_image/sample/regrid)",
    "fields are generated in sample units of their own grid (affine |M| <= 0.3, |t| <= 1.5 samples; smooth/noise amplitude <= 2 "
    "samples) and expressed in each representation with the float64 model, so 'world-affine' holds by construction",
    "image warping assumes that image and flow field share the sampling grid (warp_image() never reads the grid of the image; an "
    "image on another grid is sampled as if it were on the flow grid, which no representation can make right); the image grid may "
    "carry the other align_corners flag (equal grids in the sense of Grid.__eq__); interpolation is "
    "linear with zeros/border padding (scalar padding constants and reflect padding are representation dependent by definition)",
    "exp(): closed form only for constructed invariant affine velocities with scale > 0; smooth velocities (Lipschitz constant "
    "<= 0.6 samples/sample before scaling) are compared across representations only (C11 pins the core expv)",
    "FlowFields.sample(Tensor) returns the stored vectors (axes r of the old grid) without rescaling, as documented; the "
    "normalised coordinates are read in the cube convention of the align_corners flag of the first grid of the batch",
    "sample(mode='nearest'): only representation independence and the stored vectors at coinciding samples are asserted (the "
    "sampling positions do not depend on the representation)",
    "derived target grids have integer sizes: downsample() only along axes of even size >= 4 (Grid keeps fractional sizes "
    "otherwise, which the float64 model does not cover); resample(spacing) and pyramid() are not generated for the same reason",
    "regrid facet: the result is read with the axes label it reports (keeping the label and re-expressing the vectors, or "
    "switching to WORLD, would both be accepted); violation kinds carry the representation and which domain the operation keeps, so "
    "that each combination is matched separately; downsample/upsample smooth the field, so only resize and avg_pool are pinned to "
    "the affine closed form; tensor-named operations (narrow, flip, indexing) are pinned to plain torch values in C19 and not judged here",
    "fields given in different representations: from_images(), torch.cat and + of such fields must raise ValueError (as the code "
    "documents) or yield the consistent world-space result; only silent relabelling is a violation",
]

AX = ["grid", "cube", "cube_corners", "world"]
KC = 64.0   # pure vector conversions
KO = 256.0  # flow operations (DESIGN 6/C10: 256 eps32 * scale)
GRID_KW = dict(mag=200.0, spacing_lo=0.1, spacing_hi=10.0,
               kinds=("identity", "perm", "rotation", "rotation", "rotation", "rotation", "reflection", "reflection"))


def _A(name):
    from deepali.core import Axes

    return Axes(name)


def _eps(dt) -> float:
    return max(EPS32, eps_of(dt))


def selftest():
    g = {"size": [5, 4], "spacing": [2.0, 0.5], "center": [10.0, -3.0], "rot": [0.3], "perm": [1, 0], "flip": [1, -1], "ac": False}
    m = ref.GridModel.from_desc(g)
    v = np.array([[1.0, -2.0], [0.25, 0.5]])
    for a in AX:
        for b in AX:
            assert np.allclose(m.vectors(m.vectors(v, a, b), b, a), v)
            # vector map = difference of the point map
            p = np.array([[0.3, -0.2]])
            assert np.allclose(m.points(p + v, a, b) - m.points(p, a, b), m.vectors(v, a, b))
    assert np.allclose(m.vectors(v, "grid", "cube"), v * 2 / m.n)
    assert np.allclose(m.vectors(v, "grid", "cube_corners"), v * 2 / (m.n - 1))
    assert np.allclose(m.vectors(v, "grid", "world"), v @ (m.R @ np.diag(m.s)).T)
    # index-relative affine field is world-affine with M_w = A M A^-1 about the grid centre
    f = {"type": "affine", "M": [0.1, -0.2, 0.05, 0.3], "t": [0.5, -1.0]}
    Mw, tw = world_affine(f, m, 0)
    uw = m.vectors(index_field(f, m, 0), "grid", "world")
    assert np.allclose(uw, (m.world_points() - m.c) @ Mw.T + tw)


# ---------------------------------------------------------------------------------------
# generators


@st.composite
def one_grid(draw, D: int, min_size: int, max_size: int, mag=None):
    """gen.grids with the share of anisotropic spacings raised to ~5/6 (the shared strategy has 1/3 isotropic)."""
    g = draw(gen.grids(D, min_size=min_size, max_size=max_size, **(GRID_KW if mag is None else dict(GRID_KW, mag=mag))))
    if draw(st.integers(0, 3)) > 0:
        g["spacing"] = draw(st.lists(gen.logfloat(GRID_KW["spacing_lo"], GRID_KW["spacing_hi"]), min_size=D, max_size=D))
    return g


@st.composite
def grid_sets(draw, D: int, max_size: int, near: bool = False, min_size: int = 2):
    """N flow-field grids of equal size: one shared grid, or per-field distinct grids.

    near=True (resampling facet): centres of the distinct grids within a few samples of each other so that one target grid
    overlaps all fields, and |center| <= 30 so that the float32 world coordinates of the point map (error eps32*|x|/spacing
    samples, C01/C02's subject) do not swamp the vector effects this property is about."""
    mag = 30.0 if near else None
    N = draw(st.sampled_from([1, 1, 2, 2, 3]))
    kind = draw(st.sampled_from(["FlowField", "FlowFields"])) if N == 1 else "FlowFields"
    g0 = draw(one_grid(D, min_size, max_size, mag))
    gs = [g0]
    if N > 1 and draw(st.sampled_from([True, True, False])):
        for _ in range(1, N):
            gb = draw(one_grid(D, min_size, max_size, mag))
            gb["size"] = list(g0["size"])
            if near:  # centres within a few samples of each other so that one target grid overlaps all fields
                off = draw(st.lists(gen.qfloat(-1.5, 1.5, 0.01), min_size=D, max_size=D))
                gb["center"] = [round(c + o * min(g0["spacing"]), 4) for c, o in zip(g0["center"], off)]
            gs.append(gb)
    return {"N": N, "kind": kind, "grids": gs}


def fields(D: int, kinds=("affine", "smooth", "noise")):
    opts = {
        "affine": st.fixed_dictionaries({"type": st.just("affine"),
                                         "M": st.lists(gen.qfloat(-0.3, 0.3, 0.01), min_size=D * D, max_size=D * D),
                                         "t": st.lists(gen.qfloat(-1.5, 1.5, 0.01), min_size=D, max_size=D)}),
        "smooth": st.fixed_dictionaries({"type": st.just("smooth"),
                                         "waves": st.lists(st.integers(1, 2), min_size=D, max_size=D),
                                         "amp": gen.qfloat(0.1, 1.5, 0.05)}),
        # smooth field whose amplitude is chosen per grid such that its Lipschitz constant (samples per sample) is `lip`
        "smoothl": st.fixed_dictionaries({"type": st.just("smooth"),
                                          "waves": st.lists(st.integers(1, 2), min_size=D, max_size=D),
                                          "lip": gen.qfloat(0.05, 0.6, 0.01)}),
        "noise": st.fixed_dictionaries({"type": st.just("noise"), "key": st.integers(0, 10 ** 6), "amp": gen.qfloat(0.1, 2.0, 0.1)}),
    }
    return st.one_of([opts[k] for k in kinds])


def wave_field(shape, waves, amp: float, phase: float = 0.4) -> np.ndarray:
    """amp * prod_axes sin(pi w t + phase), t in [0,1] along each axis (does not vanish at the boundary)."""
    D = len(shape)
    out = np.full(shape, float(amp))
    for ax in range(D):
        n = shape[ax]
        t = np.arange(n, dtype=np.float64) / max(n - 1, 1)
        sh = [1] * D
        sh[ax] = n
        out = out * np.sin(np.pi * waves[ax] * t + phase).reshape(sh)
    return out


def smooth_amp(field: dict, m: ref.GridModel) -> float:
    """Amplitude (samples) of a smooth field: given, or derived from the requested Lipschitz constant."""
    if "lip" in field:
        return min(2.0, field["lip"] * max(float(m.n.min()) - 1, 1.0) / (math.pi * m.D * max(field["waves"])))
    return float(field["amp"])


def index_field(field: dict, m: ref.GridModel, b: int) -> np.ndarray:
    """Vector field of batch item b in sample units of its grid, array (..., X, D), (x, ...) component order."""
    D = m.D
    shape = tuple(int(v) for v in m.n[::-1])
    k = 1.0 / (b + 1)
    if field["type"] == "affine":
        Mi = np.array(field["M"], dtype=np.float64).reshape(D, D) * k
        ti = np.array(field["t"], dtype=np.float64) * k
        return (m.index_points() - (m.n - 1) / 2) @ Mi.T + ti
    if field["type"] == "smooth":
        comps = [wave_field(shape, [field["waves"][(c + j) % D] for j in range(D)], smooth_amp(field, m) * k * (1 - 0.3 * c), 0.4 + 0.5 * c)
                 for c in range(D)]
        return np.stack(comps, axis=-1)
    a = field["amp"]
    return hash_noise(shape + (D,), field["key"] + b, -a, a)


def world_affine(field: dict, m: ref.GridModel, b: int):
    """(M_w, t_w) with u_w(x) = M_w (x - c) + t_w for the index-relative affine field of item b."""
    D = m.D
    k = 1.0 / (b + 1)
    Mi = np.array(field["M"], dtype=np.float64).reshape(D, D) * k
    ti = np.array(field["t"], dtype=np.float64) * k
    return m.A @ Mi @ np.linalg.inv(m.A), m.A @ ti


def field_lipschitz(field: dict, m: ref.GridModel) -> float:
    """Bound of the change of the index-unit field per index step (inf-norm, sum over axes)."""
    D = m.D
    if field["type"] == "affine":
        return float(np.abs(np.array(field["M"]).reshape(D, D)).sum(1).max())
    if field["type"] == "smooth":
        return float(smooth_amp(field, m) * math.pi * D * max(field["waves"]) / max(float(m.n.min()) - 1, 1.0))
    return 2.0 * field["amp"] * D


def chfirst(a: np.ndarray) -> np.ndarray:
    return np.moveaxis(a, -1, 0)


def setup(case):
    """models and deepali grids per batch item (shared grid: same object repeated)."""
    N = case["N"]
    ms = [ref.GridModel.from_desc(g) for g in case["grids"]]
    gr = [make_grid(g) for g in case["grids"]]
    if len(ms) == 1:
        ms, gr = ms * N, gr * N
    return ms, gr


# How the flow object handed to the operation under test was obtained (the representation label must survive each of them).
ROUTES = ["direct", "direct", "direct", "items", "clone", "index"]


def build_flow(case, reps, axes_name, gr, dt, default_axes=False):
    """FlowField / FlowFields holding the per-item arrays `reps` (..., X, D), labelled with axes `axes_name`.

    route "direct": constructor; "items": FlowFields.from_images(list of FlowField) / FlowField.from_image(Image, axes);
    "clone": clone() of the constructed object; "index": sub-batch batch[0:N] of a longer batch (FlowField.batch() if N = 1) /
    item batch[0] of a FlowFields batch."""
    from deepali.data import FlowField, FlowFields, Image

    ax = None if default_axes else _A(axes_name)
    route = "direct" if default_axes else case.get("route", "direct")
    shared = len(case["grids"]) == 1
    if case["kind"] == "FlowField":
        x = torch.tensor(chfirst(reps[0]), dtype=dt)
        if route == "items":
            return FlowField.from_image(Image(x, gr[0]), axes=ax)
        if route == "index":
            return FlowFields(x.unsqueeze(0), [gr[0]], ax)[0]
        f = FlowField(x, gr[0], ax)
        return f.clone() if route == "clone" else f
    data = torch.tensor(np.stack([chfirst(r) for r in reps]), dtype=dt)
    if route == "items":
        return FlowFields.from_images([FlowField(data[i], gr[i], ax) for i in range(len(reps))])
    if route == "index":
        if len(reps) == 1:
            return FlowField(data[0], gr[0], ax).batch()
        more = FlowFields(torch.cat([data, -data[:1]], dim=0), list(gr) + [gr[0]], ax)
        return more[0 : len(reps)]
    f = FlowFields(data, gr[0] if shared else list(gr), ax)
    return f.clone() if route == "clone" else f


def items(obj):
    """Per-item arrays (..., X, C) in float64 of an Image/FlowField or a batch."""
    from deepali.data import Image

    t = obj.tensor().detach().double().numpy()
    if isinstance(obj, Image):
        return [np.moveaxis(t, 0, -1)]
    return [np.moveaxis(x, 0, -1) for x in t]


def result_grids(obj):
    from deepali.data import Image

    return [obj.grid()] if isinstance(obj, Image) else list(obj.grids())


def check_struct(res, like, n: int, grids, axes_name, dt, what: str):
    """Result container: type, batch size, one grid per item equal to the expected grid, axes, dtype."""
    if type(res) is not type(like):
        raise Violation(what + "_result_type", f"{what}: {type(like).__name__} gave {type(res).__name__}")
    its = items(res)
    if len(its) != n:
        raise Violation(what + "_batch_size", f"{what}: result has {len(its)} items for a batch of {n}")
    rg = result_grids(res)
    if len(rg) != n:
        raise Violation(what + "_grid_count", f"{what}: result has {len(rg)} grids for {n} items")
    for b, (g, e) in enumerate(zip(rg, grids)):
        if not (g == e) or tuple(g.shape) != tuple(its[b].shape[:-1]):
            raise Violation(what + "_result_grid", f"{what}: grid of item {b} is {g!r}, expected {e!r}")
    if axes_name is not None and res.axes() is not _A(axes_name):
        raise Violation(what + "_result_axes", f"{what}: result reports axes {res.axes()} instead of {axes_name}")
    if res.dtype != dt:
        raise Violation(what + "_result_dtype", f"{what}: dtype {res.dtype} for input {dt}")
    return its


def absmat(m: ref.GridModel, a: str, b: str, to=None) -> np.ndarray:
    return np.abs(m.matrix(a, b, to)[: m.D, : m.D])


def conv_scale(m: ref.GridModel, v: np.ndarray, a: str, b: str, to=None) -> float:
    """max_i sum_j |M_ij| |v_j| : the magnitude eps is relative to in y = M v."""
    return max(1e-30, float((np.abs(v).reshape(-1, m.D) @ absmat(m, a, b, to).T).max()))


def kappa(m: ref.GridModel) -> np.ndarray:
    """|A| |A^-1| = |R| |R^T|: world-unit error per unit of eps*|u_w| when vectors pass through grid-aligned axes."""
    return np.abs(m.R) @ np.abs(m.R.T)


def kappa_idx(m: ref.GridModel) -> np.ndarray:
    """|A^-1| |A| = diag(1/s) |R^T| |R| diag(s): index-unit error per unit of eps*|u_idx| when vectors pass through
    world axes (a float32 world vector of a coarse-axis displacement has an error of s_coarse/s_fine samples along an
    oblique fine axis)."""
    return np.abs(np.linalg.inv(m.A)) @ np.abs(m.A)


def cond_vec(m: ref.GridModel) -> float:
    return float(max(kappa(m).sum(1).max(), kappa_idx(m).sum(1).max()))


def given_in(case, ms, gr, dt, r: str, u_idx):
    """The flow object with vectors given w.r.t. axes r: from the model, or through deepali's own axes()."""
    if case.get("src", "model") == "axes" and r != "world":
        fw = build_flow(case, [m.vectors(u, "grid", "world") for m, u in zip(ms, u_idx)], "world", gr, dt)
        return fw.axes(_A(r))
    return build_flow(case, [m.vectors(u, "grid", r) for m, u in zip(ms, u_idx)], r, gr, dt)


def grid_labels(case):
    gs = case["grids"]
    obl = all(gen.grid_is_oblique(g) for g in gs)
    ani = all(gen.grid_is_anisotropic(g) for g in gs)
    distinct = len(gs) > 1 and any(g != gs[0] for g in gs[1:])
    labs = [case["kind"], f"N={case['N']}", "grids=distinct" if distinct else "grids=shared", f"D={case['D']}", case["dtype"],
            "oblique" if obl else "axis-aligned", "aniso" if ani else "iso",
            "ac=" + "".join("T" if g["ac"] else "F" for g in gs)]
    return labs, obl and ani, distinct


# ---------------------------------------------------------------------------------------
# (1) axes(a).axes(b): model vector map, round trip, path independence


@st.composite
def axes_cases(draw):
    D = draw(gen.dims())
    case = draw(grid_sets(D, 10 if D == 2 else 6))
    case.update({"D": D, "a": draw(st.sampled_from(AX)), "b": draw(st.sampled_from(AX)), "c": draw(st.sampled_from(AX)),
                 "dtype": draw(gen.dtypes()), "field": draw(fields(D)), "ctor": draw(st.sampled_from(["explicit", "default"])),
                 "route": draw(st.sampled_from(ROUTES))})
    return case


def run_axes(case):
    ms, gr = setup(case)
    N, dt = case["N"], tdtype(case["dtype"])
    eps = _eps(dt)
    a, b, c = case["a"], case["b"], case["c"]
    u_idx = [index_field(case["field"], m, i) for i, m in enumerate(ms)]
    va = [m.vectors(u, "grid", a) for m, u in zip(ms, u_idx)]
    dflt = "cube_corners" if case["grids"][0]["ac"] else "cube"
    use_default = case["ctor"] == "default" and a == dflt
    f = build_flow(case, va, a, gr, dt, default_axes=use_default)
    if f.axes() is not _A(a):
        raise Violation("constructor_axes", f"constructed with axes={'None' if use_default else a}: axes() = {f.axes()}")
    f0 = f.tensor().clone()
    fb = f.axes(_A(b))
    ib = check_struct(fb, f, N, gr, b, dt, "axes")
    worst = 0.0
    for i, m in enumerate(ms):
        sab = conv_scale(m, va[i], a, b)
        worst = max(worst, check_close(ib[i], m.vectors(va[i], a, b), KC * eps * sab, "axes_vs_model",
                                       f"{case['kind']}.axes({b}) of {a} vectors, item {i}"))
    back = f.axes(_A(b)).axes(_A(a))
    ia = check_struct(back, f, N, gr, a, dt, "axes")
    direct = f.axes(_A(c))
    via = fb.axes(_A(c))
    ic, iv = check_struct(direct, f, N, gr, c, dt, "axes"), check_struct(via, f, N, gr, c, dt, "axes")
    for i, m in enumerate(ms):
        vb = m.vectors(va[i], a, b)
        eab = KC * eps * conv_scale(m, va[i], a, b)
        # an error e in b-space maps to |M_ba| e in a-space
        bnd = eab * float(absmat(m, b, a).sum(1).max()) + KC * eps * conv_scale(m, vb, b, a)
        worst = max(worst, check_close(ia[i], va[i], bnd, "axes_roundtrip", f"{a}->{b}->{a}, item {i}"))
        bnd = KC * eps * conv_scale(m, va[i], a, c) + eab * float(absmat(m, b, c).sum(1).max()) + KC * eps * conv_scale(m, vb, b, c)
        worst = max(worst, check_close(iv[i], ic[i], bnd, "axes_path_dependent", f"{a}->{c} vs {a}->{b}->{c}, item {i}"))
    if not torch.equal(f.tensor(), f0) or f.axes() is not _A(a):
        raise Violation("input_modified", "axes() modified the flow field it was called on")
    if a != c:
        mixed_axes(case, ms, gr, dt, eps, f, va, a, c)
    labs, objq, distinct = grid_labels(case)
    nt = objq and a != b and (N == 1 or distinct)
    return {"ratio": worst, "nontrivial": nt, "labels": labs + [f"{a}->{b}", "field=" + case["field"]["type"], "ctor=" + ("default" if use_default else "explicit"),
                                                                "route=" + ("direct" if use_default else case.get("route", "direct"))]}


def mixed_axes(case, ms, gr, dt, eps, f, va, a: str, c: str):
    """Fields given in different representations cannot be combined as they are: deepali documents a ValueError.  Either that,
    or the combination is expressed consistently - but never vectors of one representation under the label of another."""
    from deepali.data import FlowField, FlowFields

    N = case["N"]
    uw = [m.vectors(v, a, "world") for m, v in zip(ms, va)]
    vc = [m.vectors(v, a, c) for m, v in zip(ms, va)]

    def world_of(obj, scale, what, kind):
        its = items(obj)
        q = obj.axes().value
        for i, m in enumerate(ms[: len(its)]):
            bnd = KC * eps * scale * (conv_scale(m, va[i], a, "world") + conv_scale(m, vc[i], c, "world"))
            check_close(m.vectors(its[i], q, "world"), scale * uw[i], 2 * bnd, kind, f"{what} (result labelled {q}), item {i}")

    g = build_flow(case, vc, c, gr, dt)
    try:
        z = f + g
    except ValueError:
        z = None
    if isinstance(z, (FlowField, FlowFields)):
        world_of(z, 2.0, f"sum of the field in {a} axes and the same field in {c} axes", "mixed_axes_sum_mislabelled")
    if case["kind"] == "FlowFields":
        parts = [FlowField(torch.tensor(chfirst(va[0]), dtype=dt), gr[0], _A(a))]
        parts += [FlowField(torch.tensor(chfirst(vc[i]), dtype=dt), gr[i], _A(c)) for i in range(1, N)]
        parts.append(FlowField(torch.tensor(chfirst(vc[0]), dtype=dt), gr[0], _A(c)))
        try:
            z = FlowFields.from_images(parts)
        except ValueError:
            z = None
        if z is not None:
            its = items(z)
            q = z.axes().value
            mm, exp = list(ms) + [ms[0]], list(uw) + [uw[0]]
            for i in range(len(its)):
                bnd = KC * eps * (conv_scale(mm[i], va[i % N], a, "world") + conv_scale(mm[i], vc[i % N], c, "world"))
                check_close(mm[i].vectors(its[i], q, "world"), exp[i], 2 * bnd, "mixed_axes_batch_mislabelled",
                            f"from_images() of fields in {a} and {c} axes (result labelled {q}), item {i}")
        try:
            z = torch.cat([f, g], dim=0)
        except ValueError:
            z = None
        if isinstance(z, FlowFields):
            its = items(z)
            q = z.axes().value
            for i in range(len(its)):
                j = i % N
                bnd = KC * eps * (conv_scale(ms[j], va[j], a, "world") + conv_scale(ms[j], vc[j], c, "world"))
                check_close(ms[j].vectors(its[i], q, "world"), uw[j], 2 * bnd, "mixed_axes_batch_mislabelled",
                            f"torch.cat of batches in {a} and {c} axes (result labelled {q}), item {i}")


# ---------------------------------------------------------------------------------------
# (2a) exp(): same world result in every representation; closed form for invariant affine velocities


@st.composite
def exp_cases(draw):
    D = draw(gen.dims())
    case = draw(grid_sets(D, 9 if D == 2 else 6))
    ftype = draw(st.sampled_from(["affine", "affine", "smooth"]))
    case.update({"D": D, "dtype": draw(gen.dtypes()), "ftype": ftype, "src": draw(st.sampled_from(["model", "model", "axes"])),
                 "steps": draw(st.one_of(st.none(), st.integers(0, 6))), "route": draw(st.sampled_from(ROUTES))})
    if ftype == "affine":
        case.update({
            "gac": draw(st.booleans()),
            "M": draw(st.lists(gen.qfloat(-0.5, 0.5, 0.01), min_size=D * D, max_size=D * D)),
            "t": draw(st.lists(gen.qfloat(-0.3, 0.3, 0.01), min_size=D, max_size=D)),
            "m1": draw(st.lists(gen.qfloat(0.0, 1.0, 0.05), min_size=D, max_size=D)),
            "m2": draw(st.lists(gen.qfloat(0.0, 0.3, 0.05), min_size=D, max_size=D)),
            "scale": draw(st.one_of(st.none(), st.sampled_from([1.0, 0.5, 2.0]), gen.qfloat(0.1, 2.0, 0.01))),
        })
    else:
        case.update({"field": draw(fields(D, ("smoothl",))),
                     "scale": draw(st.one_of(st.none(), gen.qfloat(0.1, 1.5, 0.01), gen.qfloat(-1.5, -0.1, 0.01)))})
    return case


def run_exp(case):
    ms, gr = setup(case)
    D, N, dt = case["D"], case["N"], tdtype(case["dtype"])
    eps = _eps(dt)
    scale = case["scale"]
    s = 1.0 if scale is None else float(scale)
    size = case["grids"][0]["size"]
    shape = list(size[::-1])
    steps = 5 if case["steps"] is None else case["steps"]
    expect_w = None
    if case["ftype"] == "affine":
        cg = "cube_corners" if case["gac"] else "cube"
        x = cube_coords(shape, case["gac"])
        H0 = build_generator({"D": D, "shape": shape, "ac": case["gac"], "M": case["M"], "t": case["t"], "m1": case["m1"], "m2": case["m2"]})
        Hs = [H0 / (i + 1) for i in range(N)]
        for H in Hs:
            steps = min_steps(H, s, steps)
        u_idx = [m.vectors(x @ H[:, :D].T + H[:, D], cg, "grid") for m, H in zip(ms, Hs)]
        expect_w, bounds = [], []
        for m, H in zip(ms, Hs):
            P = ref.sas_power(H, steps, s)
            expect_w.append(m.vectors(x @ (P[:D, :D] - np.eye(D)).T + P[:D, D], cg, "world"))
            mag = max(1.0, float(np.abs(H).sum(1).max()) * abs(s))
            Lw = float(absmat(m, cg, "world").sum(1).max())
            bounds.append(KO * eps * (steps + 1) * mag * Lw * cond_vec(m))
    else:
        u_idx = [index_field(case["field"], m, i) for i, m in enumerate(ms)]
        bounds = []
        for m, u in zip(ms, u_idx):
            # index units: input/output conversions cond_vec*amp; each squaring step samples the current displacement
            # (Lipschitz L_j <= 2^j lip/2^k e^lip) at coordinates of magnitude n/2 and adds vectors of magnitude <= amp;
            # relative to the doubling magnitudes a perturbation grows by (1 + L_j/2) per step, <= exp(lip e^lip / 2) overall
            amp = float(np.abs(u).max()) * abs(s)
            lip = field_lipschitz(case["field"], m) * abs(s)
            Lw = float(np.abs(m.A).sum(1).max())
            growth = math.exp(0.5 * lip * math.exp(lip))
            bounds.append(KO * eps * growth * (2 * cond_vec(m) * amp + (steps + 1) * (lip * float(m.n.max()) / 2 + amp)) * Lw)
    kw = {}
    if scale is not None:
        kw["scale"] = scale
    if case["steps"] is None and steps == 5:
        pass
    else:
        kw["steps"] = steps
    world = {}
    worst = 0.0
    for r in AX:
        f = given_in(case, ms, gr, dt, r, u_idx)
        f0 = f.tensor().clone()
        out = f.exp(**kw)
        io = check_struct(out, f, N, gr, r, dt, "exp")
        if not torch.equal(f.tensor(), f0):
            raise Violation("input_modified", "exp() modified the flow field it was called on")
        world[r] = [m.vectors(o, r, "world") for m, o in zip(ms, io)]
        if expect_w is not None:
            for i in range(N):
                worst = max(worst, check_close(world[r][i], expect_w[i], bounds[i], "exp_closed_form",
                                               f"exp(scale={scale}, steps={kw.get('steps')}) of {r} vectors (item {i}) vs (I+sH/2^k)^(2^k)"))
        ow = items(out.axes(_A("world")))
        for i, m in enumerate(ms):
            check_close(ow[i], world[r][i], KC * eps * conv_scale(m, io[i], r, "world"), "exp_result_to_world",
                        f"exp() result in {r} axes converted with axes(WORLD), item {i}")
    for r in AX:
        for i in range(N):
            worst = max(worst, check_close(world[r][i], world["cube"][i], 2 * bounds[i], "exp_representation_dependent",
                                           f"world result of exp() for input in {r} axes vs cube axes, item {i}"))
    labs, objq, distinct = grid_labels(case)
    moving = max(float(np.abs(u).max()) for u in u_idx) > 1e-3
    # the bound must be small against the displacement it guards (tiny grids with steep smooth fields give e^lip >> 1)
    tight = all(bounds[i] <= 0.02 * float(np.abs(world["cube"][i]).max()) for i in range(N))
    return {"ratio": worst, "nontrivial": objq and moving and tight and steps >= 1 and (N == 1 or distinct),
            "labels": labs + ["field=" + case["ftype"], f"steps={steps}", "steps_arg=" + ("default" if "steps" not in kw else "given"),
                              "scale=" + ("default" if scale is None else "given"), "src=" + case["src"],
                              "route=" + case.get("route", "direct")]}


# ---------------------------------------------------------------------------------------
# (2b) warp_image(): linear-ramp image, same grid as the flow field


@st.composite
def warp_cases(draw):
    D = draw(gen.dims())
    case = draw(grid_sets(D, 10 if D == 2 else 6))
    shared = len(case["grids"]) == 1
    forms = ["Image", "ImageBatch"] if shared else ["ImageBatch"]
    if case["N"] == 1:
        forms.append("ImageBatchK")  # one flow field applied to a batch of K images
    C = draw(st.integers(1, 2))
    case.update({"D": D, "dtype": draw(gen.dtypes()), "field": draw(fields(D, ("affine", "affine", "smooth"))),
                 "src": draw(st.sampled_from(["model", "model", "axes"])),
                 "image": draw(st.sampled_from(forms)), "K": draw(st.integers(2, 3)), "C": C,
                 "alpha": draw(st.lists(gen.qfloat(-3.0, 3.0, 0.01), min_size=C * D, max_size=C * D)),
                 "beta": draw(st.lists(gen.qfloat(-10.0, 10.0, 0.1), min_size=C, max_size=C)),
                 "sampling": draw(st.sampled_from([None, "linear"])),
                 "padding": draw(st.sampled_from([None, "zeros", "border"])),
                 "route": draw(st.sampled_from(ROUTES)), "img_ac": draw(st.sampled_from(["same", "same", "flip"]))})
    return case


def ramp_params(case, j: int):
    C, D = case["C"], case["D"]
    alpha = np.array(case["alpha"], dtype=np.float64).reshape(C, D) * (1 + 0.5 * j)
    beta = np.array(case["beta"], dtype=np.float64) + j
    return alpha, beta


def run_warp(case):
    from deepali.data import Image, ImageBatch

    ms, gr = setup(case)
    D, N, dt = case["D"], case["N"], tdtype(case["dtype"])
    eps = _eps(dt)
    u_idx = [index_field(case["field"], m, i) for i, m in enumerate(ms)]
    form = case["image"]
    n_img = {"Image": 1, "ImageBatch": N, "ImageBatchK": case["K"]}[form]
    n_out = max(N, n_img)
    # image j lives on the grid of flow item j (all grids equal unless N == n_img)
    ic = [(ms[min(j, N - 1)].index_points() - (ms[min(j, N - 1)].n - 1) / 2) for j in range(n_img)]
    ramps = []
    for j in range(n_img):
        alpha, beta = ramp_params(case, j)
        ramps.append(ic[j] @ alpha.T + beta)  # (..., X, C)
    # the image grids are the flow grids; "flip": equal grids (Grid.__eq__) that carry the other align_corners flag, which
    # only says how the *image* would be resized and must not change how the flow vectors are read
    gimg = [g.align_corners(not g.align_corners()) for g in gr] if case.get("img_ac") == "flip" else gr
    if form == "Image":
        image = Image(torch.tensor(chfirst(ramps[0]), dtype=dt), gimg[0])
    else:
        gi = [gimg[min(j, N - 1)] for j in range(n_img)]
        image = ImageBatch(torch.tensor(np.stack([chfirst(x) for x in ramps]), dtype=dt), gi)
    kw = {}
    if case["sampling"] is not None:
        kw["sampling"] = case["sampling"]
    if case["padding"] is not None:
        kw["padding"] = case["padding"]
    # closed form, output item k: flow item min(k, N-1), image min(k, n_img-1)
    expect, inside, bounds, signal = [], [], [], []
    for k in range(n_out):
        fi, ii = min(k, N - 1), min(k, n_img - 1)
        m = ms[fi]
        alpha, beta = ramp_params(case, ii)
        j = m.index_points() + u_idx[fi]
        expect.append((j - (m.n - 1) / 2) @ alpha.T + beta)
        inside.append(np.all((j >= 0) & (j <= m.n - 1), axis=-1))
        # index error: coordinates of magnitude n plus the conversion of the vectors (componentwise condition |A^-1||A|)
        uterm = float((np.abs(u_idx[fi]).reshape(-1, D) @ kappa_idx(m).T).max())
        gsum = float(np.abs(alpha).sum(1).max())
        imax = float(np.abs(ramps[ii]).max())
        if case["padding"] in (None, "zeros"):
            gsum += imax  # zero padding: the image drops from its boundary value to 0 within one sample
        bounds.append(KO * eps * ((float(m.n.max()) + uterm) * gsum + imax))
        signal.append(float(np.abs(u_idx[fi] @ alpha.T).max()))  # intensity change caused by the displacement
    outs = {}
    worst = 0.0
    for r in AX:
        f = given_in(case, ms, gr, dt, r, u_idx)
        f0 = f.tensor().clone()
        out = f.warp_image(image, **kw)
        single = case["kind"] == "FlowField" and form == "Image"
        want = Image if single else ImageBatch
        if type(out) is not want:
            raise Violation("warp_result_type", f"{case['kind']}.warp_image({form}) returned {type(out).__name__}")
        io = items(out)
        if len(io) != n_out:
            raise Violation("warp_batch_size", f"{case['kind']}(N={N}).warp_image({form} of {n_img}) returned {len(io)} images")
        rg = result_grids(out)
        if len(rg) != n_out:
            raise Violation("warp_batch_grid_count", f"{case['kind']}(N={N}).warp_image({form} of {n_img}): {len(io)} images but {len(rg)} grids")
        for k in range(n_out):
            if not (rg[k] == gr[min(k, N - 1)]):
                raise Violation("warp_result_grid", f"output image {k} is not on the grid of its flow field")
            if io[k].shape != expect[k].shape:
                raise Violation("warp_result_shape", f"output image {k} has shape {io[k].shape}, expected {expect[k].shape}")
        if not torch.equal(f.tensor(), f0):
            raise Violation("input_modified", "warp_image() modified the flow field")
        outs[r] = io
        if case["field"]["type"] == "affine":
            for k in range(n_out):
                msk = inside[k]
                if msk.any():
                    worst = max(worst, check_close(io[k][msk], expect[k][msk], bounds[k], "warp_closed_form",
                                                   f"ramp image warped by world-affine flow given in {r} axes, output {k}"))
    for r in AX:
        for k in range(n_out):
            worst = max(worst, check_close(outs[r][k], outs["cube"][k], 2 * bounds[k], "warp_representation_dependent",
                                           f"warp_image() for flow given in {r} axes vs cube axes, output {k}"))
    n_inside = int(sum(int(x.sum()) for x in inside))
    labs, objq, distinct = grid_labels(case)
    moving = max(float(np.abs(u).max()) for u in u_idx) > 0.05
    tight = all(b <= 0.02 * sg for b, sg in zip(bounds, signal))
    return {"ratio": worst, "nontrivial": objq and moving and tight and n_inside >= 2 and (N == 1 or distinct or form == "Image"),
            "labels": labs + ["field=" + case["field"]["type"], "image=" + form, f"pad={case['padding']}", "src=" + case["src"],
                              "route=" + case.get("route", "direct"), "img_ac=" + case.get("img_ac", "same"),
                              "inside>=half" if n_inside * 2 >= sum(x.size for x in inside) else "inside<half"]}


# ---------------------------------------------------------------------------------------
# (2c, 3) sample(): resampling on other grids

# Relation of the target grid to the grid of the field it resamples.  "unrelated": any orientation / spacing / size with the
# centre inside the field; "samesize": unrelated, but with the number of samples of the source; the others are the grids a user
# derives from the field's own grid (same domain at another resolution, same grid with the other align_corners flag,
# cropped / padded sub-domains, translated or mirrored copies).
REL_CLASSES = ["unrelated", "unrelated", "samesize", "resize", "resize", "resize", "acflip", "crop", "crop", "translate", "mirror"]


def derive_target(g: dict, spec: dict) -> dict:
    """Descriptor of the grid obtained from grid descriptor g by the derivation `spec` (float64 arithmetic, no deepali).

    resize: same centre, new size m; spacing s (n-1)/(m-1) if corner points are preserved (align_corners), s n/m if the
    extent is preserved.  crop: per axis lo/hi samples removed (negative: added), spacing kept, centre moved by
    A (lo - hi)/2.  pool: windows of k samples.  translate: centre moved by A off (off in samples).  mirror: axis k
    reversed about the centre."""
    t = {k: (list(v) if isinstance(v, list) else v) for k, v in g.items()}
    n = np.array(g["size"], dtype=np.float64)
    s = np.array(g["spacing"], dtype=np.float64)
    m = ref.GridModel.from_desc(g)
    rel = spec["rel"]
    if rel == "resize":
        new = np.array(spec["size"], dtype=np.float64)
        keep_corners = g["ac"] if spec.get("rac") is None else spec["rac"]
        sp = s * (n - 1) / (new - 1) if keep_corners else s * n / new
        t["size"] = [int(v) for v in spec["size"]]
        t["spacing"] = [float(v) for v in sp]
    elif rel == "crop":
        lo = np.array([p[0] for p in spec["num"]], dtype=np.float64)
        hi = np.array([p[1] for p in spec["num"]], dtype=np.float64)
        t["size"] = [int(v) for v in (n - lo - hi)]
        t["center"] = [float(v) for v in (m.c + m.A @ ((lo - hi) / 2))]
    elif rel == "pool":  # non-overlapping windows of k samples: floor(n/k) samples at the window centres, spacing k s
        k = np.array(spec["k"], dtype=np.float64)
        new = np.floor(n / k)
        t["size"] = [int(v) for v in new]
        t["spacing"] = [float(v) for v in s * k]
        t["center"] = [float(v) for v in (m.o + m.A @ ((k - 1) / 2 + k * (new - 1) / 2))]
    elif rel == "translate":
        t["center"] = [float(v) for v in (m.c + m.A @ np.array(spec["off"], dtype=np.float64))]
    elif rel == "mirror":
        t["flip"][spec["axis"]] = -t["flip"][spec["axis"]]
    elif rel != "acflip":
        raise ValueError(rel)
    if spec.get("tac") is not None:
        t["ac"] = bool(spec["tac"])
    return t


def api_target(g, spec: dict):
    """The same derivation through deepali's own Grid methods (what a user would write); None if spec["via"] == "desc"."""
    via = spec.get("via", "desc")
    if via == "desc":
        return None
    rel = spec["rel"]
    if rel == "resize":
        kw = {} if spec.get("rac") is None else {"align_corners": spec["rac"]}
        size = [int(v) for v in spec["size"]]
        if via == "resize":
            t = g.resize(size, **kw)
        elif via == "resize_args":
            t = g.resize(*size, **kw)
        elif via == "reshape":
            t = g.reshape(size[::-1], **kw)
        elif via == "downsample":
            t = g.downsample(1, dims=spec.get("dims"), **kw)
        elif via == "upsample":
            t = g.upsample(1, dims=spec.get("dims"), **kw)
        else:
            raise ValueError(via)
    elif rel == "crop":
        num = [int(v) for p in spec["num"] for v in p]
        if via == "crop_num":
            t = g.crop(num=num)
        elif via == "pad_num":
            t = g.pad(num=[-v for v in num])
        elif via == "crop_margin":
            t = g.crop(margin=[int(p[0]) for p in spec["num"]])
        elif via == "pad_margin":
            t = g.pad(margin=[-int(p[0]) for p in spec["num"]])
        elif via == "center_crop" or via == "center_pad":
            size = [int(n - p[0] - p[1]) for n, p in zip(g.size(), spec["num"])]
            t = g.center_crop(size) if via == "center_crop" else g.center_pad(size)
        elif via == "narrow":
            (d,) = [i for i, p in enumerate(spec["num"]) if p[0] or p[1]]
            t = g.narrow(d, int(spec["num"][d][0]), int(g.size()[d] - spec["num"][d][0] - spec["num"][d][1]))
        elif via == "roi":
            t = g.region_of_interest([int(p[0]) for p in spec["num"]], [int(n - p[0] - p[1]) for n, p in zip(g.size(), spec["num"])])
        else:
            raise ValueError(via)
    elif rel == "acflip":
        t = g
    else:
        raise ValueError(rel)
    if spec.get("tac") is not None:
        t = t.align_corners(bool(spec["tac"]))
    return t


def grids_agree(g, t: ref.GridModel, eps: float = EPS32) -> bool:
    """deepali grid g (derived with Grid methods) equals the float64 model t of the same derivation, to float32 accuracy."""
    if [int(v) for v in g.size()] != [int(v) for v in t.n]:
        return False
    sp = g.spacing().double().numpy()
    R = g.direction().double().numpy()
    c = g.center().double().numpy()
    W = float(np.abs(t.c).max() + np.abs(t.s * t.n).sum())
    return bool(np.all(np.abs(sp - t.s) <= 64 * eps * t.s) and np.all(np.abs(R - t.R) <= 64 * eps) and np.all(np.abs(c - t.c) <= 64 * eps * W))


@st.composite
def target_specs(draw, D: int, size, rel: str):
    """Derivation of a related target grid from a source grid of the given size (the same spec is applied to every field)."""
    n = list(size)
    cap = 12 if D == 2 else 7
    spec = {"rel": rel, "via": "desc", "tac": draw(st.sampled_from([None, None, None, None, True, False]))}
    if rel == "resize":
        halve = [i for i, v in enumerate(n) if v % 2 == 0 and v >= 4]  # axes that downsample() halves to an integer size >= 2
        double = [i for i, v in enumerate(n) if 2 * v <= cap]
        vias = ["desc", "resize", "resize_args", "reshape"] + (["downsample"] * 2 if halve else []) + (["upsample"] * 2 if double else [])
        via = draw(st.sampled_from(vias))
        if via in ("downsample", "upsample"):
            ok = halve if via == "downsample" else double
            dims = draw(st.lists(st.sampled_from(ok), min_size=1, max_size=len(ok), unique=True).map(sorted))
            if len(dims) == D and draw(st.booleans()):
                dims = None  # default: all axes
            f = (lambda v: v // 2) if via == "downsample" else (lambda v: 2 * v)
            new = [f(v) if dims is None or i in dims else v for i, v in enumerate(n)]
            spec["dims"] = dims
        else:
            new = draw(st.lists(st.integers(2, cap), min_size=D, max_size=D))
            if new == n:
                new[0] = n[0] + 1 if n[0] < cap else n[0] - 1
        spec.update({"via": via, "size": new, "rac": draw(st.sampled_from([None, None, None, True, False]))})
    elif rel == "crop":
        form = draw(st.sampled_from(["num", "margin", "center", "narrow", "roi"]))
        if form == "narrow" and max(n) < 3:
            form = "num"
        if form == "narrow":  # one axis only, samples removed at either end
            d = draw(st.sampled_from([i for i, v in enumerate(n) if v >= 3]))
            lo = draw(st.integers(0, n[d] - 2))
            hi = draw(st.integers(0 if lo else 1, n[d] - 2 - lo))
            num = [[lo, hi] if i == d else [0, 0] for i in range(D)]
            via = draw(st.sampled_from(["narrow", "narrow", "narrow", "crop_num", "desc"]))
        elif form == "margin":  # symmetric, positive = crop, negative = pad
            mg = [draw(st.integers(-2, (v - 2) // 2)) for v in n]
            if not any(mg):
                mg[0] = -1
            num = [[v, v] for v in mg]
            via = draw(st.sampled_from(["crop_margin", "pad_margin", "crop_num", "desc"]))
        elif form == "center":  # center_crop(size) / center_pad(size)
            if draw(st.booleans()) and max(n) > 2:
                new = [draw(st.integers(2, v)) for v in n]
                if new == n:
                    d = n.index(max(n))
                    new[d] = n[d] - 1
                num = [[(a - b) // 2, (a - b) - (a - b) // 2] for a, b in zip(n, new)]
                via = "center_crop"
            else:
                new = [draw(st.integers(v, v + 3)) for v in n]
                if new == n:
                    new[0] = n[0] + 1
                num = [[-((b - a) // 2), -((b - a) - (b - a) // 2)] for a, b in zip(n, new)]
                via = "center_pad"
        else:  # per axis and side; region_of_interest(start, size) removes only, crop(num)/pad(num) take mixed signs
            low = 0 if form == "roi" and max(n) > 2 else -2
            num = []
            for v in n:
                lo = draw(st.integers(low, min(2, v - 2)))
                hi = draw(st.integers(low, min(2, v - 2 - lo)))
                num.append([lo, hi])
            if not any(v for p in num for v in p):
                d = n.index(max(n))
                num[d][1] = 1 if low == 0 else -1
            via = "roi" if low == 0 else draw(st.sampled_from(["crop_num", "crop_num", "pad_num", "desc"]))
        spec.update({"via": via, "num": num})
    elif rel == "pool":
        k = [draw(st.integers(1, min(3, v // 2))) for v in n]
        if max(k) == 1:
            d = n.index(max(n))
            k[d] = 2 if n[d] >= 4 else 1
        spec.update({"via": "avg_pool", "k": k, "scalar": draw(st.booleans())})  # scalar: kernel_size=k instead of (k, ...) if all equal
    elif rel == "translate":
        off = draw(st.lists(gen.qfloat(-2.0, 2.0, 0.25), min_size=D, max_size=D))
        if not any(off):
            off[0] = 0.5
        spec["off"] = off
    elif rel == "mirror":
        spec["axis"] = draw(st.integers(0, D - 1))
    elif rel == "acflip":
        spec["via"] = draw(st.sampled_from(["desc", "api"]))
        spec["tac"] = None  # set per target: the flag the source grid does not have
    return spec


@st.composite
def sample_cases(draw):
    D = draw(gen.dims())
    case = draw(grid_sets(D, 10 if D == 2 else 6, near=True))
    N = case["N"]
    srcs = case["grids"] * N if len(case["grids"]) == 1 else case["grids"]
    g0 = case["grids"][0]
    m0 = ref.GridModel.from_desc(g0)
    mode = draw(st.sampled_from(["single", "single", "list_same", "list_one", "list_distinct", "list_distinct", "coords"]))
    nt = N if mode == "list_distinct" else 1
    rel = draw(st.sampled_from(REL_CLASSES))
    targets, tspec = [], []
    if rel in ("unrelated", "samesize"):
        tsize = list(g0["size"]) if rel == "samesize" else draw(st.lists(st.integers(2, 5 if D == 2 else 4), min_size=D, max_size=D))
        for _ in range(nt):
            t = draw(one_grid(D, 2, 5))
            t["size"] = list(tsize)
            pos = draw(st.lists(gen.qfloat(0.15, 0.85, 0.01), min_size=D, max_size=D))
            fac = draw(st.lists(gen.qfloat(0.15, 1.2, 0.01), min_size=D, max_size=D))
            c = m0.points(np.array(pos) * (m0.n - 1), "grid", "world")
            t["center"] = [round(float(v), 4) for v in c]
            t["spacing"] = [float(f"{min(g0['spacing']) * f:.4g}") for f in fac]
            targets.append(t)
            tspec.append({"rel": rel, "via": "desc"})
    else:
        spec = draw(target_specs(D, g0["size"], rel))
        for i in range(nt):
            sp = dict(spec)
            if rel == "acflip":
                sp["tac"] = not srcs[i]["ac"]
            targets.append(derive_target(srcs[i], sp))
            tspec.append(sp)
    case.update({"D": D, "dtype": draw(gen.dtypes()), "field": draw(fields(D, ("affine", "affine", "smooth", "smoothl"))),
                 "src": draw(st.sampled_from(["model", "model", "axes"])), "target": mode, "targets": targets, "tspec": tspec,
                 "cshape": draw(st.sampled_from(["grid", "grid", "shared", "points", "points_shared"])),
                 "route": draw(st.sampled_from(ROUTES)),
                 "mode": draw(st.sampled_from([None, None, "linear", "linear", "nearest"])),
                 "padding": draw(st.sampled_from([None, "zeros", "border"]))})
    return case


def target_grids(case, gr, N: int):
    """Models and deepali grids of the targets, one per field; derived grids are built with deepali's own Grid methods when
    the case says so (and must then agree with the float64 model of the same derivation, else the case is skipped: the
    derivation methods are C03's subject)."""
    specs = case.get("tspec") or [{"rel": "unrelated", "via": "desc"}] * len(case["targets"])
    mt = [ref.GridModel.from_desc(t) for t in case["targets"]]
    gt = []
    for i, (t, sp) in enumerate(zip(case["targets"], specs)):
        g = api_target(gr[i], sp)
        if g is None:
            g = make_grid(t)
        elif not grids_agree(g, mt[i]):
            raise Skip(f"grid derived with Grid.{sp['via']}() deviates from the model of the derivation")
        gt.append(g)
    if len(mt) == 1:
        mt, gt = mt * N, gt * N
    return mt, gt, specs[0]


def run_sample(case):
    ms, gr = setup(case)
    D, N, dt = case["D"], case["N"], tdtype(case["dtype"])
    eps = _eps(dt)
    u_idx = [index_field(case["field"], m, i) for i, m in enumerate(ms)]
    tmode = case["target"]
    if case["kind"] == "FlowField" and tmode.startswith("list"):
        tmode = "single"  # a single flow field takes a single grid
    mt, gt, spec = target_grids(case, gr, N)
    if case["kind"] == "FlowField" or tmode in ("single", "coords"):
        arg = gt[0]
    elif tmode == "list_one":
        arg = [gt[0]]  # a sequence of one grid: "a single grid which defines the sampling points for all images in the batch"
    else:
        arg = list(gt)
    kw = {}
    if case["mode"] is not None:
        kw["mode"] = case["mode"]
    if case["padding"] is not None:
        kw["padding"] = case["padding"]
    # linear interpolation reproduces an affine field; nearest-neighbour sampling only returns stored vectors (the sampling
    # positions do not depend on the representation, so every representation picks the same neighbours)
    affine = case["field"]["type"] == "affine" and case["mode"] != "nearest"
    # sampling positions per field: the world points of its target grid, or (tensor argument) normalised coordinates w.r.t.
    # the field's own grid in the cube convention of the batch (= align_corners flag of the first grid)
    cshape = case.get("cshape", "grid") if tmode == "coords" else "grid"
    cx = "cube_corners" if case["grids"][0]["ac"] else "cube"
    coords = None
    if tmode == "coords":
        per_item = cshape in ("grid", "points") or case["kind"] == "FlowField"
        cs = [mt[i].points(mt[i].index_points(), "grid", cx, ms[i]) for i in range(N if per_item else 1)]
        if cshape.startswith("points"):
            cs = [c.reshape(-1, D) for c in cs]
        coords = torch.tensor(cs[0] if case["kind"] == "FlowField" else np.stack(cs), dtype=dt)
        xws = [ms[i].points(cs[i if per_item else 0], cx, "world") for i in range(N)]
    else:
        xws = [t.world_points() for t in mt]
    expect, nodes, inside, bounds, signal = [], [], [], [], []
    for i in range(N):
        m, t = ms[i], mt[i]
        xw = xws[i]
        idx = m.points(xw, "world", "grid")
        inside.append(np.all((idx >= 0) & (idx <= m.n - 1), axis=-1))
        uw = m.vectors(u_idx[i], "grid", "world")
        if affine:
            Mw, tw = world_affine(case["field"], m, i)
            expect.append((xw - m.c) @ Mw.T + tw)
        else:
            expect.append(None)
        # positions that coincide with samples of the field: interpolation returns the stored vector there (any field)
        near = np.rint(idx)
        on = inside[i] & np.all(np.abs(idx - near) <= 1e-7, axis=-1)
        k = np.clip(near, 0, m.n - 1).astype(int)
        nodes.append((on, uw[tuple(k[..., d] for d in range(D - 1, -1, -1))]))
        # coordinate error (index units of the source grid) of the point map target cube -> world -> source cube
        W = max(float(np.abs(m.c).max() + np.abs(m.s * m.n).sum()), float(np.abs(t.c).max() + np.abs(t.s * t.n).sum()), 1.0)
        cpt = W / float(m.s.min()) + float(m.n.max()) + float(np.abs(idx).max())
        Lw = float(np.abs(m.A).sum(1).max())
        grad = field_lipschitz(case["field"], m) / (i + 1) * Lw
        if case["padding"] in (None, "zeros"):
            grad += float(np.abs(uw).max())  # zero padding: the field drops from its boundary value to 0 within one sample
        uterm = float((np.abs(uw).reshape(-1, D) @ (kappa(t) @ kappa(m)).T).max())
        bounds.append(KO * eps * (cpt * grad + uterm))
        signal.append(float(np.abs(uw).max()))
    same_domain = all(a.same_domain_as(b) for a, b in zip(gr, gt))
    world = {}
    worst = 0.0
    for r in AX:
        f = given_in(case, ms, gr, dt, r, u_idx)
        f0 = f.tensor().clone()
        if tmode == "coords":
            # tensor of normalised coordinates w.r.t. the flow field's own grid: values are returned as stored (axes r, old grid)
            out = f.sample(coords, **kw)
            if type(out) is not torch.Tensor:
                raise Violation("sample_coords_result_type", f"sample(Tensor) returned {type(out).__name__}")
            t = out.detach().double().numpy()
            io = [np.moveaxis(t, 0, -1)] if case["kind"] == "FlowField" else [np.moveaxis(x, 0, -1) for x in t]
            if len(io) != N:
                raise Violation("sample_batch_size", f"sample(Tensor of shape {tuple(coords.shape)}) returned {len(io)} items for N={N}")
            for i in range(N):
                if io[i].shape != xws[i].shape:
                    raise Violation("sample_coords_result_shape", f"sample(Tensor of shape {tuple(coords.shape)}): item {i} has shape "
                                                                  f"{io[i].shape[:-1]} x {io[i].shape[-1]} channels, expected {xws[i].shape}")
            world[r] = [m.vectors(o, r, "world") for m, o in zip(ms, io)]
        else:
            out = f.sample(arg, **kw)
            if type(out) is not type(f):
                raise Violation("sample_result_type", f"{type(f).__name__}.sample(grid) returned {type(out).__name__}")
            io = items(out)
            rg = result_grids(out)
            if len(io) != N or len(rg) != N:
                raise Violation("sample_single_grid_batch_size" if tmode in ("single", "list_one") else "sample_batch_size",
                                f"{case['kind']}(N={N}, axes={r}).sample({tmode}): result has {len(io)} fields and {len(rg)} grids")
            io = check_struct(out, f, N, gt, r, dt, "sample")
            world[r] = [t.vectors(o, r, "world") for t, o in zip(mt, io)]
        if not torch.equal(f.tensor(), f0):
            raise Violation("input_modified", "sample() modified the flow field")
        for i in range(N):
            msk = inside[i]
            if affine and msk.any():
                worst = max(worst, check_close(world[r][i][msk], expect[i][msk], bounds[i], "sample_world_affine",
                                               f"sample({tmode}, {spec['rel']} target) of world-affine field given in {r} axes, item {i}"))
            on, val = nodes[i]
            if on.any():
                worst = max(worst, check_close(world[r][i][on], val[on], bounds[i], "sample_node_values",
                                               f"sample({tmode}, {spec['rel']} target) at positions of the field's own samples, field given in {r} axes, item {i}"))
    for r in AX:
        for i in range(N):
            worst = max(worst, check_close(world[r][i], world["cube"][i], 2 * bounds[i], "sample_representation_dependent",
                                           f"world result of sample({tmode}, {spec['rel']} target) for field given in {r} axes vs cube axes, item {i}"))
    n_inside = int(sum(int(x.sum()) for x in inside))
    n_nodes = int(sum(int(on.sum()) for on, _ in nodes))
    labs, objq, distinct = grid_labels(case)
    tobl = all(gen.grid_is_oblique(t) for t in case["targets"])
    tight = all(b <= 0.02 * sg for b, sg in zip(bounds, signal))
    rel = spec["rel"]
    if rel == "crop":
        flat = [v for p in spec["num"] for v in p]
        rel = "crop" if min(flat) >= 0 else "pad" if max(flat) <= 0 else "croppad"
    tac = "".join("T" if t["ac"] else "F" for t in case["targets"])
    return {"ratio": worst, "nontrivial": objq and tobl and tight and n_inside >= 3 and (N == 1 or distinct),
            "labels": labs + ["field=" + case["field"]["type"], "target=" + tmode, f"pad={case['padding']}", "src=" + case["src"],
                              f"mode={case['mode']}", "inside>=3" if n_inside >= 3 else "inside<3", "rel=" + rel, "via=" + spec.get("via", "desc"),
                              "tac=" + tac, "same_domain" if same_domain else "other_domain", "route=" + case.get("route", "direct"),
                              "nodes>=3" if n_nodes >= 3 else "nodes<3"]
            + (["coords=" + cshape] if tmode == "coords" else [])
            + ([f"resize_ac={spec.get('rac')}"] if spec["rel"] == "resize" else [])}


# ---------------------------------------------------------------------------------------
# (2d) resize / downsample / upsample / crop / pad / ...: the image operations a flow field inherits, which put the field on
# another grid of the same family (same domain at another resolution; sub- or super-domain with the same spacing)


@st.composite
def regrid_cases(draw):
    D = draw(gen.dims())
    case = draw(grid_sets(D, 8 if D == 2 else 5, min_size=3))
    fam = draw(st.sampled_from(["resize", "resize", "crop", "crop", "pool", "pool"]))
    if fam == "pool" and max(case["grids"][0]["size"]) < 4:
        fam = "crop"
    spec = draw(target_specs(D, case["grids"][0]["size"], fam))
    spec["tac"] = None
    # Tensor-named operations (narrow, flip, indexing, ...) are C19's subject: their values are pinned to plain torch there
    spec["via"] = {"desc": "resize" if fam == "resize" else "crop_num", "reshape": "resize", "narrow": "crop_num"}.get(spec["via"], spec["via"])
    case.update({"D": D, "dtype": draw(gen.dtypes()), "field": draw(fields(D, ("affine", "affine", "smooth", "smoothl"))),
                 "src": draw(st.sampled_from(["model", "model", "axes"])), "route": draw(st.sampled_from(ROUTES)), "op": spec,
                 "r": draw(st.sampled_from(AX))})
    return case


def apply_regrid(f, spec: dict):
    via = spec["via"]
    if spec["rel"] == "resize":
        kw = {} if spec.get("rac") is None else {"align_corners": spec["rac"]}
        size = [int(v) for v in spec["size"]]
        if via == "resize":
            return f.resize(size, **kw)
        if via == "resize_args":
            return f.resize(*size, **kw)
        if via == "downsample":
            return f.downsample(1, dims=spec.get("dims"), **kw)
        if via == "upsample":
            return f.upsample(1, dims=spec.get("dims"), **kw)
        raise ValueError(via)
    if spec["rel"] == "pool":
        k = [int(v) for v in spec["k"]]
        return f.avg_pool(k[0] if len(set(k)) == 1 and spec.get("scalar") else tuple(k))
    pairs = spec["num"]
    num = [int(v) for p in pairs for v in p]
    n = [int(v) for v in (f.grid().size())]
    new = [int(a - p[0] - p[1]) for a, p in zip(n, pairs)]
    if via == "crop_num":
        return f.crop(num=num)
    if via == "pad_num":
        return f.pad(num=[-v for v in num])
    if via == "crop_margin":
        return f.crop(margin=[int(p[0]) for p in pairs])
    if via == "pad_margin":
        return f.pad(margin=[-int(p[0]) for p in pairs])
    if via == "center_crop":
        return f.center_crop(new)
    if via == "center_pad":
        return f.center_pad(new)
    if via == "roi":
        return f.region_of_interest([int(p[0]) for p in pairs], new)
    raise ValueError(via)


def run_regrid(case):
    ms, gr = setup(case)
    D, N, dt = case["D"], case["N"], tdtype(case["dtype"])
    eps = _eps(dt)
    spec = case["op"]
    fam = spec["rel"]
    u_idx = [index_field(case["field"], m, i) for i, m in enumerate(ms)]
    srcs = case["grids"] * N if len(case["grids"]) == 1 else case["grids"]
    sub = ""
    eff = dict(spec)
    if fam == "resize":
        # align_corners=None: the flag of the batch, i.e. of its first grid, says whether corner points or the extent are kept
        eff["rac"] = bool(case["grids"][0]["ac"]) if spec.get("rac") is None else bool(spec["rac"])
        sub = ":corners" if eff["rac"] else ":extent"
    elif fam == "pool":  # do the windows tile the grid, or is a remainder of samples dropped at the upper end?
        sub = ":exact" if all(n % k == 0 for n, k in zip(case["grids"][0]["size"], spec["k"])) else ":remainder"
    mt = [ref.GridModel.from_desc(derive_target(g, eff)) for g in srcs]
    # linear interpolation and window means reproduce an affine field exactly (downsample/upsample smooth it near the boundary)
    affine = case["field"]["type"] == "affine" and spec["via"] in ("resize", "resize_args", "avg_pool")
    expect, nodes, inside, bounds, signal = [], [], [], [], []
    for i in range(N):
        m, t = ms[i], mt[i]
        xw = t.world_points()
        idx = m.points(xw, "world", "grid")
        inside.append(np.all((idx >= 0) & (idx <= m.n - 1), axis=-1))
        uw = m.vectors(u_idx[i], "grid", "world")
        if affine:
            Mw, tw = world_affine(case["field"], m, i)
            expect.append((xw - m.c) @ Mw.T + tw)
        near = np.rint(idx)
        on = inside[i] & np.all(np.abs(idx - near) <= 1e-7, axis=-1) if fam == "crop" else np.zeros(idx.shape[:-1], dtype=bool)
        k = np.clip(near, 0, m.n - 1).astype(int)
        nodes.append((on, uw[tuple(k[..., d] for d in range(D - 1, -1, -1))]))
        W = max(float(np.abs(m.c).max() + np.abs(m.s * m.n).sum()), float(np.abs(t.c).max() + np.abs(t.s * t.n).sum()), 1.0)
        cpt = W / float(m.s.min()) + float(m.n.max()) + float(np.abs(idx).max())
        Lw = float(np.abs(m.A).sum(1).max())
        grad = field_lipschitz(case["field"], m) / (i + 1) * Lw + float(np.abs(uw).max())
        uterm = float((np.abs(uw).reshape(-1, D) @ (kappa(t) @ kappa(m)).T).max())
        bounds.append(KO * eps * (cpt * grad + uterm))
        signal.append(float(np.abs(uw).max()))
    world = {}
    worst = 0.0
    what = f"{spec['via']}()"
    rr = case["r"]
    # one representation per case (plus the WORLD-axes run as reference), so that each (representation, operation family,
    # preserved domain) combination is judged by its own cases and carries its own violation kind
    for r in dict.fromkeys([rr, "world"]):
        f = given_in(case, ms, gr, dt, r, u_idx)
        f0 = f.tensor().clone()
        out = apply_regrid(f, spec)
        if type(out) is not type(f):
            raise Violation("regrid_result_type", f"{type(f).__name__}.{what} returned {type(out).__name__}")
        io, rg = items(out), result_grids(out)
        if len(io) != N or len(rg) != N:
            raise Violation("regrid_batch_size", f"{case['kind']}(N={N}).{what}: result has {len(io)} fields and {len(rg)} grids")
        for i in range(N):
            if not grids_agree(rg[i], mt[i]) or tuple(rg[i].shape) != tuple(io[i].shape[:-1]):
                raise Skip(f"result grid of {spec['via']}() deviates from the model of the derivation (C03/C05)")
        if out.dtype != dt:
            raise Violation("regrid_result_dtype", f"{what}: dtype {out.dtype} for input {dt}")
        if not torch.equal(f.tensor(), f0) or f.axes() is not _A(r):
            raise Violation("input_modified", f"{what} modified the flow field")
        q = out.axes().value  # the representation the result says it is in (w.r.t. its own, new grid)
        world[r] = [t.vectors(o, q, "world") for t, o in zip(mt, io)]
    for i in range(N):
        if affine and inside[i].any():
            worst = max(worst, check_close(world[rr][i][inside[i]], expect[i][inside[i]], bounds[i], f"regrid_{fam}_world_affine:{rr}{sub}",
                                           f"{what} of world-affine field given in {rr} axes, item {i}"))
        on, val = nodes[i]
        if on.any():
            worst = max(worst, check_close(world[rr][i][on], val[on], bounds[i], f"regrid_{fam}_node_values:{rr}",
                                           f"{what} of field given in {rr} axes at the samples it keeps, item {i}"))
        worst = max(worst, check_close(world[rr][i], world["world"][i], 2 * bounds[i], f"regrid_{fam}_representation_dependent:{rr}{sub}",
                                       f"world result of {what} for field given in {rr} axes vs world axes, item {i}"))
    labs, objq, distinct = grid_labels(case)
    tight = all(b <= 0.02 * sg for b, sg in zip(bounds, signal))
    n_inside = int(sum(int(x.sum()) for x in inside))
    rel = fam
    if fam == "crop":
        flat = [v for p in spec["num"] for v in p]
        rel = "crop" if min(flat) >= 0 else "pad" if max(flat) <= 0 else "croppad"
    return {"ratio": worst, "nontrivial": objq and tight and n_inside >= 3 and (N == 1 or distinct),
            "labels": labs + ["field=" + case["field"]["type"], "op=" + spec["via"], "rel=" + rel, "src=" + case["src"], "r=" + rr,
                              "route=" + case.get("route", "direct")] + (["keeps=" + sub[1:], f"resize_ac={spec.get('rac')}"] if fam == "resize" else ["windows=" + sub[1:]] if fam == "pool" else [])}


# ---------------------------------------------------------------------------------------
# (4) sitk() / from_sitk() / write() / read(): files and ITK images hold WORLD vectors


@st.composite
def sitk_cases(draw):
    D = draw(gen.dims())
    g = draw(one_grid(D, 2, 8 if D == 2 else 5))
    return {"D": D, "N": 1, "kind": "FlowField", "grids": [g], "r": draw(st.sampled_from(AX)), "q": draw(st.sampled_from(AX)),
            "dtype": draw(gen.dtypes()), "field": draw(fields(D)), "file": draw(st.sampled_from([None, None, None, ".nrrd"])),
            "route": draw(st.sampled_from(ROUTES))}


def run_sitk(case):
    import SimpleITK as sitk
    from deepali.data import FlowField

    ms, gr = setup(case)
    m = ms[0]
    D, dt = case["D"], tdtype(case["dtype"])
    eps = _eps(dt)
    r, q = case["r"], case["q"]
    u_idx = index_field(case["field"], m, 0)
    vr = m.vectors(u_idx, "grid", r)
    uw = m.vectors(u_idx, "grid", "world")
    f = build_flow(case, [vr], r, gr, dt)
    f0 = f.tensor().clone()
    img = f.sitk()
    if img.GetNumberOfComponentsPerPixel() != D or list(img.GetSize()) != list(case["grids"][0]["size"]):
        raise Violation("sitk_layout", f"sitk(): {img.GetNumberOfComponentsPerPixel()} components, size {img.GetSize()}")
    arr = sitk.GetArrayFromImage(img).astype(np.float64)
    bw = KC * eps * conv_scale(m, vr, r, "world")
    worst = check_close(arr, uw, bw, "sitk_world_vectors", f"sitk() of field given in {r} axes vs model world vectors")
    imq = f.sitk(axes=_A(q))
    check_close(sitk.GetArrayFromImage(imq).astype(np.float64), m.vectors(vr, r, q), KC * eps * conv_scale(m, vr, r, q),
                "sitk_axes_argument", f"sitk(axes={q}) of field given in {r} axes")
    if not torch.equal(f.tensor(), f0) or f.axes() is not _A(r):
        raise Violation("input_modified", "sitk() modified the flow field")
    back = FlowField.from_sitk(img, dtype=dt)
    if type(back) is not FlowField or back.axes() is not _A("world"):
        raise Violation("from_sitk_axes", f"from_sitk() returned {type(back).__name__} with axes {back.axes()}")
    check_close(items(back)[0], arr, 2 * eps * max(1e-30, float(np.abs(arr).max())), "from_sitk_vectors", "from_sitk() changed the stored vectors")
    again = back.axes(_A(r))
    vw = m.vectors(vr, r, "world")
    bnd = bw * float(absmat(m, "world", r).sum(1).max()) + KC * eps * conv_scale(m, vw, "world", r)
    check_close(items(again)[0], vr, bnd, "sitk_roundtrip", f"from_sitk(sitk()).axes({r}) vs original {r} vectors")
    lab = FlowField.from_sitk(imq, axes=_A(q), dtype=dt)
    if lab.axes() is not _A(q):
        raise Violation("from_sitk_axes", f"from_sitk(axes={q}) reports {lab.axes()}")
    if case["file"]:
        with tempfile.TemporaryDirectory(prefix="c10_") as d:
            path = os.path.join(d, "flow" + case["file"])
            f.write(path)
            stored = sitk.GetArrayFromImage(sitk.ReadImage(path)).astype(np.float64)
            if stored.shape != uw.shape:
                raise Violation("write_layout", f"written array has shape {stored.shape}, expected {uw.shape}")
            check_close(stored, uw, bw, "write_world_vectors", f"write({case['file']}) of field given in {r} axes, read by SimpleITK")
            rd = FlowField.read(path, dtype=dt)
            if rd.axes() is not _A("world"):
                raise Violation("read_axes", f"read() reports axes {rd.axes()}")
            check_close(items(rd)[0], uw, bw, "read_world_vectors", "FlowField.read() of the written file")
    labs, objq, _ = grid_labels(case)
    return {"ratio": worst, "nontrivial": objq and r != "world", "labels": labs + [f"r={r}", f"q={q}", "file=" + str(case["file"]), "route=" + case.get("route", "direct")]}


FACETS = [
    Facet("axes", run_axes, strategy=axes_cases,
          rule="FlowField/FlowFields (N 1..3, shared or per-field distinct grids) x ordered axes triple x affine/smooth/noise content; "
               "non-trivial = all grids oblique and anisotropic, a != b, N = 1 or distinct grids",
          quick=700, thorough=16000, shards=16, quick_shards=3),
    Facet("exp", run_exp, strategy=exp_cases,
          rule="invariant affine velocity (closed form) or smooth velocity, given in all four representations; "
               "non-trivial = oblique anisotropic grids, non-zero field, steps >= 1, N = 1 or distinct grids, bound <= 2 % of the displacement",
          quick=300, thorough=6000, shards=16, quick_shards=2),
    Facet("warp_image", run_warp, strategy=warp_cases,
          rule="linear-ramp image(s) on the flow grids warped by world-affine (closed form inside the field of view) or smooth flow "
               "given in all four representations; non-trivial = oblique anisotropic grids, |u| > 0.05 samples, >= 2 pinned samples, bound <= 2 % of the "
               "intensity change caused by the displacement",
          quick=350, thorough=8000, shards=16, quick_shards=2),
    Facet("sample", run_sample, strategy=sample_cases,
          rule="resampling on a single grid / a sequence of one / per-field target grid(s), or at normalised coordinates (per item or "
               "shared, grid-shaped or point lists); targets are unrelated overlapping grids (any size or the source's size) or derived "
               "from each field's own grid (resize/reshape/downsample/upsample with corners or extent kept, other align_corners flag, "
               "crop/pad/center_crop/center_pad/region_of_interest/narrow, translated, mirrored; via Grid methods or a float64 "
               "descriptor; labelled rel=, via=, tac=, same_domain); world-affine (pinned inside the old sample hull) or smooth "
               "fields in all four representations, stored vectors at coinciding samples; non-trivial = oblique "
               "anisotropic source and oblique target grids, >= 3 pinned samples, N = 1 or distinct grids, bound <= 2 % of the displacement",
          quick=600, thorough=10000, shards=16, quick_shards=3),
    Facet("regrid", run_regrid, strategy=regrid_cases,
          rule="inherited image operations that put the field on a grid derived from its own (resize / downsample / upsample: same domain, "
               "other size; avg_pool: windows of k samples; crop / pad / center_crop / center_pad / region_of_interest: same spacing, other extent), field given "
               "in all four representations, world result (read with the axes the result reports) compared with the WORLD-axes run, the "
               "world-affine closed form (resize, avg_pool) and the stored vectors at kept samples (crop family); non-trivial = oblique anisotropic "
               "grids, >= 3 pinned samples, N = 1 or distinct grids, bound <= 2 % of the displacement",
          quick=400, thorough=6000, shards=16, quick_shards=2),
    Facet("sitk", run_sitk, strategy=sitk_cases,
          rule="FlowField in representation r exported by sitk()/sitk(axes=q)/write(.nrrd) and re-imported; non-trivial = oblique "
               "anisotropic grid and r != world",
          quick=250, thorough=5000, shards=8, quick_shards=2),
]
