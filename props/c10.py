"""C10 - Flow fields mean the same displacement in every vector representation."""
from __future__ import annotations

import math
import os
import tempfile

import numpy as np
import torch
from hypothesis import strategies as st

from props.c11 import build_generator, cube_coords, min_steps
from vlib import gen, ref
from vlib.case import hash_noise, make_grid, tdtype
from vlib.core import EPS32, Facet, Skip, Violation, check_close, eps_of

PROPERTY = "C10"
MANIFEST = {
    "text": "Generated FlowField / FlowFields objects (D in {2,3}, N in 1..3 with one shared or per-field distinct oriented "
            "anisotropic grids, both align_corners flags incl. mixed flags within a batch, float32/float64; obtained from the "
            "constructor, from_images()/from_image(), batch(), indexing or clone()) carrying world-affine, smooth and hash-noise vector "
            "fields are (1) converted between all 4x4 ordered pairs of Axes and compared per item with the vector map of an "
            "independent float64 grid model, with round-trip and path-independence laws, and combinations of fields given in "
            "different representations must raise or be expressed consistently; (2) given in each of the four "
            "representations to exp(), warp_image() and sample() and the world-space results compared across representations "
            "and pinned to closed forms (scaling-and-squaring power of an invariant affine velocity; linear-ramp image warped by "
            "a world-affine flow; world-affine field evaluated at the target grid's world points; stored vectors at target points "
            "that coincide with samples of the field). Target grids of sample() are unrelated overlapping grids (any size, or the "
            "size of the source) and grids derived from the field's own grid - same domain at another size (resize, reshape, "
            "downsample, upsample, corners or extent kept), same grid with the other align_corners flag, cropped / padded / "
            "region-of-interest / narrowed sub-domains, translated and mirrored copies - built from a float64 descriptor or with "
            "deepali's own Grid methods, passed as one grid, a sequence of one or of N grids, or as normalised coordinates (per "
            "item or shared, grid-shaped or point lists); (2d) the image operations a flow field inherits (resize, downsample, "
            "upsample, avg_pool, crop, pad, center_crop, center_pad, region_of_interest) are judged like sample() on the derived grid, one "
            "representation per case against the WORLD-axes run; (3) exported with sitk()/write (default and explicit axes=) and read "
            "back with an independent reader; (4) run through programs of 2..5 operations on grid OBJECTS that stay alive: the field is "
            "held in one representation on grids that were already used for vector conversions, resampled on grids derived from them "
            "with deepali's own Grid methods (resize, reshape, downsample, upsample, pyramid level, resample, crop, pad, copies with "
            "another flag / centre / spacing / direction), resampled back onto earlier grid objects, put through the inherited image "
            "operations, exp(), axes() cycles and in-place scaling, and after every step its world-space meaning is compared with a "
            "float64 model of the program (multilinear interpolation of the world vectors) and with the same program run on the field "
            "given in WORLD axes on grid objects of its own; between the steps warp_image(), the vector matrices "
            "Grid.transform(..., vectors=True) of every live grid (same grid and grid-to-grid) and the independence of converted copies "
            "from later in-place writes are observed, and afterwards a second field that shares the original grid objects must still "
            "convert and resample correctly and no grid may have changed its flag. Exploration with Hypothesis, no absence proof.",
    "note": "Trusted: vlib/ref.py GridModel (float64 numpy; self-tested against SimpleITK in C02), the affine closed form of "
            "props/c11.py, SimpleITK as independent reader of exported fields. Tolerances are 64 (conversions) or 256 (flow "
            "operations) times eps32 times a condition term computed from the reference model, because deepali keeps grid "
            "attributes in float32. File round trip only through SimpleITK-backed formats (NRRD); MetaImage/NIfTI belong to C18. "
            "Grids derived with Grid methods must agree with the float64 model of the derivation to 64 eps32 (else the case is "
            "skipped and counted: the derivation itself is C03's subject).",
    "technique": "property-based testing (Hypothesis) with a float64 reference model, closed-form oracles and metamorphic "
                 "representation-independence relations",
}
ASSUMPTIONS = [
    "grids: size 2..10 per axis (cube axes need n >= 2), spacing in [0.1, 10], |center| <= 200 (<= 30 in the resampling facet, "
    "where float32 world coordinates of the point map - C01/C02's subject - would otherwise dominate the bound), |det direction| = 1",
    "a case counts as non-trivial only if its derived bound is <= 2 % of the displacement effect it guards (exp/warp_image/sample/regrid)",
    "fields are generated in sample units of their own grid (affine |M| <= 0.3, |t| <= 1.5 samples; smooth/noise amplitude <= 2 "
    "samples) and expressed in each representation with the float64 model, so 'world-affine' holds by construction",
    "image warping assumes that image and flow field share the sampling grid (warp_image() never reads the grid of the image; an "
    "image on another grid is sampled as if it were on the flow grid, which no representation can make right); the image grid may "
    "carry the other align_corners flag (equal grids in the sense of Grid.__eq__); interpolation is "
    "linear with zeros/border padding (scalar padding constants and reflect padding are representation dependent by definition)",
    "exp(): closed form only for constructed invariant affine velocities with scale > 0; smooth velocities (Lipschitz constant "
    "<= 0.6 samples/sample before scaling) are compared across representations only (C11 pins the core expv)",
    "FlowFields.sample(Tensor) returns the stored vectors (axes r of the old grid) without rescaling, as documented; the "
    "normalised coordinates are read in the cube convention of the align_corners flag of the first grid of the batch",
    "sample(mode='nearest'): only representation independence and the stored vectors at coinciding samples are asserted (the "
    "sampling positions do not depend on the representation)",
    "derived target grids have integer sizes: downsample() only along axes of even size >= 4 (Grid keeps fractional sizes "
    "otherwise, which the float64 model does not cover); resample(spacing) and pyramid() are not generated for the same reason",
    "regrid facet: the result is read with the axes label it reports (keeping the label and re-expressing the vectors, or "
    "switching to WORLD, would both be accepted); violation kinds carry the representation and which domain the operation keeps, so "
    "that each combination is matched separately; downsample/upsample smooth the field, so only resize and avg_pool are pinned to "
    "the affine closed form; tensor-named operations (narrow, flip, indexing) are pinned to plain torch values in C19 and not judged here",
    "fields given in different representations: from_images(), torch.cat and + of such fields must raise ValueError (as the code "
    "documents) or yield the consistent world-space result; only silent relabelling is a violation; append() must express the "
    "appended batch w.r.t. the axes of the batch it is appended to (its docstring)",
    "program facet: moderate geometry (spacing 0.3..3, |centre| <= 10, sizes 3..8 (2-D) / 3..5 (3-D), derived sizes 2..12 / 2..7) so "
    "that the accumulated float32 point-map error stays below the effects guarded; bounds add up per step (resampling: as in the "
    "sample facet with the gradient of the interpolant taken from the reference data; exp: error amplification exp(L e^L / 2) for "
    "the measured Lipschitz constant L of the velocity in samples per sample, cases with L >= 3 are not judged); linear "
    "interpolation only, padding None/zeros/border",
    "program facet: the geometry of derived and result grids is read from the grid objects of the WORLD-axes run (size(), spacing(), "
    "center(), direction() copied to float64) - the derivation itself is C03's subject; both runs must end up on equal grids. The "
    "float64 model covers sample() on any grid, resize() (linear, clamped at the boundary), resample() and the crop/pad family (zero "
    "fill); downsample/upsample/pyramid (Gaussian smoothing) and exp() are judged against the WORLD-axes run only",
    "program facet: operations are resolved against the size the field has when the step is reached; a derivation that the size "
    "does not allow (fewer than 2 samples, more than the cap, pyramid whose coarsest level would have < 2 samples (n < 1.5 * 2^levels), "
    "per-item sizes that differ because the grids of a batch carry different flags) is replaced by a resize() or skipped (label "
    "did=noop); grids with a fractional size (kept by Grid.resample() and Grid.downsample() of odd sizes) are only used for axes() "
    "and sample(): the image operations of a field on such a grid disagree with the grid about the data shape (seen as ValueError in "
    "Image.upsample after sampling on grid.downsample() of an odd size), which is not a statement about vector representations",
    "program facet: overwriting the result of axes(a) must not change the field it was computed from, nor a later axes(a), only for "
    "a != current axes (for equal axes the low-level Grid.transform_vectors documents that the input tensor itself is returned); "
    "Grid objects are treated as values: no flow operation may change the align_corners flag of a grid it is given",
]

AX = ["grid", "cube", "cube_corners", "world"]
KC = 64.0   # pure vector conversions
KO = 256.0  # flow operations (DESIGN 6/C10: 256 eps32 * scale)
GRID_KW = dict(mag=200.0, spacing_lo=0.1, spacing_hi=10.0,
               kinds=("identity", "perm", "rotation", "rotation", "rotation", "rotation", "reflection", "reflection"))


def _A(name):
    from deepali.core import Axes

    return Axes(name)


def _eps(dt) -> float:
    return max(EPS32, eps_of(dt))


def selftest():
    g = {"size": [5, 4], "spacing": [2.0, 0.5], "center": [10.0, -3.0], "rot": [0.3], "perm": [1, 0], "flip": [1, -1], "ac": False}
    m = ref.GridModel.from_desc(g)
    v = np.array([[1.0, -2.0], [0.25, 0.5]])
    for a in AX:
        for b in AX:
            assert np.allclose(m.vectors(m.vectors(v, a, b), b, a), v)
            # vector map = difference of the point map
            p = np.array([[0.3, -0.2]])
            assert np.allclose(m.points(p + v, a, b) - m.points(p, a, b), m.vectors(v, a, b))
    assert np.allclose(m.vectors(v, "grid", "cube"), v * 2 / m.n)
    assert np.allclose(m.vectors(v, "grid", "cube_corners"), v * 2 / (m.n - 1))
    assert np.allclose(m.vectors(v, "grid", "world"), v @ (m.R @ np.diag(m.s)).T)
    # index-relative affine field is world-affine with M_w = A M A^-1 about the grid centre
    f = {"type": "affine", "M": [0.1, -0.2, 0.05, 0.3], "t": [0.5, -1.0]}
    Mw, tw = world_affine(f, m, 0)
    uw = m.vectors(index_field(f, m, 0), "grid", "world")
    assert np.allclose(uw, (m.world_points() - m.c) @ Mw.T + tw)


# ---------------------------------------------------------------------------------------
# generators


@st.composite
def one_grid(draw, D: int, min_size: int, max_size: int, mag=None):
    """gen.grids with the share of anisotropic spacings raised to ~5/6 (the shared strategy has 1/3 isotropic)."""
    g = draw(gen.grids(D, min_size=min_size, max_size=max_size, **(GRID_KW if mag is None else dict(GRID_KW, mag=mag))))
    if draw(st.integers(0, 3)) > 0:
        g["spacing"] = draw(st.lists(gen.logfloat(GRID_KW["spacing_lo"], GRID_KW["spacing_hi"]), min_size=D, max_size=D))
    return g


@st.composite
def grid_sets(draw, D: int, max_size: int, near: bool = False, min_size: int = 2):
    """N flow-field grids of equal size: one shared grid, or per-field distinct grids.

    near=True (resampling facet): centres of the distinct grids within a few samples of each other so that one target grid
    overlaps all fields, and |center| <= 30 so that the float32 world coordinates of the point map (error eps32*|x|/spacing
    samples, C01/C02's subject) do not swamp the vector effects this property is about."""
    mag = 30.0 if near else None
    N = draw(st.sampled_from([1, 1, 2, 2, 3]))
    kind = draw(st.sampled_from(["FlowField", "FlowFields"])) if N == 1 else "FlowFields"
    g0 = draw(one_grid(D, min_size, max_size, mag))
    gs = [g0]
    if N > 1 and draw(st.sampled_from([True, True, False])):
        for _ in range(1, N):
            gb = draw(one_grid(D, min_size, max_size, mag))
            gb["size"] = list(g0["size"])
            if near:  # centres within a few samples of each other so that one target grid overlaps all fields
                off = draw(st.lists(gen.qfloat(-1.5, 1.5, 0.01), min_size=D, max_size=D))
                gb["center"] = [round(c + o * min(g0["spacing"]), 4) for c, o in zip(g0["center"], off)]
            gs.append(gb)
    return {"N": N, "kind": kind, "grids": gs}


def fields(D: int, kinds=("affine", "smooth", "noise")):
    opts = {
        "affine": st.fixed_dictionaries({"type": st.just("affine"),
                                         "M": st.lists(gen.qfloat(-0.3, 0.3, 0.01), min_size=D * D, max_size=D * D),
                                         "t": st.lists(gen.qfloat(-1.5, 1.5, 0.01), min_size=D, max_size=D)}),
        "smooth": st.fixed_dictionaries({"type": st.just("smooth"),
                                         "waves": st.lists(st.integers(1, 2), min_size=D, max_size=D),
                                         "amp": gen.qfloat(0.1, 1.5, 0.05)}),
        # smooth field whose amplitude is chosen per grid such that its Lipschitz constant (samples per sample) is `lip`
        "smoothl": st.fixed_dictionaries({"type": st.just("smooth"),
                                          "waves": st.lists(st.integers(1, 2), min_size=D, max_size=D),
                                          "lip": gen.qfloat(0.05, 0.6, 0.01)}),
        "noise": st.fixed_dictionaries({"type": st.just("noise"), "key": st.integers(0, 10 ** 6), "amp": gen.qfloat(0.1, 2.0, 0.1)}),
    }
    return st.one_of([opts[k] for k in kinds])


def wave_field(shape, waves, amp: float, phase: float = 0.4) -> np.ndarray:
    """amp * prod_axes sin(pi w t + phase), t in [0,1] along each axis (does not vanish at the boundary)."""
    D = len(shape)
    out = np.full(shape, float(amp))
    for ax in range(D):
        n = shape[ax]
        t = np.arange(n, dtype=np.float64) / max(n - 1, 1)
        sh = [1] * D
        sh[ax] = n
        out = out * np.sin(np.pi * waves[ax] * t + phase).reshape(sh)
    return out


def smooth_amp(field: dict, m: ref.GridModel) -> float:
    """Amplitude (samples) of a smooth field: given, or derived from the requested Lipschitz constant."""
    if "lip" in field:
        return min(2.0, field["lip"] * max(float(m.n.min()) - 1, 1.0) / (math.pi * m.D * max(field["waves"])))
    return float(field["amp"])


def index_field(field: dict, m: ref.GridModel, b: int) -> np.ndarray:
    """Vector field of batch item b in sample units of its grid, array (..., X, D), (x, ...) component order."""
    D = m.D
    shape = tuple(int(v) for v in m.n[::-1])
    k = 1.0 / (b + 1)
    if field["type"] == "affine":
        Mi = np.array(field["M"], dtype=np.float64).reshape(D, D) * k
        ti = np.array(field["t"], dtype=np.float64) * k
        return (m.index_points() - (m.n - 1) / 2) @ Mi.T + ti
    if field["type"] == "smooth":
        comps = [wave_field(shape, [field["waves"][(c + j) % D] for j in range(D)], smooth_amp(field, m) * k * (1 - 0.3 * c), 0.4 + 0.5 * c)
                 for c in range(D)]
        return np.stack(comps, axis=-1)
    a = field["amp"]
    return hash_noise(shape + (D,), field["key"] + b, -a, a)


def world_affine(field: dict, m: ref.GridModel, b: int):
    """(M_w, t_w) with u_w(x) = M_w (x - c) + t_w for the index-relative affine field of item b."""
    D = m.D
    k = 1.0 / (b + 1)
    Mi = np.array(field["M"], dtype=np.float64).reshape(D, D) * k
    ti = np.array(field["t"], dtype=np.float64) * k
    return m.A @ Mi @ np.linalg.inv(m.A), m.A @ ti


def field_lipschitz(field: dict, m: ref.GridModel) -> float:
    """Bound of the change of the index-unit field per index step (inf-norm, sum over axes)."""
    D = m.D
    if field["type"] == "affine":
        return float(np.abs(np.array(field["M"]).reshape(D, D)).sum(1).max())
    if field["type"] == "smooth":
        return float(smooth_amp(field, m) * math.pi * D * max(field["waves"]) / max(float(m.n.min()) - 1, 1.0))
    return 2.0 * field["amp"] * D


def chfirst(a: np.ndarray) -> np.ndarray:
    return np.moveaxis(a, -1, 0)


def setup(case):
    """models and deepali grids per batch item (shared grid: same object repeated)."""
    N = case["N"]
    ms = [ref.GridModel.from_desc(g) for g in case["grids"]]
    gr = [make_grid(g) for g in case["grids"]]
    if len(ms) == 1:
        ms, gr = ms * N, gr * N
    return ms, gr


# How the flow object handed to the operation under test was obtained (the representation label must survive each of them).
ROUTES = ["direct", "direct", "direct", "items", "clone", "index"]


def build_flow(case, reps, axes_name, gr, dt, default_axes=False):
    """FlowField / FlowFields holding the per-item arrays `reps` (..., X, D), labelled with axes `axes_name`.

    route "direct": constructor; "items": FlowFields.from_images(list of FlowField) / FlowField.from_image(Image, axes);
    "clone": clone() of the constructed object; "index": sub-batch batch[0:N] of a longer batch (FlowField.batch() if N = 1) /
    item batch[0] of a FlowFields batch."""
    from deepali.data import FlowField, FlowFields, Image

    ax = None if default_axes else _A(axes_name)
    route = "direct" if default_axes else case.get("route", "direct")
    shared = len(case["grids"]) == 1
    if case["kind"] == "FlowField":
        x = torch.tensor(chfirst(reps[0]), dtype=dt)
        if route == "items":
            return FlowField.from_image(Image(x, gr[0]), axes=ax)
        if route == "index":
            return FlowFields(x.unsqueeze(0), [gr[0]], ax)[0]
        f = FlowField(x, gr[0], ax)
        return f.clone() if route == "clone" else f
    data = torch.tensor(np.stack([chfirst(r) for r in reps]), dtype=dt)
    if route == "items":
        return FlowFields.from_images([FlowField(data[i], gr[i], ax) for i in range(len(reps))])
    if route == "index":
        if len(reps) == 1:
            return FlowField(data[0], gr[0], ax).batch()
        more = FlowFields(torch.cat([data, -data[:1]], dim=0), list(gr) + [gr[0]], ax)
        return more[0 : len(reps)]
    f = FlowFields(data, gr[0] if shared else list(gr), ax)
    return f.clone() if route == "clone" else f


def items(obj):
    """Per-item arrays (..., X, C) in float64 of an Image/FlowField or a batch."""
    from deepali.data import Image

    t = obj.tensor().detach().double().numpy()
    if isinstance(obj, Image):
        return [np.moveaxis(t, 0, -1)]
    return [np.moveaxis(x, 0, -1) for x in t]


def result_grids(obj):
    from deepali.data import Image

    return [obj.grid()] if isinstance(obj, Image) else list(obj.grids())


def check_struct(res, like, n: int, grids, axes_name, dt, what: str):
    """Result container: type, batch size, one grid per item equal to the expected grid, axes, dtype."""
    if type(res) is not type(like):
        raise Violation(what + "_result_type", f"{what}: {type(like).__name__} gave {type(res).__name__}")
    its = items(res)
    if len(its) != n:
        raise Violation(what + "_batch_size", f"{what}: result has {len(its)} items for a batch of {n}")
    rg = result_grids(res)
    if len(rg) != n:
        raise Violation(what + "_grid_count", f"{what}: result has {len(rg)} grids for {n} items")
    for b, (g, e) in enumerate(zip(rg, grids)):
        if not (g == e) or tuple(g.shape) != tuple(its[b].shape[:-1]):
            raise Violation(what + "_result_grid", f"{what}: grid of item {b} is {g!r}, expected {e!r}")
    if axes_name is not None and res.axes() is not _A(axes_name):
        raise Violation(what + "_result_axes", f"{what}: result reports axes {res.axes()} instead of {axes_name}")
    if res.dtype != dt:
        raise Violation(what + "_result_dtype", f"{what}: dtype {res.dtype} for input {dt}")
    return its


def absmat(m: ref.GridModel, a: str, b: str, to=None) -> np.ndarray:
    return np.abs(m.matrix(a, b, to)[: m.D, : m.D])


def conv_scale(m: ref.GridModel, v: np.ndarray, a: str, b: str, to=None) -> float:
    """max_i sum_j |M_ij| |v_j| : the magnitude eps is relative to in y = M v."""
    return max(1e-30, float((np.abs(v).reshape(-1, m.D) @ absmat(m, a, b, to).T).max()))


def kappa(m: ref.GridModel) -> np.ndarray:
    """|A| |A^-1| = |R| |R^T|: world-unit error per unit of eps*|u_w| when vectors pass through grid-aligned axes."""
    return np.abs(m.R) @ np.abs(m.R.T)


def kappa_idx(m: ref.GridModel) -> np.ndarray:
    """|A^-1| |A| = diag(1/s) |R^T| |R| diag(s): index-unit error per unit of eps*|u_idx| when vectors pass through
    world axes (a float32 world vector of a coarse-axis displacement has an error of s_coarse/s_fine samples along an
    oblique fine axis)."""
    return np.abs(np.linalg.inv(m.A)) @ np.abs(m.A)


def cond_vec(m: ref.GridModel) -> float:
    return float(max(kappa(m).sum(1).max(), kappa_idx(m).sum(1).max()))


def given_in(case, ms, gr, dt, r: str, u_idx):
    """The flow object with vectors given w.r.t. axes r: from the model, or through deepali's own axes()."""
    if case.get("src", "model") == "axes" and r != "world":
        fw = build_flow(case, [m.vectors(u, "grid", "world") for m, u in zip(ms, u_idx)], "world", gr, dt)
        return fw.axes(_A(r))
    return build_flow(case, [m.vectors(u, "grid", r) for m, u in zip(ms, u_idx)], r, gr, dt)


def grid_labels(case):
    gs = case["grids"]
    obl = all(gen.grid_is_oblique(g) for g in gs)
    ani = all(gen.grid_is_anisotropic(g) for g in gs)
    distinct = len(gs) > 1 and any(g != gs[0] for g in gs[1:])
    labs = [case["kind"], f"N={case['N']}", "grids=distinct" if distinct else "grids=shared", f"D={case['D']}", case["dtype"],
            "oblique" if obl else "axis-aligned", "aniso" if ani else "iso",
            "ac=" + "".join("T" if g["ac"] else "F" for g in gs)]
    return labs, obl and ani, distinct


# ---------------------------------------------------------------------------------------
# (1) axes(a).axes(b): model vector map, round trip, path independence


@st.composite
def axes_cases(draw):
    D = draw(gen.dims())
    case = draw(grid_sets(D, 10 if D == 2 else 6))
    case.update({"D": D, "a": draw(st.sampled_from(AX)), "b": draw(st.sampled_from(AX)), "c": draw(st.sampled_from(AX)),
                 "dtype": draw(gen.dtypes()), "field": draw(fields(D)), "ctor": draw(st.sampled_from(["explicit", "default"])),
                 "route": draw(st.sampled_from(ROUTES))})
    return case


def run_axes(case):
    ms, gr = setup(case)
    N, dt = case["N"], tdtype(case["dtype"])
    eps = _eps(dt)
    a, b, c = case["a"], case["b"], case["c"]
    u_idx = [index_field(case["field"], m, i) for i, m in enumerate(ms)]
    va = [m.vectors(u, "grid", a) for m, u in zip(ms, u_idx)]
    dflt = "cube_corners" if case["grids"][0]["ac"] else "cube"
    use_default = case["ctor"] == "default" and a == dflt
    f = build_flow(case, va, a, gr, dt, default_axes=use_default)
    if f.axes() is not _A(a):
        raise Violation("constructor_axes", f"constructed with axes={'None' if use_default else a}: axes() = {f.axes()}")
    f0 = f.tensor().clone()
    fb = f.axes(_A(b))
    ib = check_struct(fb, f, N, gr, b, dt, "axes")
    worst = 0.0
    for i, m in enumerate(ms):
        sab = conv_scale(m, va[i], a, b)
        worst = max(worst, check_close(ib[i], m.vectors(va[i], a, b), KC * eps * sab, "axes_vs_model",
                                       f"{case['kind']}.axes({b}) of {a} vectors, item {i}"))
    back = f.axes(_A(b)).axes(_A(a))
    ia = check_struct(back, f, N, gr, a, dt, "axes")
    direct = f.axes(_A(c))
    via = fb.axes(_A(c))
    ic, iv = check_struct(direct, f, N, gr, c, dt, "axes"), check_struct(via, f, N, gr, c, dt, "axes")
    for i, m in enumerate(ms):
        vb = m.vectors(va[i], a, b)
        eab = KC * eps * conv_scale(m, va[i], a, b)
        # an error e in b-space maps to |M_ba| e in a-space
        bnd = eab * float(absmat(m, b, a).sum(1).max()) + KC * eps * conv_scale(m, vb, b, a)
        worst = max(worst, check_close(ia[i], va[i], bnd, "axes_roundtrip", f"{a}->{b}->{a}, item {i}"))
        bnd = KC * eps * conv_scale(m, va[i], a, c) + eab * float(absmat(m, b, c).sum(1).max()) + KC * eps * conv_scale(m, vb, b, c)
        worst = max(worst, check_close(iv[i], ic[i], bnd, "axes_path_dependent", f"{a}->{c} vs {a}->{b}->{c}, item {i}"))
    if not torch.equal(f.tensor(), f0) or f.axes() is not _A(a):
        raise Violation("input_modified", "axes() modified the flow field it was called on")
    if a != c:
        mixed_axes(case, ms, gr, dt, eps, f, va, a, c)
    labs, objq, distinct = grid_labels(case)
    nt = objq and a != b and (N == 1 or distinct)
    return {"ratio": worst, "nontrivial": nt, "labels": labs + [f"{a}->{b}", "field=" + case["field"]["type"], "ctor=" + ("default" if use_default else "explicit"),
                                                                "route=" + ("direct" if use_default else case.get("route", "direct"))]}


def mixed_axes(case, ms, gr, dt, eps, f, va, a: str, c: str):
    """Fields given in different representations cannot be combined as they are: deepali documents a ValueError.  Either that,
    or the combination is expressed consistently - but never vectors of one representation under the label of another."""
    from deepali.data import FlowField, FlowFields

    N = case["N"]
    uw = [m.vectors(v, a, "world") for m, v in zip(ms, va)]
    vc = [m.vectors(v, a, c) for m, v in zip(ms, va)]

    def world_of(obj, scale, what, kind):
        its = items(obj)
        q = obj.axes().value
        for i, m in enumerate(ms[: len(its)]):
            bnd = KC * eps * scale * (conv_scale(m, va[i], a, "world") + conv_scale(m, vc[i], c, "world"))
            check_close(m.vectors(its[i], q, "world"), scale * uw[i], 2 * bnd, kind, f"{what} (result labelled {q}), item {i}")

    g = build_flow(case, vc, c, gr, dt)
    try:
        z = f + g
    except ValueError:
        z = None
    if isinstance(z, (FlowField, FlowFields)):
        world_of(z, 2.0, f"sum of the field in {a} axes and the same field in {c} axes", "mixed_axes_sum_mislabelled")
    if case["kind"] == "FlowFields":
        parts = [FlowField(torch.tensor(chfirst(va[0]), dtype=dt), gr[0], _A(a))]
        parts += [FlowField(torch.tensor(chfirst(vc[i]), dtype=dt), gr[i], _A(c)) for i in range(1, N)]
        parts.append(FlowField(torch.tensor(chfirst(vc[0]), dtype=dt), gr[0], _A(c)))
        try:
            z = FlowFields.from_images(parts)
        except ValueError:
            z = None
        if z is not None:
            its = items(z)
            q = z.axes().value
            mm, exp = list(ms) + [ms[0]], list(uw) + [uw[0]]
            for i in range(len(its)):
                bnd = KC * eps * (conv_scale(mm[i], va[i % N], a, "world") + conv_scale(mm[i], vc[i % N], c, "world"))
                check_close(mm[i].vectors(its[i], q, "world"), exp[i], 2 * bnd, "mixed_axes_batch_mislabelled",
                            f"from_images() of fields in {a} and {c} axes (result labelled {q}), item {i}")
        # append() documents that the other batch is expressed w.r.t. the axes of this batch
        z = f.append(g)
        if type(z) is not FlowFields or z.axes() is not _A(a) or len(items(z)) != 2 * N or len(result_grids(z)) != 2 * N:
            raise Violation("append_result", f"append() of a batch in {c} axes to a batch in {a} axes: {type(z).__name__} with {len(items(z))} items on "
                                             f"{len(result_grids(z))} grids in {z.axes()} axes")
        its = items(z)
        for i in range(2 * N):
            j = i % N
            if not (result_grids(z)[i] == gr[j]):
                raise Violation("append_result", f"append(): item {i} is not on the grid of the field it came from")
            bnd = KC * eps * (conv_scale(ms[j], va[j], a, "world") + conv_scale(ms[j], vc[j], c, "world")) * cond_vec(ms[j])
            check_close(ms[j].vectors(its[i], a, "world"), uw[j], 2 * bnd, "append_mislabelled",
                        f"append() of a batch in {c} axes to the same batch in {a} axes, item {i}")
        try:
            z = torch.cat([f, g], dim=0)
        except ValueError:
            z = None
        if isinstance(z, FlowFields):
            its = items(z)
            q = z.axes().value
            for i in range(len(its)):
                j = i % N
                bnd = KC * eps * (conv_scale(ms[j], va[j], a, "world") + conv_scale(ms[j], vc[j], c, "world"))
                check_close(ms[j].vectors(its[i], q, "world"), uw[j], 2 * bnd, "mixed_axes_batch_mislabelled",
                            f"torch.cat of batches in {a} and {c} axes (result labelled {q}), item {i}")


# ---------------------------------------------------------------------------------------
# (2a) exp(): same world result in every representation; closed form for invariant affine velocities


@st.composite
def exp_cases(draw):
    D = draw(gen.dims())
    case = draw(grid_sets(D, 9 if D == 2 else 6))
    ftype = draw(st.sampled_from(["affine", "affine", "smooth"]))
    case.update({"D": D, "dtype": draw(gen.dtypes()), "ftype": ftype, "src": draw(st.sampled_from(["model", "model", "axes"])),
                 "steps": draw(st.one_of(st.none(), st.integers(0, 6))), "route": draw(st.sampled_from(ROUTES))})
    if ftype == "affine":
        case.update({
            "gac": draw(st.booleans()),
            "M": draw(st.lists(gen.qfloat(-0.5, 0.5, 0.01), min_size=D * D, max_size=D * D)),
            "t": draw(st.lists(gen.qfloat(-0.3, 0.3, 0.01), min_size=D, max_size=D)),
            "m1": draw(st.lists(gen.qfloat(0.0, 1.0, 0.05), min_size=D, max_size=D)),
            "m2": draw(st.lists(gen.qfloat(0.0, 0.3, 0.05), min_size=D, max_size=D)),
            "scale": draw(st.one_of(st.none(), st.sampled_from([1.0, 0.5, 2.0]), gen.qfloat(0.1, 2.0, 0.01))),
        })
    else:
        case.update({"field": draw(fields(D, ("smoothl",))),
                     "scale": draw(st.one_of(st.none(), gen.qfloat(0.1, 1.5, 0.01), gen.qfloat(-1.5, -0.1, 0.01)))})
    return case


def run_exp(case):
    ms, gr = setup(case)
    D, N, dt = case["D"], case["N"], tdtype(case["dtype"])
    eps = _eps(dt)
    scale = case["scale"]
    s = 1.0 if scale is None else float(scale)
    size = case["grids"][0]["size"]
    shape = list(size[::-1])
    steps = 5 if case["steps"] is None else case["steps"]
    expect_w = None
    if case["ftype"] == "affine":
        cg = "cube_corners" if case["gac"] else "cube"
        x = cube_coords(shape, case["gac"])
        H0 = build_generator({"D": D, "shape": shape, "ac": case["gac"], "M": case["M"], "t": case["t"], "m1": case["m1"], "m2": case["m2"]})
        Hs = [H0 / (i + 1) for i in range(N)]
        for H in Hs:
            steps = min_steps(H, s, steps)
        u_idx = [m.vectors(x @ H[:, :D].T + H[:, D], cg, "grid") for m, H in zip(ms, Hs)]
        expect_w, bounds = [], []
        for m, H in zip(ms, Hs):
            P = ref.sas_power(H, steps, s)
            expect_w.append(m.vectors(x @ (P[:D, :D] - np.eye(D)).T + P[:D, D], cg, "world"))
            mag = max(1.0, float(np.abs(H).sum(1).max()) * abs(s))
            Lw = float(absmat(m, cg, "world").sum(1).max())
            bounds.append(KO * eps * (steps + 1) * mag * Lw * cond_vec(m))
    else:
        u_idx = [index_field(case["field"], m, i) for i, m in enumerate(ms)]
        bounds = []
        for m, u in zip(ms, u_idx):
            # index units: input/output conversions cond_vec*amp; each squaring step samples the current displacement
            # (Lipschitz L_j <= 2^j lip/2^k e^lip) at coordinates of magnitude n/2 and adds vectors of magnitude <= amp;
            # relative to the doubling magnitudes a perturbation grows by (1 + L_j/2) per step, <= exp(lip e^lip / 2) overall
            amp = float(np.abs(u).max()) * abs(s)
            lip = field_lipschitz(case["field"], m) * abs(s)
            Lw = float(np.abs(m.A).sum(1).max())
            growth = math.exp(0.5 * lip * math.exp(lip))
            bounds.append(KO * eps * growth * (2 * cond_vec(m) * amp + (steps + 1) * (lip * float(m.n.max()) / 2 + amp)) * Lw)
    kw = {}
    if scale is not None:
        kw["scale"] = scale
    if case["steps"] is None and steps == 5:
        pass
    else:
        kw["steps"] = steps
    world = {}
    worst = 0.0
    for r in AX:
        f = given_in(case, ms, gr, dt, r, u_idx)
        f0 = f.tensor().clone()
        out = f.exp(**kw)
        io = check_struct(out, f, N, gr, r, dt, "exp")
        if not torch.equal(f.tensor(), f0):
            raise Violation("input_modified", "exp() modified the flow field it was called on")
        world[r] = [m.vectors(o, r, "world") for m, o in zip(ms, io)]
        if expect_w is not None:
            for i in range(N):
                worst = max(worst, check_close(world[r][i], expect_w[i], bounds[i], "exp_closed_form",
                                               f"exp(scale={scale}, steps={kw.get('steps')}) of {r} vectors (item {i}) vs (I+sH/2^k)^(2^k)"))
        ow = items(out.axes(_A("world")))
        for i, m in enumerate(ms):
            check_close(ow[i], world[r][i], KC * eps * conv_scale(m, io[i], r, "world"), "exp_result_to_world",
                        f"exp() result in {r} axes converted with axes(WORLD), item {i}")
    for r in AX:
        for i in range(N):
            worst = max(worst, check_close(world[r][i], world["cube"][i], 2 * bounds[i], "exp_representation_dependent",
                                           f"world result of exp() for input in {r} axes vs cube axes, item {i}"))
    labs, objq, distinct = grid_labels(case)
    moving = max(float(np.abs(u).max()) for u in u_idx) > 1e-3
    # the bound must be small against the displacement it guards (tiny grids with steep smooth fields give e^lip >> 1)
    tight = all(bounds[i] <= 0.02 * float(np.abs(world["cube"][i]).max()) for i in range(N))
    return {"ratio": worst, "nontrivial": objq and moving and tight and steps >= 1 and (N == 1 or distinct),
            "labels": labs + ["field=" + case["ftype"], f"steps={steps}", "steps_arg=" + ("default" if "steps" not in kw else "given"),
                              "scale=" + ("default" if scale is None else "given"), "src=" + case["src"],
                              "route=" + case.get("route", "direct")]}


# ---------------------------------------------------------------------------------------
# (2b) warp_image(): linear-ramp image, same grid as the flow field


@st.composite
def warp_cases(draw):
    D = draw(gen.dims())
    case = draw(grid_sets(D, 10 if D == 2 else 6))
    shared = len(case["grids"]) == 1
    forms = ["Image", "ImageBatch"] if shared else ["ImageBatch"]
    if case["N"] == 1:
        forms.append("ImageBatchK")  # one flow field applied to a batch of K images
    C = draw(st.integers(1, 2))
    case.update({"D": D, "dtype": draw(gen.dtypes()), "field": draw(fields(D, ("affine", "affine", "smooth"))),
                 "src": draw(st.sampled_from(["model", "model", "axes"])),
                 "image": draw(st.sampled_from(forms)), "K": draw(st.integers(2, 3)), "C": C,
                 "alpha": draw(st.lists(gen.qfloat(-3.0, 3.0, 0.01), min_size=C * D, max_size=C * D)),
                 "beta": draw(st.lists(gen.qfloat(-10.0, 10.0, 0.1), min_size=C, max_size=C)),
                 "sampling": draw(st.sampled_from([None, "linear"])),
                 "padding": draw(st.sampled_from([None, "zeros", "border"])),
                 "route": draw(st.sampled_from(ROUTES)), "img_ac": draw(st.sampled_from(["same", "same", "flip"]))})
    return case


def ramp_params(case, j: int):
    C, D = case["C"], case["D"]
    alpha = np.array(case["alpha"], dtype=np.float64).reshape(C, D) * (1 + 0.5 * j)
    beta = np.array(case["beta"], dtype=np.float64) + j
    return alpha, beta


def run_warp(case):
    from deepali.data import Image, ImageBatch

    ms, gr = setup(case)
    D, N, dt = case["D"], case["N"], tdtype(case["dtype"])
    eps = _eps(dt)
    u_idx = [index_field(case["field"], m, i) for i, m in enumerate(ms)]
    form = case["image"]
    n_img = {"Image": 1, "ImageBatch": N, "ImageBatchK": case["K"]}[form]
    n_out = max(N, n_img)
    # image j lives on the grid of flow item j (all grids equal unless N == n_img)
    ic = [(ms[min(j, N - 1)].index_points() - (ms[min(j, N - 1)].n - 1) / 2) for j in range(n_img)]
    ramps = []
    for j in range(n_img):
        alpha, beta = ramp_params(case, j)
        ramps.append(ic[j] @ alpha.T + beta)  # (..., X, C)
    # the image grids are the flow grids; "flip": equal grids (Grid.__eq__) that carry the other align_corners flag, which
    # only says how the *image* would be resized and must not change how the flow vectors are read
    gimg = [g.align_corners(not g.align_corners()) for g in gr] if case.get("img_ac") == "flip" else gr
    if form == "Image":
        image = Image(torch.tensor(chfirst(ramps[0]), dtype=dt), gimg[0])
    else:
        gi = [gimg[min(j, N - 1)] for j in range(n_img)]
        image = ImageBatch(torch.tensor(np.stack([chfirst(x) for x in ramps]), dtype=dt), gi)
    kw = {}
    if case["sampling"] is not None:
        kw["sampling"] = case["sampling"]
    if case["padding"] is not None:
        kw["padding"] = case["padding"]
    # closed form, output item k: flow item min(k, N-1), image min(k, n_img-1)
    expect, inside, bounds, signal = [], [], [], []
    for k in range(n_out):
        fi, ii = min(k, N - 1), min(k, n_img - 1)
        m = ms[fi]
        alpha, beta = ramp_params(case, ii)
        j = m.index_points() + u_idx[fi]
        expect.append((j - (m.n - 1) / 2) @ alpha.T + beta)
        inside.append(np.all((j >= 0) & (j <= m.n - 1), axis=-1))
        # index error: coordinates of magnitude n plus the conversion of the vectors (componentwise condition |A^-1||A|)
        uterm = float((np.abs(u_idx[fi]).reshape(-1, D) @ kappa_idx(m).T).max())
        gsum = float(np.abs(alpha).sum(1).max())
        imax = float(np.abs(ramps[ii]).max())
        if case["padding"] in (None, "zeros"):
            gsum += imax  # zero padding: the image drops from its boundary value to 0 within one sample
        bounds.append(KO * eps * ((float(m.n.max()) + uterm) * gsum + imax))
        signal.append(float(np.abs(u_idx[fi] @ alpha.T).max()))  # intensity change caused by the displacement
    outs = {}
    worst = 0.0
    for r in AX:
        f = given_in(case, ms, gr, dt, r, u_idx)
        f0 = f.tensor().clone()
        out = f.warp_image(image, **kw)
        single = case["kind"] == "FlowField" and form == "Image"
        want = Image if single else ImageBatch
        if type(out) is not want:
            raise Violation("warp_result_type", f"{case['kind']}.warp_image({form}) returned {type(out).__name__}")
        io = items(out)
        if len(io) != n_out:
            raise Violation("warp_batch_size", f"{case['kind']}(N={N}).warp_image({form} of {n_img}) returned {len(io)} images")
        rg = result_grids(out)
        if len(rg) != n_out:
            raise Violation("warp_batch_grid_count", f"{case['kind']}(N={N}).warp_image({form} of {n_img}): {len(io)} images but {len(rg)} grids")
        for k in range(n_out):
            if not (rg[k] == gr[min(k, N - 1)]):
                raise Violation("warp_result_grid", f"output image {k} is not on the grid of its flow field")
            if io[k].shape != expect[k].shape:
                raise Violation("warp_result_shape", f"output image {k} has shape {io[k].shape}, expected {expect[k].shape}")
        if not torch.equal(f.tensor(), f0):
            raise Violation("input_modified", "warp_image() modified the flow field")
        outs[r] = io
        if case["field"]["type"] == "affine":
            for k in range(n_out):
                msk = inside[k]
                if msk.any():
                    worst = max(worst, check_close(io[k][msk], expect[k][msk], bounds[k], "warp_closed_form",
                                                   f"ramp image warped by world-affine flow given in {r} axes, output {k}"))
    for r in AX:
        for k in range(n_out):
            worst = max(worst, check_close(outs[r][k], outs["cube"][k], 2 * bounds[k], "warp_representation_dependent",
                                           f"warp_image() for flow given in {r} axes vs cube axes, output {k}"))
    n_inside = int(sum(int(x.sum()) for x in inside))
    labs, objq, distinct = grid_labels(case)
    moving = max(float(np.abs(u).max()) for u in u_idx) > 0.05
    tight = all(b <= 0.02 * sg for b, sg in zip(bounds, signal))
    return {"ratio": worst, "nontrivial": objq and moving and tight and n_inside >= 2 and (N == 1 or distinct or form == "Image"),
            "labels": labs + ["field=" + case["field"]["type"], "image=" + form, f"pad={case['padding']}", "src=" + case["src"],
                              "route=" + case.get("route", "direct"), "img_ac=" + case.get("img_ac", "same"),
                              "inside>=half" if n_inside * 2 >= sum(x.size for x in inside) else "inside<half"]}


# ---------------------------------------------------------------------------------------
# (2c, 3) sample(): resampling on other grids

# Relation of the target grid to the grid of the field it resamples.  "unrelated": any orientation / spacing / size with the
# centre inside the field; "samesize": unrelated, but with the number of samples of the source; the others are the grids a user
# derives from the field's own grid (same domain at another resolution, same grid with the other align_corners flag,
# cropped / padded sub-domains, translated or mirrored copies).
REL_CLASSES = ["unrelated", "unrelated", "samesize", "resize", "resize", "resize", "acflip", "crop", "crop", "translate", "mirror"]


def derive_target(g: dict, spec: dict) -> dict:
    """Descriptor of the grid obtained from grid descriptor g by the derivation `spec` (float64 arithmetic, no deepali).

    resize: same centre, new size m; spacing s (n-1)/(m-1) if corner points are preserved (align_corners), s n/m if the
    extent is preserved.  crop: per axis lo/hi samples removed (negative: added), spacing kept, centre moved by
    A (lo - hi)/2.  pool: windows of k samples.  translate: centre moved by A off (off in samples).  mirror: axis k
    reversed about the centre."""
    t = {k: (list(v) if isinstance(v, list) else v) for k, v in g.items()}
    n = np.array(g["size"], dtype=np.float64)
    s = np.array(g["spacing"], dtype=np.float64)
    m = ref.GridModel.from_desc(g)
    rel = spec["rel"]
    if rel == "resize":
        new = np.array(spec["size"], dtype=np.float64)
        keep_corners = g["ac"] if spec.get("rac") is None else spec["rac"]
        sp = s * (n - 1) / (new - 1) if keep_corners else s * n / new
        t["size"] = [int(v) for v in spec["size"]]
        t["spacing"] = [float(v) for v in sp]
    elif rel == "crop":
        lo = np.array([p[0] for p in spec["num"]], dtype=np.float64)
        hi = np.array([p[1] for p in spec["num"]], dtype=np.float64)
        t["size"] = [int(v) for v in (n - lo - hi)]
        t["center"] = [float(v) for v in (m.c + m.A @ ((lo - hi) / 2))]
    elif rel == "pool":  # non-overlapping windows of k samples: floor(n/k) samples at the window centres, spacing k s
        k = np.array(spec["k"], dtype=np.float64)
        new = np.floor(n / k)
        t["size"] = [int(v) for v in new]
        t["spacing"] = [float(v) for v in s * k]
        t["center"] = [float(v) for v in (m.o + m.A @ ((k - 1) / 2 + k * (new - 1) / 2))]
    elif rel == "translate":
        t["center"] = [float(v) for v in (m.c + m.A @ np.array(spec["off"], dtype=np.float64))]
    elif rel == "mirror":
        t["flip"][spec["axis"]] = -t["flip"][spec["axis"]]
    elif rel != "acflip":
        raise ValueError(rel)
    if spec.get("tac") is not None:
        t["ac"] = bool(spec["tac"])
    return t


def api_target(g, spec: dict):
    """The same derivation through deepali's own Grid methods (what a user would write); None if spec["via"] == "desc"."""
    via = spec.get("via", "desc")
    if via == "desc":
        return None
    rel = spec["rel"]
    if rel == "resize":
        kw = {} if spec.get("rac") is None else {"align_corners": spec["rac"]}
        size = [int(v) for v in spec["size"]]
        if via == "resize":
            t = g.resize(size, **kw)
        elif via == "resize_args":
            t = g.resize(*size, **kw)
        elif via == "reshape":
            t = g.reshape(size[::-1], **kw)
        elif via == "downsample":
            t = g.downsample(1, dims=spec.get("dims"), **kw)
        elif via == "upsample":
            t = g.upsample(1, dims=spec.get("dims"), **kw)
        else:
            raise ValueError(via)
    elif rel == "crop":
        num = [int(v) for p in spec["num"] for v in p]
        if via == "crop_num":
            t = g.crop(num=num)
        elif via == "pad_num":
            t = g.pad(num=[-v for v in num])
        elif via == "crop_margin":
            t = g.crop(margin=[int(p[0]) for p in spec["num"]])
        elif via == "pad_margin":
            t = g.pad(margin=[-int(p[0]) for p in spec["num"]])
        elif via == "center_crop" or via == "center_pad":
            size = [int(n - p[0] - p[1]) for n, p in zip(g.size(), spec["num"])]
            t = g.center_crop(size) if via == "center_crop" else g.center_pad(size)
        elif via == "narrow":
            (d,) = [i for i, p in enumerate(spec["num"]) if p[0] or p[1]]
            t = g.narrow(d, int(spec["num"][d][0]), int(g.size()[d] - spec["num"][d][0] - spec["num"][d][1]))
        elif via == "roi":
            t = g.region_of_interest([int(p[0]) for p in spec["num"]], [int(n - p[0] - p[1]) for n, p in zip(g.size(), spec["num"])])
        else:
            raise ValueError(via)
    elif rel == "acflip":
        t = g
    else:
        raise ValueError(rel)
    if spec.get("tac") is not None:
        t = t.align_corners(bool(spec["tac"]))
    return t


def grids_agree(g, t: ref.GridModel, eps: float = EPS32) -> bool:
    """deepali grid g (derived with Grid methods) equals the float64 model t of the same derivation, to float32 accuracy."""
    if [int(v) for v in g.size()] != [int(v) for v in t.n]:
        return False
    sp = g.spacing().double().numpy()
    R = g.direction().double().numpy()
    c = g.center().double().numpy()
    W = float(np.abs(t.c).max() + np.abs(t.s * t.n).sum())
    return bool(np.all(np.abs(sp - t.s) <= 64 * eps * t.s) and np.all(np.abs(R - t.R) <= 64 * eps) and np.all(np.abs(c - t.c) <= 64 * eps * W))


@st.composite
def target_specs(draw, D: int, size, rel: str):
    """Derivation of a related target grid from a source grid of the given size (the same spec is applied to every field)."""
    n = list(size)
    cap = 12 if D == 2 else 7
    spec = {"rel": rel, "via": "desc", "tac": draw(st.sampled_from([None, None, None, None, True, False]))}
    if rel == "resize":
        halve = [i for i, v in enumerate(n) if v % 2 == 0 and v >= 4]  # axes that downsample() halves to an integer size >= 2
        double = [i for i, v in enumerate(n) if 2 * v <= cap]
        vias = ["desc", "resize", "resize_args", "reshape"] + (["downsample"] * 2 if halve else []) + (["upsample"] * 2 if double else [])
        via = draw(st.sampled_from(vias))
        if via in ("downsample", "upsample"):
            ok = halve if via == "downsample" else double
            dims = draw(st.lists(st.sampled_from(ok), min_size=1, max_size=len(ok), unique=True).map(sorted))
            if len(dims) == D and draw(st.booleans()):
                dims = None  # default: all axes
            f = (lambda v: v // 2) if via == "downsample" else (lambda v: 2 * v)
            new = [f(v) if dims is None or i in dims else v for i, v in enumerate(n)]
            spec["dims"] = dims
        else:
            new = draw(st.lists(st.integers(2, cap), min_size=D, max_size=D))
            if new == n:
                new[0] = n[0] + 1 if n[0] < cap else n[0] - 1
        spec.update({"via": via, "size": new, "rac": draw(st.sampled_from([None, None, None, True, False]))})
    elif rel == "crop":
        form = draw(st.sampled_from(["num", "margin", "center", "narrow", "roi"]))
        if form == "narrow" and max(n) < 3:
            form = "num"
        if form == "narrow":  # one axis only, samples removed at either end
            d = draw(st.sampled_from([i for i, v in enumerate(n) if v >= 3]))
            lo = draw(st.integers(0, n[d] - 2))
            hi = draw(st.integers(0 if lo else 1, n[d] - 2 - lo))
            num = [[lo, hi] if i == d else [0, 0] for i in range(D)]
            via = draw(st.sampled_from(["narrow", "narrow", "narrow", "crop_num", "desc"]))
        elif form == "margin":  # symmetric, positive = crop, negative = pad
            mg = [draw(st.integers(-2, (v - 2) // 2)) for v in n]
            if not any(mg):
                mg[0] = -1
            num = [[v, v] for v in mg]
            via = draw(st.sampled_from(["crop_margin", "pad_margin", "crop_num", "desc"]))
        elif form == "center":  # center_crop(size) / center_pad(size)
            if draw(st.booleans()) and max(n) > 2:
                new = [draw(st.integers(2, v)) for v in n]
                if new == n:
                    d = n.index(max(n))
                    new[d] = n[d] - 1
                num = [[(a - b) // 2, (a - b) - (a - b) // 2] for a, b in zip(n, new)]
                via = "center_crop"
            else:
                new = [draw(st.integers(v, v + 3)) for v in n]
                if new == n:
                    new[0] = n[0] + 1
                num = [[-((b - a) // 2), -((b - a) - (b - a) // 2)] for a, b in zip(n, new)]
                via = "center_pad"
        else:  # per axis and side; region_of_interest(start, size) removes only, crop(num)/pad(num) take mixed signs
            low = 0 if form == "roi" and max(n) > 2 else -2
            num = []
            for v in n:
                lo = draw(st.integers(low, min(2, v - 2)))
                hi = draw(st.integers(low, min(2, v - 2 - lo)))
                num.append([lo, hi])
            if not any(v for p in num for v in p):
                d = n.index(max(n))
                num[d][1] = 1 if low == 0 else -1
            via = "roi" if low == 0 else draw(st.sampled_from(["crop_num", "crop_num", "pad_num", "desc"]))
        spec.update({"via": via, "num": num})
    elif rel == "pool":
        k = [draw(st.integers(1, min(3, v // 2))) for v in n]
        if max(k) == 1:
            d = n.index(max(n))
            k[d] = 2 if n[d] >= 4 else 1
        spec.update({"via": "avg_pool", "k": k, "scalar": draw(st.booleans())})  # scalar: kernel_size=k instead of (k, ...) if all equal
    elif rel == "translate":
        off = draw(st.lists(gen.qfloat(-2.0, 2.0, 0.25), min_size=D, max_size=D))
        if not any(off):
            off[0] = 0.5
        spec["off"] = off
    elif rel == "mirror":
        spec["axis"] = draw(st.integers(0, D - 1))
    elif rel == "acflip":
        spec["via"] = draw(st.sampled_from(["desc", "api"]))
        spec["tac"] = None  # set per target: the flag the source grid does not have
    return spec


@st.composite
def sample_cases(draw):
    D = draw(gen.dims())
    case = draw(grid_sets(D, 10 if D == 2 else 6, near=True))
    N = case["N"]
    srcs = case["grids"] * N if len(case["grids"]) == 1 else case["grids"]
    g0 = case["grids"][0]
    m0 = ref.GridModel.from_desc(g0)
    mode = draw(st.sampled_from(["single", "single", "list_same", "list_one", "list_distinct", "list_distinct", "coords"]))
    nt = N if mode == "list_distinct" else 1
    rel = draw(st.sampled_from(REL_CLASSES))
    targets, tspec = [], []
    if rel in ("unrelated", "samesize"):
        tsize = list(g0["size"]) if rel == "samesize" else draw(st.lists(st.integers(2, 5 if D == 2 else 4), min_size=D, max_size=D))
        for _ in range(nt):
            t = draw(one_grid(D, 2, 5))
            t["size"] = list(tsize)
            pos = draw(st.lists(gen.qfloat(0.15, 0.85, 0.01), min_size=D, max_size=D))
            fac = draw(st.lists(gen.qfloat(0.15, 1.2, 0.01), min_size=D, max_size=D))
            c = m0.points(np.array(pos) * (m0.n - 1), "grid", "world")
            t["center"] = [round(float(v), 4) for v in c]
            t["spacing"] = [float(f"{min(g0['spacing']) * f:.4g}") for f in fac]
            targets.append(t)
            tspec.append({"rel": rel, "via": "desc"})
    else:
        spec = draw(target_specs(D, g0["size"], rel))
        for i in range(nt):
            sp = dict(spec)
            if rel == "acflip":
                sp["tac"] = not srcs[i]["ac"]
            targets.append(derive_target(srcs[i], sp))
            tspec.append(sp)
    case.update({"D": D, "dtype": draw(gen.dtypes()), "field": draw(fields(D, ("affine", "affine", "smooth", "smoothl"))),
                 "src": draw(st.sampled_from(["model", "model", "axes"])), "target": mode, "targets": targets, "tspec": tspec,
                 "cshape": draw(st.sampled_from(["grid", "grid", "shared", "points", "points_shared"])),
                 "route": draw(st.sampled_from(ROUTES)),
                 "mode": draw(st.sampled_from([None, None, "linear", "linear", "nearest"])),
                 "padding": draw(st.sampled_from([None, "zeros", "border"]))})
    return case


def target_grids(case, gr, N: int):
    """Models and deepali grids of the targets, one per field; derived grids are built with deepali's own Grid methods when
    the case says so (and must then agree with the float64 model of the same derivation, else the case is skipped: the
    derivation methods are C03's subject)."""
    specs = case.get("tspec") or [{"rel": "unrelated", "via": "desc"}] * len(case["targets"])
    mt = [ref.GridModel.from_desc(t) for t in case["targets"]]
    gt = []
    for i, (t, sp) in enumerate(zip(case["targets"], specs)):
        g = api_target(gr[i], sp)
        if g is None:
            g = make_grid(t)
        elif not grids_agree(g, mt[i]):
            raise Skip(f"grid derived with Grid.{sp['via']}() deviates from the model of the derivation")
        gt.append(g)
    if len(mt) == 1:
        mt, gt = mt * N, gt * N
    return mt, gt, specs[0]


def run_sample(case):
    ms, gr = setup(case)
    D, N, dt = case["D"], case["N"], tdtype(case["dtype"])
    eps = _eps(dt)
    u_idx = [index_field(case["field"], m, i) for i, m in enumerate(ms)]
    tmode = case["target"]
    if case["kind"] == "FlowField" and tmode.startswith("list"):
        tmode = "single"  # a single flow field takes a single grid
    mt, gt, spec = target_grids(case, gr, N)
    if case["kind"] == "FlowField" or tmode in ("single", "coords"):
        arg = gt[0]
    elif tmode == "list_one":
        arg = [gt[0]]  # a sequence of one grid: "a single grid which defines the sampling points for all images in the batch"
    else:
        arg = list(gt)
    kw = {}
    if case["mode"] is not None:
        kw["mode"] = case["mode"]
    if case["padding"] is not None:
        kw["padding"] = case["padding"]
    # linear interpolation reproduces an affine field; nearest-neighbour sampling only returns stored vectors (the sampling
    # positions do not depend on the representation, so every representation picks the same neighbours)
    affine = case["field"]["type"] == "affine" and case["mode"] != "nearest"
    # sampling positions per field: the world points of its target grid, or (tensor argument) normalised coordinates w.r.t.
    # the field's own grid in the cube convention of the batch (= align_corners flag of the first grid)
    cshape = case.get("cshape", "grid") if tmode == "coords" else "grid"
    cx = "cube_corners" if case["grids"][0]["ac"] else "cube"
    coords = None
    if tmode == "coords":
        per_item = cshape in ("grid", "points") or case["kind"] == "FlowField"
        cs = [mt[i].points(mt[i].index_points(), "grid", cx, ms[i]) for i in range(N if per_item else 1)]
        if cshape.startswith("points"):
            cs = [c.reshape(-1, D) for c in cs]
        coords = torch.tensor(cs[0] if case["kind"] == "FlowField" else np.stack(cs), dtype=dt)
        xws = [ms[i].points(cs[i if per_item else 0], cx, "world") for i in range(N)]
    else:
        xws = [t.world_points() for t in mt]
    expect, nodes, inside, bounds, signal = [], [], [], [], []
    for i in range(N):
        m, t = ms[i], mt[i]
        xw = xws[i]
        idx = m.points(xw, "world", "grid")
        inside.append(np.all((idx >= 0) & (idx <= m.n - 1), axis=-1))
        uw = m.vectors(u_idx[i], "grid", "world")
        if affine:
            Mw, tw = world_affine(case["field"], m, i)
            expect.append((xw - m.c) @ Mw.T + tw)
        else:
            expect.append(None)
        # positions that coincide with samples of the field: interpolation returns the stored vector there (any field)
        near = np.rint(idx)
        on = inside[i] & np.all(np.abs(idx - near) <= 1e-7, axis=-1)
        k = np.clip(near, 0, m.n - 1).astype(int)
        nodes.append((on, uw[tuple(k[..., d] for d in range(D - 1, -1, -1))]))
        # coordinate error (index units of the source grid) of the point map target cube -> world -> source cube
        W = max(float(np.abs(m.c).max() + np.abs(m.s * m.n).sum()), float(np.abs(t.c).max() + np.abs(t.s * t.n).sum()), 1.0)
        cpt = W / float(m.s.min()) + float(m.n.max()) + float(np.abs(idx).max())
        Lw = float(np.abs(m.A).sum(1).max())
        grad = field_lipschitz(case["field"], m) / (i + 1) * Lw
        if case["padding"] in (None, "zeros"):
            grad += float(np.abs(uw).max())  # zero padding: the field drops from its boundary value to 0 within one sample
        uterm = float((np.abs(uw).reshape(-1, D) @ (kappa(t) @ kappa(m)).T).max())
        bounds.append(KO * eps * (cpt * grad + uterm))
        signal.append(float(np.abs(uw).max()))
    same_domain = all(a.same_domain_as(b) for a, b in zip(gr, gt))
    world = {}
    worst = 0.0
    for r in AX:
        f = given_in(case, ms, gr, dt, r, u_idx)
        f0 = f.tensor().clone()
        if tmode == "coords":
            # tensor of normalised coordinates w.r.t. the flow field's own grid: values are returned as stored (axes r, old grid)
            out = f.sample(coords, **kw)
            if type(out) is not torch.Tensor:
                raise Violation("sample_coords_result_type", f"sample(Tensor) returned {type(out).__name__}")
            t = out.detach().double().numpy()
            io = [np.moveaxis(t, 0, -1)] if case["kind"] == "FlowField" else [np.moveaxis(x, 0, -1) for x in t]
            if len(io) != N:
                raise Violation("sample_batch_size", f"sample(Tensor of shape {tuple(coords.shape)}) returned {len(io)} items for N={N}")
            for i in range(N):
                if io[i].shape != xws[i].shape:
                    raise Violation("sample_coords_result_shape", f"sample(Tensor of shape {tuple(coords.shape)}): item {i} has shape "
                                                                  f"{io[i].shape[:-1]} x {io[i].shape[-1]} channels, expected {xws[i].shape}")
            world[r] = [m.vectors(o, r, "world") for m, o in zip(ms, io)]
        else:
            out = f.sample(arg, **kw)
            if type(out) is not type(f):
                raise Violation("sample_result_type", f"{type(f).__name__}.sample(grid) returned {type(out).__name__}")
            io = items(out)
            rg = result_grids(out)
            if len(io) != N or len(rg) != N:
                raise Violation("sample_single_grid_batch_size" if tmode in ("single", "list_one") else "sample_batch_size",
                                f"{case['kind']}(N={N}, axes={r}).sample({tmode}): result has {len(io)} fields and {len(rg)} grids")
            io = check_struct(out, f, N, gt, r, dt, "sample")
            world[r] = [t.vectors(o, r, "world") for t, o in zip(mt, io)]
        if not torch.equal(f.tensor(), f0):
            raise Violation("input_modified", "sample() modified the flow field")
        for i in range(N):
            msk = inside[i]
            if affine and msk.any():
                worst = max(worst, check_close(world[r][i][msk], expect[i][msk], bounds[i], "sample_world_affine",
                                               f"sample({tmode}, {spec['rel']} target) of world-affine field given in {r} axes, item {i}"))
            on, val = nodes[i]
            if on.any():
                worst = max(worst, check_close(world[r][i][on], val[on], bounds[i], "sample_node_values",
                                               f"sample({tmode}, {spec['rel']} target) at positions of the field's own samples, field given in {r} axes, item {i}"))
    for r in AX:
        for i in range(N):
            worst = max(worst, check_close(world[r][i], world["cube"][i], 2 * bounds[i], "sample_representation_dependent",
                                           f"world result of sample({tmode}, {spec['rel']} target) for field given in {r} axes vs cube axes, item {i}"))
    n_inside = int(sum(int(x.sum()) for x in inside))
    n_nodes = int(sum(int(on.sum()) for on, _ in nodes))
    labs, objq, distinct = grid_labels(case)
    tobl = all(gen.grid_is_oblique(t) for t in case["targets"])
    tight = all(b <= 0.02 * sg for b, sg in zip(bounds, signal))
    rel = spec["rel"]
    if rel == "crop":
        flat = [v for p in spec["num"] for v in p]
        rel = "crop" if min(flat) >= 0 else "pad" if max(flat) <= 0 else "croppad"
    tac = "".join("T" if t["ac"] else "F" for t in case["targets"])
    return {"ratio": worst, "nontrivial": objq and tobl and tight and n_inside >= 3 and (N == 1 or distinct),
            "labels": labs + ["field=" + case["field"]["type"], "target=" + tmode, f"pad={case['padding']}", "src=" + case["src"],
                              f"mode={case['mode']}", "inside>=3" if n_inside >= 3 else "inside<3", "rel=" + rel, "via=" + spec.get("via", "desc"),
                              "tac=" + tac, "same_domain" if same_domain else "other_domain", "route=" + case.get("route", "direct"),
                              "nodes>=3" if n_nodes >= 3 else "nodes<3"]
            + (["coords=" + cshape] if tmode == "coords" else [])
            + ([f"resize_ac={spec.get('rac')}"] if spec["rel"] == "resize" else [])}


# ---------------------------------------------------------------------------------------
# (2d) resize / downsample / upsample / crop / pad / ...: the image operations a flow field inherits, which put the field on
# another grid of the same family (same domain at another resolution; sub- or super-domain with the same spacing)


@st.composite
def regrid_cases(draw):
    D = draw(gen.dims())
    case = draw(grid_sets(D, 8 if D == 2 else 5, min_size=3))
    fam = draw(st.sampled_from(["resize", "resize", "crop", "crop", "pool", "pool"]))
    if fam == "pool" and max(case["grids"][0]["size"]) < 4:
        fam = "crop"
    spec = draw(target_specs(D, case["grids"][0]["size"], fam))
    spec["tac"] = None
    # Tensor-named operations (narrow, flip, indexing, ...) are C19's subject: their values are pinned to plain torch there
    spec["via"] = {"desc": "resize" if fam == "resize" else "crop_num", "reshape": "resize", "narrow": "crop_num"}.get(spec["via"], spec["via"])
    case.update({"D": D, "dtype": draw(gen.dtypes()), "field": draw(fields(D, ("affine", "affine", "smooth", "smoothl"))),
                 "src": draw(st.sampled_from(["model", "model", "axes"])), "route": draw(st.sampled_from(ROUTES)), "op": spec,
                 "r": draw(st.sampled_from(AX))})
    return case


def apply_regrid(f, spec: dict):
    via = spec["via"]
    if spec["rel"] == "resize":
        kw = {} if spec.get("rac") is None else {"align_corners": spec["rac"]}
        size = [int(v) for v in spec["size"]]
        if via == "resize":
            return f.resize(size, **kw)
        if via == "resize_args":
            return f.resize(*size, **kw)
        if via == "downsample":
            return f.downsample(1, dims=spec.get("dims"), **kw)
        if via == "upsample":
            return f.upsample(1, dims=spec.get("dims"), **kw)
        raise ValueError(via)
    if spec["rel"] == "pool":
        k = [int(v) for v in spec["k"]]
        return f.avg_pool(k[0] if len(set(k)) == 1 and spec.get("scalar") else tuple(k))
    pairs = spec["num"]
    num = [int(v) for p in pairs for v in p]
    n = [int(v) for v in (f.grid().size())]
    new = [int(a - p[0] - p[1]) for a, p in zip(n, pairs)]
    if via == "crop_num":
        return f.crop(num=num)
    if via == "pad_num":
        return f.pad(num=[-v for v in num])
    if via == "crop_margin":
        return f.crop(margin=[int(p[0]) for p in pairs])
    if via == "pad_margin":
        return f.pad(margin=[-int(p[0]) for p in pairs])
    if via == "center_crop":
        return f.center_crop(new)
    if via == "center_pad":
        return f.center_pad(new)
    if via == "roi":
        return f.region_of_interest([int(p[0]) for p in pairs], new)
    raise ValueError(via)


def run_regrid(case):
    ms, gr = setup(case)
    D, N, dt = case["D"], case["N"], tdtype(case["dtype"])
    eps = _eps(dt)
    spec = case["op"]
    fam = spec["rel"]
    u_idx = [index_field(case["field"], m, i) for i, m in enumerate(ms)]
    srcs = case["grids"] * N if len(case["grids"]) == 1 else case["grids"]
    sub = ""
    eff = dict(spec)
    if fam == "resize":
        # align_corners=None: the flag of the batch, i.e. of its first grid, says whether corner points or the extent are kept
        eff["rac"] = bool(case["grids"][0]["ac"]) if spec.get("rac") is None else bool(spec["rac"])
        sub = ":corners" if eff["rac"] else ":extent"
    elif fam == "pool":  # do the windows tile the grid, or is a remainder of samples dropped at the upper end?
        sub = ":exact" if all(n % k == 0 for n, k in zip(case["grids"][0]["size"], spec["k"])) else ":remainder"
    mt = [ref.GridModel.from_desc(derive_target(g, eff)) for g in srcs]
    # linear interpolation and window means reproduce an affine field exactly (downsample/upsample smooth it near the boundary)
    affine = case["field"]["type"] == "affine" and spec["via"] in ("resize", "resize_args", "avg_pool")
    expect, nodes, inside, bounds, signal = [], [], [], [], []
    for i in range(N):
        m, t = ms[i], mt[i]
        xw = t.world_points()
        idx = m.points(xw, "world", "grid")
        inside.append(np.all((idx >= 0) & (idx <= m.n - 1), axis=-1))
        uw = m.vectors(u_idx[i], "grid", "world")
        if affine:
            Mw, tw = world_affine(case["field"], m, i)
            expect.append((xw - m.c) @ Mw.T + tw)
        near = np.rint(idx)
        on = inside[i] & np.all(np.abs(idx - near) <= 1e-7, axis=-1) if fam == "crop" else np.zeros(idx.shape[:-1], dtype=bool)
        k = np.clip(near, 0, m.n - 1).astype(int)
        nodes.append((on, uw[tuple(k[..., d] for d in range(D - 1, -1, -1))]))
        W = max(float(np.abs(m.c).max() + np.abs(m.s * m.n).sum()), float(np.abs(t.c).max() + np.abs(t.s * t.n).sum()), 1.0)
        cpt = W / float(m.s.min()) + float(m.n.max()) + float(np.abs(idx).max())
        Lw = float(np.abs(m.A).sum(1).max())
        grad = field_lipschitz(case["field"], m) / (i + 1) * Lw + float(np.abs(uw).max())
        uterm = float((np.abs(uw).reshape(-1, D) @ (kappa(t) @ kappa(m)).T).max())
        bounds.append(KO * eps * (cpt * grad + uterm))
        signal.append(float(np.abs(uw).max()))
    world = {}
    worst = 0.0
    what = f"{spec['via']}()"
    rr = case["r"]
    # one representation per case (plus the WORLD-axes run as reference), so that each (representation, operation family,
    # preserved domain) combination is judged by its own cases and carries its own violation kind
    for r in dict.fromkeys([rr, "world"]):
        f = given_in(case, ms, gr, dt, r, u_idx)
        f0 = f.tensor().clone()
        out = apply_regrid(f, spec)
        if type(out) is not type(f):
            raise Violation("regrid_result_type", f"{type(f).__name__}.{what} returned {type(out).__name__}")
        io, rg = items(out), result_grids(out)
        if len(io) != N or len(rg) != N:
            raise Violation("regrid_batch_size", f"{case['kind']}(N={N}).{what}: result has {len(io)} fields and {len(rg)} grids")
        for i in range(N):
            if not grids_agree(rg[i], mt[i]) or tuple(rg[i].shape) != tuple(io[i].shape[:-1]):
                raise Skip(f"result grid of {spec['via']}() deviates from the model of the derivation (C03/C05)")
        if out.dtype != dt:
            raise Violation("regrid_result_dtype", f"{what}: dtype {out.dtype} for input {dt}")
        if not torch.equal(f.tensor(), f0) or f.axes() is not _A(r):
            raise Violation("input_modified", f"{what} modified the flow field")
        q = out.axes().value  # the representation the result says it is in (w.r.t. its own, new grid)
        world[r] = [t.vectors(o, q, "world") for t, o in zip(mt, io)]
    for i in range(N):
        if affine and inside[i].any():
            worst = max(worst, check_close(world[rr][i][inside[i]], expect[i][inside[i]], bounds[i], f"regrid_{fam}_world_affine:{rr}{sub}",
                                           f"{what} of world-affine field given in {rr} axes, item {i}"))
        on, val = nodes[i]
        if on.any():
            worst = max(worst, check_close(world[rr][i][on], val[on], bounds[i], f"regrid_{fam}_node_values:{rr}",
                                           f"{what} of field given in {rr} axes at the samples it keeps, item {i}"))
        worst = max(worst, check_close(world[rr][i], world["world"][i], 2 * bounds[i], f"regrid_{fam}_representation_dependent:{rr}{sub}",
                                       f"world result of {what} for field given in {rr} axes vs world axes, item {i}"))
    labs, objq, distinct = grid_labels(case)
    tight = all(b <= 0.02 * sg for b, sg in zip(bounds, signal))
    n_inside = int(sum(int(x.sum()) for x in inside))
    rel = fam
    if fam == "crop":
        flat = [v for p in spec["num"] for v in p]
        rel = "crop" if min(flat) >= 0 else "pad" if max(flat) <= 0 else "croppad"
    return {"ratio": worst, "nontrivial": objq and tight and n_inside >= 3 and (N == 1 or distinct),
            "labels": labs + ["field=" + case["field"]["type"], "op=" + spec["via"], "rel=" + rel, "src=" + case["src"], "r=" + rr,
                              "route=" + case.get("route", "direct")] + (["keeps=" + sub[1:], f"resize_ac={spec.get('rac')}"] if fam == "resize" else ["windows=" + sub[1:]] if fam == "pool" else [])}


# ---------------------------------------------------------------------------------------
# (4) sitk() / from_sitk() / write() / read(): files and ITK images hold WORLD vectors


@st.composite
def sitk_cases(draw):
    D = draw(gen.dims())
    g = draw(one_grid(D, 2, 8 if D == 2 else 5))
    return {"D": D, "N": 1, "kind": "FlowField", "grids": [g], "r": draw(st.sampled_from(AX)), "q": draw(st.sampled_from(AX)),
            "dtype": draw(gen.dtypes()), "field": draw(fields(D)), "file": draw(st.sampled_from([None, None, None, ".nrrd"])),
            "route": draw(st.sampled_from(ROUTES))}


def run_sitk(case):
    import SimpleITK as sitk
    from deepali.data import FlowField

    ms, gr = setup(case)
    m = ms[0]
    D, dt = case["D"], tdtype(case["dtype"])
    eps = _eps(dt)
    r, q = case["r"], case["q"]
    u_idx = index_field(case["field"], m, 0)
    vr = m.vectors(u_idx, "grid", r)
    uw = m.vectors(u_idx, "grid", "world")
    f = build_flow(case, [vr], r, gr, dt)
    f0 = f.tensor().clone()
    img = f.sitk()
    if img.GetNumberOfComponentsPerPixel() != D or list(img.GetSize()) != list(case["grids"][0]["size"]):
        raise Violation("sitk_layout", f"sitk(): {img.GetNumberOfComponentsPerPixel()} components, size {img.GetSize()}")
    arr = sitk.GetArrayFromImage(img).astype(np.float64)
    bw = KC * eps * conv_scale(m, vr, r, "world")
    worst = check_close(arr, uw, bw, "sitk_world_vectors", f"sitk() of field given in {r} axes vs model world vectors")
    imq = f.sitk(axes=_A(q))
    check_close(sitk.GetArrayFromImage(imq).astype(np.float64), m.vectors(vr, r, q), KC * eps * conv_scale(m, vr, r, q),
                "sitk_axes_argument", f"sitk(axes={q}) of field given in {r} axes")
    if not torch.equal(f.tensor(), f0) or f.axes() is not _A(r):
        raise Violation("input_modified", "sitk() modified the flow field")
    back = FlowField.from_sitk(img, dtype=dt)
    if type(back) is not FlowField or back.axes() is not _A("world"):
        raise Violation("from_sitk_axes", f"from_sitk() returned {type(back).__name__} with axes {back.axes()}")
    check_close(items(back)[0], arr, 2 * eps * max(1e-30, float(np.abs(arr).max())), "from_sitk_vectors", "from_sitk() changed the stored vectors")
    again = back.axes(_A(r))
    vw = m.vectors(vr, r, "world")
    bnd = bw * float(absmat(m, "world", r).sum(1).max()) + KC * eps * conv_scale(m, vw, "world", r)
    check_close(items(again)[0], vr, bnd, "sitk_roundtrip", f"from_sitk(sitk()).axes({r}) vs original {r} vectors")
    lab = FlowField.from_sitk(imq, axes=_A(q), dtype=dt)
    if lab.axes() is not _A(q):
        raise Violation("from_sitk_axes", f"from_sitk(axes={q}) reports {lab.axes()}")
    if case["file"]:
        with tempfile.TemporaryDirectory(prefix="c10_") as d:
            path = os.path.join(d, "flow" + case["file"])
            f.write(path)
            stored = sitk.GetArrayFromImage(sitk.ReadImage(path)).astype(np.float64)
            if stored.shape != uw.shape:
                raise Violation("write_layout", f"written array has shape {stored.shape}, expected {uw.shape}")
            check_close(stored, uw, bw, "write_world_vectors", f"write({case['file']}) of field given in {r} axes, read by SimpleITK")
            rd = FlowField.read(path, dtype=dt)
            if rd.axes() is not _A("world"):
                raise Violation("read_axes", f"read() reports axes {rd.axes()}")
            check_close(items(rd)[0], uw, bw, "read_world_vectors", "FlowField.read() of the written file")
            # write(path, axes=q) stores the vectors w.r.t. q; read(path, axes=q) labels what it finds accordingly
            pq = os.path.join(d, "flow_q" + case["file"])
            f.write(pq, axes=_A(q))
            stored = sitk.GetArrayFromImage(sitk.ReadImage(pq)).astype(np.float64)
            if stored.shape != uw.shape:
                raise Violation("write_layout", f"written array has shape {stored.shape}, expected {uw.shape}")
            check_close(stored, m.vectors(vr, r, q), KC * eps * conv_scale(m, vr, r, q), "write_axes_argument",
                        f"write({case['file']}, axes={q}) of field given in {r} axes, read by SimpleITK")
            rq = FlowField.read(pq, axes=_A(q), dtype=dt)
            if rq.axes() is not _A(q):
                raise Violation("read_axes", f"read(axes={q}) reports axes {rq.axes()}")
            vq = m.vectors(vr, r, q)
            check_close(items(rq.axes(_A("world")))[0], uw, bw + KC * eps * conv_scale(m, vq, q, "world") + KC * eps * conv_scale(m, vr, r, q) * float(absmat(m, q, "world").sum(1).max()),
                        "read_axes_roundtrip", f"read(axes={q}) of the file written with axes={q}, converted to world axes")
    labs, objq, _ = grid_labels(case)
    return {"ratio": worst, "nontrivial": objq and r != "world", "labels": labs + [f"r={r}", f"q={q}", "file=" + str(case["file"]), "route=" + case.get("route", "direct")]}


# ---------------------------------------------------------------------------------------
# (5) programs: several flow operations in a row on grid objects that stay alive and are derived from one another
#
# Every other facet evaluates one operation on freshly built grids.  Here a flow field given in representation r runs a short
# program (re-expression, resampling on grids derived with deepali's own Grid methods from grids that were already used for a
# vector conversion, resampling back, inherited image operations, exp, in-place scaling, flag-flipped grid copies), and after
# every step its world-space meaning is compared with (a) the float64 model of the program where one exists (multilinear
# interpolation of the world vectors, ref.interp) and (b) the run of the same program on the same field given in WORLD axes, on
# grid objects of its own that are never shared with the first run (the WORLD path performs no vector conversion at all).

PCAP = {2: 12, 3: 7}
HOWS = ["resize", "resize", "downsample", "downsample", "upsample", "pyramid", "resample", "resample", "crop", "pad", "acflip", "recenter", "respace", "reorient"]
METHODS = ["resize", "downsample", "downsample", "upsample", "pyramid", "pyramid", "pyramid", "resample", "resample", "crop", "pad", "center_crop", "center_pad"]
PADS = [None, "zeros", "border", "border"]


@st.composite
def how_specs(draw, D: int, kinds):
    """How a grid is derived from a live grid (resolved against the size the grid has when the step is reached)."""
    cap = PCAP[D]
    how = draw(st.sampled_from(kinds))
    # alt: the size of the resize() that takes the place of a derivation the current grid size does not allow
    spec = {"how": how, "alt": draw(st.lists(st.integers(2, cap), min_size=D, max_size=D))}
    rac = st.sampled_from([None, None, True, False])
    if how == "resize":
        spec.update({"size": draw(st.lists(st.integers(2, cap), min_size=D, max_size=D)), "rac": draw(rac),
                     "form": draw(st.sampled_from(["list", "args", "reshape"]))})
    elif how in ("downsample", "upsample"):
        spec.update({"dims": draw(st.one_of(st.none(), st.lists(st.integers(0, D - 1), min_size=1, max_size=D, unique=True).map(sorted))),
                     "rac": draw(rac)})
    elif how == "pyramid":
        levels = draw(st.sampled_from([1, 1, 1, 2]))
        spec.update({"levels": levels, "level": draw(st.integers(0, levels))})
    elif how == "resample":
        spec.update({"to": draw(st.sampled_from(["factor", "factor", "min", "max"])),
                     "f": draw(st.lists(gen.qfloat(0.45, 1.6, 0.01), min_size=D, max_size=D))})
    elif how in ("crop", "pad", "center_crop", "center_pad"):
        spec.update({"num": [[draw(st.integers(0, 2)), draw(st.integers(0, 2))] for _ in range(D)],
                     "form": draw(st.sampled_from(["num", "num", "margin"]))})
    elif how == "recenter":
        off = draw(st.lists(gen.qfloat(-1.5, 1.5, 0.25), min_size=D, max_size=D))
        if not any(off):
            off[0] = 0.5
        spec["off"] = off
    elif how == "respace":  # Grid.spacing(new): same size and centre
        spec["f"] = draw(st.lists(st.sampled_from([0.6, 0.75, 0.9, 1.25, 1.5]), min_size=D, max_size=D))
    elif how == "reorient":  # Grid.direction(new): rotated about its centre in the plane of its first two axes
        spec["angle"] = draw(st.sampled_from([-0.4, -0.15, 0.1, 0.3]))
    return spec


REGRID_OPS = ["sample", "sample", "sample", "back", "back", "method", "method"]
OTHER_OPS = ["axes", "axes", "cycle", "exp", "inplace", "acflip", "warp", "warp", "probe", "probe", "poke"]


@st.composite
def program_ops(draw, D: int, kinds):
    kind = draw(st.sampled_from(kinds))
    op = {"op": kind}
    if kind == "sample":
        op.update({"src": draw(st.sampled_from(["cur", "cur", "base", "base", "prev"])), "how": draw(how_specs(D, HOWS)),
                   "padding": draw(st.sampled_from(PADS)), "form": draw(st.sampled_from(["single", "list", "list_one"]))})
    elif kind == "back":  # onto a grid object that was the field's grid before (the original one, or that of the step before)
        op.update({"op": "sample", "src": draw(st.sampled_from(["base", "base", "prev"])), "how": {"how": "self"},
                   "padding": draw(st.sampled_from(PADS)), "form": draw(st.sampled_from(["single", "list", "list_one"]))})
    elif kind == "method":
        op["how"] = draw(how_specs(D, METHODS))
    elif kind == "axes":
        op["a"] = draw(st.sampled_from(AX))
    elif kind == "cycle":
        op.update({"path": draw(st.lists(st.sampled_from(AX), min_size=2, max_size=3)), "times": draw(st.integers(1, 4))})
    elif kind == "exp":
        op.update({"scale": draw(st.sampled_from([None, 0.5, 0.25, -0.5])), "steps": draw(st.sampled_from([None, 2, 3, 4]))})
    elif kind == "inplace":
        op["c"] = draw(st.sampled_from([2.0, 0.5, -1.0, -0.25]))
    elif kind == "warp":
        C = draw(st.integers(1, 2))
        op.update({"C": C, "alpha": draw(st.lists(gen.qfloat(-3.0, 3.0, 0.01), min_size=C * D, max_size=C * D)),
                   "beta": draw(st.lists(gen.qfloat(-10.0, 10.0, 0.1), min_size=C, max_size=C)),
                   "padding": draw(st.sampled_from([None, "zeros", "border"]))})
    elif kind == "probe":
        op.update({"a": draw(st.sampled_from(AX)), "b": draw(st.sampled_from(AX))})
    elif kind == "poke":
        op["a"] = draw(st.sampled_from(AX))
    return op


@st.composite
def program_cases(draw):
    D = draw(gen.dims())
    case = draw(grid_sets(D, 8 if D == 2 else 5, near=True, min_size=3))
    for g in case["grids"]:
        # moderate geometry (spacing 0.3..3, |centre| <= 10): the float32 point map (coordinate error ~ eps32 |x| / spacing samples,
        # C01/C02's subject) would otherwise use up the accumulated bound after two resampling steps
        g["spacing"] = [float(f"{min(3.0, max(0.3, v ** 0.5)):.3g}") for v in g["spacing"]]
        g["center"] = [round(v / 3.0, 3) for v in g["center"]]
    # two resampling steps (on a derived grid, back onto an earlier grid object, or an inherited image operation) with other
    # operations and observations before, between and after them
    ops = (draw(st.lists(program_ops(D, OTHER_OPS), max_size=1)) + [draw(program_ops(D, ["sample", "sample", "method"]))]
           + draw(st.lists(program_ops(D, OTHER_OPS + REGRID_OPS), max_size=2)) + [draw(program_ops(D, REGRID_OPS))]
           + draw(st.lists(program_ops(D, OTHER_OPS + REGRID_OPS), max_size=1)))
    case.update({"D": D, "dtype": draw(gen.dtypes()), "field": draw(fields(D, ("affine", "affine", "smooth", "smoothl"))),
                 "fscale": draw(st.sampled_from([1.0, 1.0, 1.0, 0.01, 0.001])),
                 "src": draw(st.sampled_from(["model", "model", "axes"])), "route": draw(st.sampled_from(ROUTES)),
                 "r": draw(st.sampled_from(["grid", "grid", "grid", "cube", "cube", "cube", "cube_corners", "cube_corners", "cube_corners", "world"])),
                 "share": draw(st.sampled_from(["object", "object", "clones"])),
                 "ops": ops,
                 "fork": {"r": draw(st.sampled_from(AX)), "how": draw(how_specs(D, HOWS)), "padding": draw(st.sampled_from(PADS))}})
    return case


def model_of(g) -> ref.GridModel:
    """float64 copy of the geometry a deepali grid reports (all of it is derived from size(), spacing(), center(), direction())."""
    return ref.GridModel([int(v) for v in g.size()], g.spacing().double().numpy(), center=g.center().double().numpy(),
                         direction=g.direction().double().numpy(), align_corners=bool(g.align_corners()))


def resolve_how(spec: dict, g, D: int, method: bool = False):
    """Concrete arguments of the derivation `spec` for a grid of the current size.  If it would change nothing or leave the size
    range 2..cap (cube axes need two samples per axis), a resize() to the alternative size spec["alt"] takes its place."""
    res = resolve_how_(spec, g, D, method)
    if res is None and spec.get("alt") is not None:
        res = resolve_how_({"how": "resize", "size": spec["alt"], "rac": spec.get("rac"), "form": "list"}, g, D, method)
    return res


def resolve_how_(spec: dict, g, D: int, method: bool):
    cap = PCAP[D]
    n = [int(v) for v in g.size()]
    how = spec["how"]
    if how in ("self", "acflip"):
        return {"how": how}
    if how == "resize":
        size = [int(v) for v in spec["size"]]
        if size == n:
            size[0] = n[0] + 1 if n[0] < cap else n[0] - 1
        return {"how": how, "size": size, "rac": spec.get("rac"), "form": spec.get("form", "list")}
    if how in ("downsample", "upsample"):
        want = list(range(D)) if spec.get("dims") is None else [int(d) for d in spec["dims"]]
        # image operations halve the data tensor: even sizes only; a grid alone keeps the fractional size n/2 (rounded up)
        dims = [d for d in want if ((n[d] >= 4 and n[d] % 2 == 0 if method else n[d] >= 3) if how == "downsample" else 2 * n[d] <= cap)]
        if not dims:
            return None
        return {"how": how, "dims": None if spec.get("dims") is None and len(dims) == D else dims, "rac": spec.get("rac"),
                "frac": how == "downsample" and any(n[d] % 2 for d in dims)}
    if how == "pyramid":
        # Grid.pyramid(L) has levels 0..L, FlowFields.pyramid(L) returns levels 0..L-1; the coarsest level must keep two samples
        L, level = int(spec["levels"]), int(spec["level"])
        if method:
            level = min(level, L - 1)
        if min(n) < 1.5 * 2 ** L or max(n) + 2 > cap:
            return None
        return {"how": how, "levels": L, "level": level}
    if how == "resample":
        ext = g.extent().double().numpy()
        sp = g.spacing().double().numpy()
        if spec["to"] in ("min", "max"):
            q = ext / (sp.min() if spec["to"] == "min" else sp.max())
            if np.all(q > 1.05) and np.all(q < cap - 0.05) and np.all(np.abs(q - np.rint(q)) > 0.05) and float(sp.max() / sp.min()) > 1.01:
                return {"how": how, "spacing": spec["to"], "frac": True}
        q = np.clip(np.array(n, dtype=np.float64) * np.array(spec["f"], dtype=np.float64), 1.3, cap - 0.3)
        fr = q - np.floor(q)
        q = np.where((fr < 0.25) | (fr > 0.75), np.floor(q) + 0.5, q)  # the size extent/spacing is rounded up: stay away from integers
        return {"how": how, "spacing": [float(f"{v:.6g}") for v in ext / q], "frac": True}
    if how in ("crop", "pad", "center_crop", "center_pad"):
        num = []
        margin = spec.get("form") == "margin" and how in ("crop", "pad")  # crop(margin=)/pad(margin=): the same number at both ends
        for v, (lo, hi) in zip(n, spec["num"]):
            room = max(0, v - 2 if how in ("crop", "center_crop") else cap - v)
            if margin:
                lo = hi = min(int(lo), room // 2)
            else:
                lo = min(int(lo), room)
                hi = min(int(hi), room - lo)
            num.append([lo, hi])
        if not any(v for p in num for v in p):
            return None
        return {"how": how, "num": num, "form": spec.get("form", "num")}
    if how == "recenter":
        A = g.direction().double().numpy() @ np.diag(g.spacing().double().numpy())
        c = g.center().double().numpy() + A @ np.array(spec["off"], dtype=np.float64)
        return {"how": how, "center": [float(f"{v:.7g}") for v in c]}
    if how == "respace":
        return {"how": how, "spacing": [float(f"{v:.6g}") for v in g.spacing().double().numpy() * np.array(spec["f"], dtype=np.float64)]}
    if how == "reorient":
        Q = np.eye(D)
        Q[:2, :2] = ref.rot2(float(spec["angle"]))
        return {"how": how, "direction": [[float(v) for v in row] for row in g.direction().double().numpy() @ Q]}
    raise ValueError(how)


def derive_live(g, res: dict):
    """Grid derived from the live deepali grid g with the Grid method a user would call."""
    how = res["how"]
    if how == "self":
        return g
    if how == "acflip":
        return g.align_corners(not g.align_corners())
    kw = {} if res.get("rac") is None else {"align_corners": bool(res["rac"])}
    if how == "resize":
        if res["form"] == "args":
            return g.resize(*res["size"], **kw)
        if res["form"] == "reshape":
            return g.reshape(res["size"][::-1], **kw)
        return g.resize(res["size"], **kw)
    if how == "downsample":
        return g.downsample(1, dims=res["dims"], **kw)
    if how == "upsample":
        return g.upsample(1, dims=res["dims"], **kw)
    if how == "pyramid":
        return g.pyramid(res["levels"])[res["level"]]
    if how == "resample":
        return g.resample(res["spacing"])
    if how == "recenter":
        return g.center(res["center"])
    if how == "respace":
        return g.spacing(res["spacing"])
    if how == "reorient":
        return g.direction(torch.tensor(res["direction"], dtype=torch.float64))
    flat = [int(v) for p in res["num"] for v in p]
    n = [int(v) for v in g.size()]
    if how == "crop":
        return g.crop(margin=[p[0] for p in res["num"]]) if res["form"] == "margin" else g.crop(num=flat)
    if how == "pad":
        return g.pad(margin=[p[0] for p in res["num"]]) if res["form"] == "margin" else g.pad(num=flat)
    if how == "center_crop":
        return g.center_crop([v - p[0] - p[1] for v, p in zip(n, res["num"])])
    if how == "center_pad":
        return g.center_pad([v + p[0] + p[1] for v, p in zip(n, res["num"])])
    raise ValueError(how)


def apply_method(f, res: dict):
    """The same derivation through the operation the flow field inherits from Image / ImageBatch."""
    how = res["how"]
    kw = {} if res.get("rac") is None else {"align_corners": bool(res["rac"])}
    if how == "resize":
        return f.resize(*res["size"], **kw) if res["form"] == "args" else f.resize(res["size"], **kw)
    if how == "downsample":
        return f.downsample(1, dims=res["dims"], **kw)
    if how == "upsample":
        return f.upsample(1, dims=res["dims"], **kw)
    if how == "pyramid":
        return f.pyramid(res["levels"], start=res["level"], end=res["level"])[res["level"]]
    if how == "resample":
        return f.resample(res["spacing"])
    flat = [int(v) for p in res["num"] for v in p]
    n = [int(v) for v in result_grids(f)[0].size()]
    if how == "crop":
        return f.crop(margin=[p[0] for p in res["num"]]) if res["form"] == "margin" else f.crop(num=flat)
    if how == "pad":
        return f.pad(margin=[p[0] for p in res["num"]]) if res["form"] == "margin" else f.pad(num=flat)
    if how == "center_crop":
        return f.center_crop([v - p[0] - p[1] for v, p in zip(n, res["num"])])
    if how == "center_pad":
        return f.center_pad([v + p[0] + p[1] for v, p in zip(n, res["num"])])
    raise ValueError(how)


def unit_scale(m: ref.GridModel, a: str) -> np.ndarray:
    """Index units per unit of the grid-aligned axes a."""
    return {"grid": np.ones(m.D), "cube": m.n / 2, "cube_corners": (m.n - 1) / 2}[a]


def matrix_bound(mg: ref.GridModel, a: str, mh: ref.GridModel, b: str) -> np.ndarray:
    """Entry-wise magnitude eps32 is relative to in the vector matrix a (grid mg) -> b (grid mh): (world units per a-unit
    along column axis) x (b-units per world unit along row axis); direction cosines have absolute accuracy eps32."""
    col = np.ones(mg.D) if a == "world" else mg.s * unit_scale(mg, a)
    row = np.ones(mh.D) if b == "world" else 1.0 / (mh.s * unit_scale(mh, b))
    return KC * EPS32 * mg.D * np.outer(row, col)


def grad_per_step(uw: np.ndarray, D: int) -> float:
    """Bound of the change of a multilinear interpolant of the samples uw per index step (inf-norm, sum over the grid axes)."""
    g = 0.0
    for ax in range(D):
        if uw.shape[ax] > 1:
            g += float(np.abs(np.diff(uw, axis=ax)).max())
    return g


def resample_bound(eps: float, m: ref.GridModel, t: ref.GridModel, uw: np.ndarray, idx: np.ndarray, hard_edge: bool) -> float:
    """As in run_sample: coordinate error of the point map (index units of the source) times the gradient of the interpolant, plus
    the re-expression of the vectors w.r.t. both grids."""
    D = m.D
    W = max(float(np.abs(m.c).max() + np.abs(m.s * m.n).sum()), float(np.abs(t.c).max() + np.abs(t.s * t.n).sum()), 1.0)
    cpt = W / float(m.s.min()) + float(m.n.max()) + float(np.abs(idx).max())
    grad = grad_per_step(uw, D)
    if hard_edge:  # zero padding / constant fill: the field drops from its boundary value to 0 within one sample
        grad += float(np.abs(uw).max())
    uterm = float((np.abs(uw).reshape(-1, D) @ (kappa(t) @ kappa(m)).T).max())
    return KO * eps * (cpt * grad + uterm)


def vec_err(eps: float, m: ref.GridModel, uw: np.ndarray) -> float:
    """World-space error of one re-expression of the vectors uw (through axes aligned with grid m)."""
    return KC * eps * max(1e-30, float((np.abs(uw).reshape(-1, m.D) @ kappa(m).T).max())) * cond_vec(m)


def same_objects(gs) -> bool:
    return all(g is gs[0] for g in gs)


def run_program(case):
    from deepali.data import FlowField, Image, ImageBatch

    D, N, dt = case["D"], case["N"], tdtype(case["dtype"])
    eps = _eps(dt)
    single = case["kind"] == "FlowField"
    descs = case["grids"] * N if len(case["grids"]) == 1 else list(case["grids"])
    object_shared = len(case["grids"]) == 1 and (case.get("share", "object") == "object" or single)
    ms = [ref.GridModel.from_desc(g) for g in descs]

    def build_grids():
        if object_shared:
            return [make_grid(descs[0])] * N
        return [make_grid(g) for g in descs]

    live, fresh = build_grids(), build_grids()  # the run under test / the WORLD-axes run: never share a grid object
    bcase = case if object_shared else dict(case, grids=descs)
    u_idx = [index_field(case["field"], m, i) * float(case.get("fscale", 1.0)) for i, m in enumerate(ms)]
    Wm = [m.vectors(u, "grid", "world") for m, u in zip(ms, u_idx)]  # float64 model: world vectors at the samples of the current grids
    r = case["r"]
    cur = given_in(bcase, ms, live, dt, r, u_idx)
    wcur = build_flow(dict(bcase, route="direct"), Wm, "world", fresh, dt)
    fk = case["fork"]
    other = build_flow(dict(bcase, route="direct"), [m.vectors(-0.5 * u, "grid", fk["r"]) for m, u in zip(ms, u_idx)], fk["r"], live, dt)
    other0 = other.tensor().clone()
    mods = list(ms)
    E = [vec_err(eps, m, w) for m, w in zip(ms, Wm)]
    registry = [(g, m, bool(d["ac"])) for g, m, d in zip(live, ms, descs)]  # every live grid of the run under test with its model
    hist, whist = [list(live)], [list(fresh)]
    # Grid keeps a fractional size after resample() and after downsample() of odd sizes; the image operations of a field on such a
    # grid (whose data tensor has the rounded size) are not this property's subject: such fields are only converted and sample()d
    frac = [False]
    worst, tight, did, n_regrid = 0.0, True, [], 0

    def reference():
        return Wm if Wm is not None else items(wcur)

    def check_pair(out, wout, kind: str, what: str):
        """Result containers of the two runs: type, batch size, equal grids, shapes, dtype, axes labels."""
        if type(out) is not type(cur) or type(wout) is not type(wcur):
            raise Violation(f"program_{kind}_result_type", f"{what}: returned {type(out).__name__} / {type(wout).__name__} (WORLD run)")
        io, iw, rg, wg = items(out), items(wout), result_grids(out), result_grids(wout)
        if len(io) != N or len(rg) != N or len(iw) != N or len(wg) != N:
            raise Violation(f"program_{kind}_batch_size", f"{what}: {len(io)} fields on {len(rg)} grids (WORLD run: {len(iw)} on {len(wg)}) for N={N}")
        for i in range(N):
            if not (rg[i] == wg[i]) or tuple(rg[i].shape) != tuple(io[i].shape[:-1]) or tuple(wg[i].shape) != tuple(iw[i].shape[:-1]):
                raise Violation(f"program_{kind}_result_grid", f"{what}: item {i} is on {rg[i]!r} with data shape {io[i].shape}, the WORLD-axes run on {wg[i]!r} with {iw[i].shape}")
        if out.dtype != dt:
            raise Violation(f"program_{kind}_result_dtype", f"{what}: dtype {out.dtype} for input {dt}")
        if wout.axes() is not _A("world"):
            raise Violation(f"program_{kind}_result_axes", f"{what}: WORLD-axes run reports {wout.axes()}")

    def compare(kind: str, what: str):
        nonlocal worst, tight
        q = cur.axes().value
        io, iw = items(cur), items(wcur)
        for i in range(N):
            wr = mods[i].vectors(io[i], q, "world")
            if Wm is not None:
                worst = max(worst, check_close(iw[i], Wm[i], E[i], "program_world_run_vs_model",
                                               f"{what}: field given in world axes vs float64 model of the program, item {i}"))
                worst = max(worst, check_close(wr, Wm[i], E[i], f"program_{kind}_vs_model",
                                               f"{what}: world meaning of the field held in {q} axes vs float64 model of the program, item {i}"))
            worst = max(worst, check_close(wr, iw[i], 2 * E[i], f"program_{kind}_representation_dependent",
                                           f"{what}: world meaning of the field held in {q} axes vs the same program on the field given in world axes, item {i}"))
            sig = float(np.abs(iw[i]).max())
            tight = tight and E[i] <= 0.02 * sig

    for k, op in enumerate(case["ops"]):
        kind = op["op"]
        gr_r, gr_w = result_grids(cur), result_grids(wcur)
        q = cur.axes().value
        if kind == "axes" or kind == "cycle":
            path = [op["a"]] if kind == "axes" else list(op["path"]) * int(op["times"])
            for a in path:
                new = cur.axes(_A(a))
                check_struct(new, cur, N, gr_r, a, dt, "program_axes")
                cur = new
                E = [e + vec_err(eps, m, w) for e, m, w in zip(E, mods, reference())]
            compare("axes", f"step {k}: axes() along {'->'.join([q] + path)}")
            did.append(kind)
        elif kind == "inplace":
            c = float(op["c"])
            cur.tensor().mul_(c)
            wcur.tensor().mul_(c)
            if Wm is not None:
                Wm = [w * c for w in Wm]
            E = [abs(c) * e + vec_err(eps, m, w) for e, m, w in zip(E, mods, reference())]
            compare("inplace", f"step {k}: in-place scaling of the data by {c}")
            did.append(kind)
        elif kind == "acflip":
            def flipped(gs):
                if same_objects(gs):
                    return [gs[0].align_corners(not gs[0].align_corners())] * len(gs)
                return [g.align_corners(not g.align_corners()) for g in gs]

            ng, nw = flipped(gr_r), flipped(gr_w)
            new = cur.grid(ng[0]) if single else cur.grid(ng[0] if same_objects(ng) else ng)
            wnew = wcur.grid(nw[0]) if single else wcur.grid(nw[0] if same_objects(nw) else nw)
            check_pair(new, wnew, "acflip", f"step {k}: grid(copy with the other align_corners flag)")
            if new.axes() is not _A(q):
                raise Violation("program_acflip_result_axes", f"step {k}: replacing the grid by a copy with the other align_corners flag turned {q} axes into {new.axes()}")
            cur, wcur = new, wnew
            mods = [model_of(g) for g in result_grids(wcur)]
            registry += [(g, m, bool(m.ac)) for g, m in zip(result_grids(cur), mods)]
            hist.append(result_grids(cur))
            whist.append(result_grids(wcur))
            frac.append(frac[-1])
            compare("acflip", f"step {k}: grid(copy with the other align_corners flag)")
            did.append(kind)
        elif kind in ("sample", "method"):
            uw = reference()
            if kind == "sample":
                src_r = {"cur": gr_r, "base": hist[0], "prev": hist[-2] if len(hist) > 1 else hist[0]}[op["src"]]
                src_w = {"cur": gr_w, "base": whist[0], "prev": whist[-2] if len(whist) > 1 else whist[0]}[op["src"]]
                res = [resolve_how(op["how"], g, D) for g in src_w]
                src_frac = {"cur": frac[-1], "base": frac[0], "prev": frac[-2] if len(frac) > 1 else frac[0]}[op["src"]]
                if any(x is None for x in res):
                    did.append("noop")
                    continue
                if same_objects(src_r):
                    tr, tw = [derive_live(src_r[0], res[0])] * N, [derive_live(src_w[0], res[0])] * N
                else:
                    tr, tw = [derive_live(g, x) for g, x in zip(src_r, res)], [derive_live(g, x) for g, x in zip(src_w, res)]
                if any(t.size() != tw[0].size() for t in tw[1:]):  # grids with different flags: a batch needs one size
                    did.append("noop")
                    continue
                if all(a == b for a, b in zip(tw, gr_w)):  # sample() documents that it returns self then
                    did.append("noop")
                    continue
                form = "single" if single else op.get("form", "list")
                if form != "list" and not same_objects(tr):
                    form = "list"
                arg_r, arg_w = (tr[0], tw[0]) if form == "single" else ([tr[0]], [tw[0]]) if form == "list_one" else (list(tr), list(tw))
                kw = {} if op.get("padding") is None else {"padding": op["padding"]}
                what = f"step {k}: sample({form} of grid(s) derived from the {op['src']} grid by {res[0]['how']}, padding={op.get('padding')})"
                c0 = cur.tensor().clone()
                mt_asked = [model_of(t) for t in tw]  # before use: no step may change a grid it is given
                registry += [(g, m, bool(g.align_corners())) for g, m in zip(tr, mt_asked)]
                out, wout = cur.sample(arg_r, **kw), wcur.sample(arg_w, **kw)
                pad = "zeros" if op.get("padding") is None else op["padding"]
                modelled = True
            else:
                how = op["how"]["how"]
                res = [resolve_how(op["how"], g, D, method=True) for g in gr_w]
                src_frac = False
                if any(x is None for x in res) or (res[0]["how"] == "resample" and any(x != res[0] for x in res[1:])) or (frac[-1] and res[0]["how"] not in ("resize", "resample")):
                    did.append("noop")
                    continue
                how = res[0]["how"]
                what = f"step {k}: {how}({ {a: b for a, b in res[0].items() if a not in ('how', 'frac')} })"
                c0 = cur.tensor().clone()
                out, wout = apply_method(cur, res[0]), apply_method(wcur, res[0])
                # float64 model: resize() interpolates linearly and clamps at the boundary; crop/pad copy samples and fill with 0;
                # resample() interpolates with zero padding; the others smooth (no model, WORLD-axes run only)
                pad = {"resize": "border", "resample": "zeros", "crop": "zeros", "pad": "zeros", "center_crop": "zeros", "center_pad": "zeros"}.get(how)
                modelled = pad is not None
            check_pair(out, wout, kind, what)
            if not torch.equal(cur.tensor(), c0):
                raise Violation("input_modified", f"{what} modified the flow field it was called on")
            if out.axes() is not _A(q):
                raise Violation(f"program_{kind}_result_axes", f"{what}: field in {q} axes came back in {out.axes()} axes")
            mt = [model_of(g) for g in result_grids(wout)]
            if kind == "sample":  # the result is on the grids it was asked for (check_pair: the same in both runs)
                if not all(a == b for a, b in zip(result_grids(wout), tw)):
                    raise Violation("program_sample_result_grid", f"{what}: result is on {result_grids(wout)!r}, asked for {tw!r}")
                mt = mt_asked
            idx = [m.points(t.world_points(), "world", "grid") for m, t in zip(mods, mt)]
            E = [e + resample_bound(eps, m, t, w, x, pad != "border") for e, m, t, w, x in zip(E, mods, mt, uw, idx)]
            if Wm is not None and modelled:
                Wm = [np.moveaxis(ref.interp(chfirst(w), x, "linear", pad), 0, -1) for w, x in zip(Wm, idx)]
            else:
                Wm = None
            cur, wcur, mods = out, wout, mt
            registry += [(g, m, bool(m.ac)) for g, m in zip(result_grids(cur), mods)]
            hist.append(result_grids(cur))
            whist.append(result_grids(wcur))
            frac.append(bool(res[0].get("frac")) or (src_frac and res[0]["how"] in ("self", "acflip", "recenter", "respace", "reorient", "downsample", "upsample")))
            compare(kind, what)
            n_regrid += 1 if q != "world" else 0
            did.append(kind + ":" + res[0]["how"])
        elif kind == "exp":
            uw = reference()
            kw = {a: op[a] for a in ("scale", "steps") if op.get(a) is not None}
            s = abs(float(op["scale"])) if op.get("scale") is not None else 1.0
            steps = 5 if op.get("steps") is None else int(op["steps"])
            new_e = []
            for e, m, w in zip(E, mods, uw):
                ui = m.vectors(w, "world", "grid") * s
                amp, lip = float(np.abs(ui).max()), grad_per_step(ui, D)
                growth = math.exp(0.5 * lip * math.exp(lip)) if lip < 3 else float("inf")
                Lw = float(np.abs(m.A).sum(1).max())
                new_e.append(growth * cond_vec(m) * e * max(s, 1.0) + KO * eps * growth * (2 * cond_vec(m) * amp + (steps + 1) * (lip * float(m.n.max()) / 2 + amp)) * Lw)
            what = f"step {k}: exp({kw})"
            c0 = cur.tensor().clone()
            out, wout = cur.exp(**kw), wcur.exp(**kw)
            check_pair(out, wout, "exp", what)
            if not torch.equal(cur.tensor(), c0):
                raise Violation("input_modified", f"{what} modified the flow field it was called on")
            if out.axes() is not _A(q):
                raise Violation("program_exp_result_axes", f"{what}: field in {q} axes came back in {out.axes()} axes")
            cur, wcur, Wm, E = out, wout, None, new_e
            if all(math.isfinite(e) for e in E):
                compare("exp", what)
            else:
                tight = False
            did.append(kind)
        elif kind == "warp":
            C = int(op["C"])
            alpha = np.array(op["alpha"], dtype=np.float64).reshape(C, D)
            beta = np.array(op["beta"], dtype=np.float64)
            ramps = [(m.index_points() - (m.n - 1) / 2) @ alpha.T + beta for m in mods]
            kw = {} if op.get("padding") is None else {"padding": op["padding"]}
            pad = "zeros" if op.get("padding") is None else op["padding"]

            def image_on(gs):
                if single:
                    return Image(torch.tensor(chfirst(ramps[0]), dtype=dt), gs[0])
                return ImageBatch(torch.tensor(np.stack([chfirst(x) for x in ramps]), dtype=dt), list(gs))

            out, wout = cur.warp_image(image_on(gr_r), **kw), wcur.warp_image(image_on(gr_w), **kw)
            want = Image if single else ImageBatch
            if type(out) is not want or type(wout) is not want:
                raise Violation("program_warp_result_type", f"step {k}: warp_image() returned {type(out).__name__} / {type(wout).__name__}")
            io, iw = items(out), items(wout)
            if len(io) != N or len(iw) != N:
                raise Violation("program_warp_batch_size", f"step {k}: warp_image() returned {len(io)} / {len(iw)} images for N={N}")
            uw = reference()
            for i, m in enumerate(mods):
                ui = m.vectors(uw[i], "world", "grid")
                gsum = float(np.abs(alpha).sum(1).max())
                imax = float(np.abs(ramps[i]).max())
                if pad == "zeros":
                    gsum += imax
                e_idx = E[i] * float(np.abs(np.linalg.inv(m.A)).sum(1).max())
                bw = KO * eps * ((float(m.n.max()) + float((np.abs(ui).reshape(-1, D) @ kappa_idx(m).T).max())) * gsum + imax) + e_idx * gsum
                if io[i].shape != ramps[i].shape or iw[i].shape != ramps[i].shape:
                    raise Violation("program_warp_result_shape", f"step {k}: warped image {i} has shape {io[i].shape} / {iw[i].shape}, expected {ramps[i].shape}")
                if Wm is not None:
                    expect = np.moveaxis(ref.interp(chfirst(ramps[i]), m.index_points() + ui, "linear", pad), 0, -1)
                    worst = max(worst, check_close(io[i], expect, bw, "program_warp_vs_model",
                                                   f"step {k}: ramp image warped by the field held in {q} axes vs float64 model, item {i}"))
                worst = max(worst, check_close(io[i], iw[i], 2 * bw, "program_warp_representation_dependent",
                                               f"step {k}: ramp image warped by the field held in {q} axes vs by the field given in world axes, item {i}"))
            did.append(kind)
        elif kind == "probe":
            # the grid's own vector map of every grid object the run has touched so far
            pairs = list(dict.fromkeys([(q, "world"), ("world", q), (op["a"], op["b"])]))
            for j, (g, m, _) in enumerate(registry):
                for a, b in pairs:
                    M = g.transform(_A(a), _A(b), vectors=True).detach().double().numpy()
                    ref_m = m.matrix(a, b)[:D, :D]
                    if M.shape != ref_m.shape:
                        raise Violation("program_grid_vector_map_shape", f"step {k}: Grid.transform({a}, {b}, vectors=True) has shape {M.shape}")
                    err = float((np.abs(M - ref_m) / matrix_bound(m, a, m, b)).max())
                    worst = max(worst, err)
                    if not err <= 1.0:
                        raise Violation("program_grid_vector_map", f"step {k}: Grid.transform({a}, {b}, vectors=True) of live grid #{j} {g!r} is\n{M}\nmodel\n{ref_m}\n(err/bound {err:.3g})")
                if j > 0 and q != "world":
                    h, mh, _ = registry[j - 1]
                    M = h.transform(_A(q), _A(q), to_grid=g, vectors=True).detach().double().numpy()
                    ref_m = mh.matrix(q, q, m)[:D, :D]
                    err = float((np.abs(M - ref_m) / matrix_bound(mh, q, m, q)).max())
                    worst = max(worst, err)
                    if not err <= 1.0:
                        raise Violation("program_grid_to_grid_vector_map", f"step {k}: Grid.transform({q}, {q}, to_grid, vectors=True) from live grid #{j - 1} {h!r} to #{j} {g!r} is\n{M}\nmodel\n{ref_m}\n(err/bound {err:.3g})")
            did.append(kind)
        elif kind == "poke":
            a = op["a"]
            if a == q:
                did.append("noop")
                continue
            c0 = cur.tensor().clone()
            g1 = cur.axes(_A(a))
            snap = g1.tensor().clone()
            g1.tensor().mul_(-3.0).add_(1.0)  # the caller overwrites the converted copy ...
            if not torch.equal(cur.tensor(), c0):
                raise Violation("axes_result_shares_storage", f"step {k}: overwriting the result of axes({a}) changed the {q} field it was computed from")
            g2 = cur.axes(_A(a))  # ... and asks again
            if not torch.equal(g2.tensor(), snap):
                raise Violation("axes_result_not_recomputed", f"step {k}: second axes({a}) of the unchanged {q} field differs from the first after the first result was overwritten")
            did.append(kind)
        else:
            raise ValueError(kind)

    # the second flow field, which shares the original grid objects with the first and was never touched
    if not torch.equal(other.tensor(), other0) or other.axes() is not _A(fk["r"]):
        raise Violation("program_other_field_modified", "a flow field sharing the grid objects of the field the program ran on was modified")
    ow = items(other.axes(_A("world")))
    Wo = [-0.5 * m.vectors(u, "grid", "world") for m, u in zip(ms, u_idx)]
    for i, m in enumerate(ms):
        worst = max(worst, check_close(ow[i], Wo[i], 2 * vec_err(eps, m, Wo[i]), "program_other_field_axes",
                                       f"axes(WORLD) of a second field ({fk['r']} axes) on the original grid objects after the program, item {i}"))
    res = [resolve_how(fk["how"], g, D) for g in fresh]
    tw = [derive_live(g, x) for g, x in zip(fresh, res)] if all(x is not None for x in res) else []
    if tw and fk["how"]["how"] not in ("self", "acflip") and all(t.size() == tw[0].size() for t in tw):
        tr = [derive_live(live[0], res[0])] * N if same_objects(live) else [derive_live(g, x) for g, x in zip(live, res)]
        kw = {} if fk.get("padding") is None else {"padding": fk["padding"]}
        pad = "zeros" if fk.get("padding") is None else fk["padding"]
        out = other.sample(tr[0] if single else list(tr), **kw)
        mt = [model_of(t) for t in tw]
        io = items(out)
        if type(out) is not type(other) or len(io) != N or out.axes() is not _A(fk["r"]):
            raise Violation("program_other_field_sample_result", f"sample() of the second field returned {type(out).__name__} with {len(io)} items in {out.axes()} axes")
        for i in range(N):
            x = ms[i].points(mt[i].world_points(), "world", "grid")
            expect = np.moveaxis(ref.interp(chfirst(Wo[i]), x, "linear", pad), 0, -1)
            if io[i].shape != expect.shape:
                raise Violation("program_other_field_sample_result", f"sample() of the second field: item {i} has shape {io[i].shape}, expected {expect.shape}")
            bnd = vec_err(eps, ms[i], Wo[i]) + resample_bound(eps, ms[i], mt[i], Wo[i], x, pad != "border")
            worst = max(worst, check_close(mt[i].vectors(io[i], fk["r"], "world"), expect, bnd, "program_other_field_sample",
                                           f"second field ({fk['r']} axes) on the original grid objects resampled after the program on a grid derived by {res[0]['how']}, item {i}"))
    # grid objects are values: no step may have changed the flag of a grid it was given, nor what a new field on it means by default
    for j, (g, m, flag) in enumerate(registry):
        if bool(g.align_corners()) != flag:
            raise Violation("program_grid_flag_modified", f"align_corners flag of live grid #{j} changed from {flag} to {g.align_corners()} during the program")
    dflt = FlowField(torch.zeros((D,) + tuple(int(v) for v in descs[0]["size"][::-1]), dtype=dt), live[0])
    if dflt.axes() is not _A("cube_corners" if descs[0]["ac"] else "cube"):
        raise Violation("program_default_axes_changed", f"a new flow field on the original grid (align_corners={descs[0]['ac']}) reports default axes {dflt.axes()}")
    labs, objq, distinct = grid_labels(case)
    state_ops = [d for d in did if d.split(":")[0] in ("sample", "method", "axes", "cycle", "exp", "inplace", "acflip")]
    return {"ratio": worst, "nontrivial": objq and tight and n_regrid >= 2 and (N == 1 or distinct),
            "labels": labs + ["field=" + case["field"]["type"], "r=" + r, "src=" + case["src"], "route=" + case.get("route", "direct"),
                              "share=" + ("object" if object_shared else "distinct" if distinct else "clones"), f"fscale={case.get('fscale', 1.0)}",
                              f"state_ops={min(len(state_ops), 4)}", f"regrids={min(n_regrid, 3)}", "model=" + ("kept" if Wm is not None else "lost"),
                              "tight" if tight else "loose"] + sorted(set("did=" + d for d in did))}


FACETS = [
    Facet("axes", run_axes, strategy=axes_cases,
          rule="FlowField/FlowFields (N 1..3, shared or per-field distinct grids) x ordered axes triple x affine/smooth/noise content; "
               "non-trivial = all grids oblique and anisotropic, a != b, N = 1 or distinct grids",
          quick=700, thorough=16000, shards=16, quick_shards=3),
    Facet("exp", run_exp, strategy=exp_cases,
          rule="invariant affine velocity (closed form) or smooth velocity, given in all four representations; "
               "non-trivial = oblique anisotropic grids, non-zero field, steps >= 1, N = 1 or distinct grids, bound <= 2 % of the displacement",
          quick=300, thorough=6000, shards=16, quick_shards=2),
    Facet("warp_image", run_warp, strategy=warp_cases,
          rule="linear-ramp image(s) on the flow grids warped by world-affine (closed form inside the field of view) or smooth flow "
               "given in all four representations; non-trivial = oblique anisotropic grids, |u| > 0.05 samples, >= 2 pinned samples, bound <= 2 % of the "
               "intensity change caused by the displacement",
          quick=350, thorough=8000, shards=16, quick_shards=2),
    Facet("sample", run_sample, strategy=sample_cases,
          rule="resampling on a single grid / a sequence of one / per-field target grid(s), or at normalised coordinates (per item or "
               "shared, grid-shaped or point lists); targets are unrelated overlapping grids (any size or the source's size) or derived "
               "from each field's own grid (resize/reshape/downsample/upsample with corners or extent kept, other align_corners flag, "
               "crop/pad/center_crop/center_pad/region_of_interest/narrow, translated, mirrored; via Grid methods or a float64 "
               "descriptor; labelled rel=, via=, tac=, same_domain); world-affine (pinned inside the old sample hull) or smooth "
               "fields in all four representations, stored vectors at coinciding samples; non-trivial = oblique "
               "anisotropic source and oblique target grids, >= 3 pinned samples, N = 1 or distinct grids, bound <= 2 % of the displacement",
          quick=600, thorough=10000, shards=16, quick_shards=3),
    Facet("regrid", run_regrid, strategy=regrid_cases,
          rule="inherited image operations that put the field on a grid derived from its own (resize / downsample / upsample: same domain, "
               "other size; avg_pool: windows of k samples; crop / pad / center_crop / center_pad / region_of_interest: same spacing, other extent), field given "
               "in all four representations, world result (read with the axes the result reports) compared with the WORLD-axes run, the "
               "world-affine closed form (resize, avg_pool) and the stored vectors at kept samples (crop family); non-trivial = oblique anisotropic "
               "grids, >= 3 pinned samples, N = 1 or distinct grids, bound <= 2 % of the displacement",
          quick=400, thorough=6000, shards=16, quick_shards=2),
    Facet("program", run_program, strategy=program_cases,
          rule="2..5 operations in a row (axes / axes cycles, sample on grids derived with Grid.resize / reshape / downsample / upsample / "
               "pyramid / resample / crop / pad / align_corners / center from the current, the original or the previous grid OBJECT, sample "
               "back onto an earlier grid object, inherited resize / downsample / upsample / pyramid / resample / crop / pad / center_crop / "
               "center_pad, exp, in-place scaling, grid copies with the other flag; observations: warp_image, the vector matrices of all "
               "live grids, overwriting a converted copy) on a field held in representation r on live grid objects (one object for all "
               "items, equal clones, or distinct grids); after every step the world meaning vs the float64 model (while one exists) and vs "
               "the same program on the field given in WORLD axes on grid objects of its own; a second field sharing the original grid "
               "objects is converted and resampled afterwards; non-trivial = oblique anisotropic grids, >= 2 resampling steps in a "
               "representation other than WORLD, N = 1 or distinct grids, accumulated bound <= 2 % of the displacement at every step",
          quick=500, thorough=6000, shards=16, quick_shards=3),
    Facet("sitk", run_sitk, strategy=sitk_cases,
          rule="FlowField in representation r exported by sitk()/sitk(axes=q)/write(.nrrd) and re-imported; non-trivial = oblique "
               "anisotropic grid and r != world",
          quick=250, thorough=5000, shards=8, quick_shards=2),
]
