"""C18 - Images and flow fields survive a write/read round trip in every supported format."""
from __future__ import annotations

import hashlib
import os
import pathlib
import shutil
import tempfile

import numpy as np
import torch
from hypothesis import strategies as st

from vlib import gen, ref
from vlib.case import hash_noise, make_grid, tdtype
from vlib.core import EPS32, Facet, Skip, Violation, check_close
from vlib.findings import Known

PROPERTY = "C18"
MANIFEST = {
    "text": "The finite configuration space file suffix (13 suffixes: native MetaImage .mha, native NIfTI .nii/.nii.gz/.hdr/.img/"
            ".hdr.gz/.img.gz, and .mhd/.nrrd/.nhdr/.vtk/.mnc/.h5 through SimpleITK) x D in {2,3} x channels in {1,2,3} x dtype in "
            "{uint8,int16,int32,float32,float64} x compress in {True,False} is enumerated completely in both tiers; every "
            "configuration is crossed with Hypothesis-generated oriented anisotropic grids (2 per configuration quick, 20 thorough) and "
            "hash-noise content spanning the dtype's range. Checked: Image.write -> Image.read (shape, channels, dtype, bit-exact "
            "values, grid within header precision); files written by deepali read by SimpleITK and files written by SimpleITK "
            "(from an independent float64 grid model) read by Image.read / Grid.from_file; FlowField.write stores world vectors "
            "(read back with SimpleITK, compared with the model's world vectors) and FlowField.read(...).axes(original) restores "
            "the vectors; in-memory meta_image_bytes/read_meta_image and sitk()/from_sitk conversions. Exploration, not proof.",
    "note": "Trusted: SimpleITK (reader/writer and as the arbiter of what a format can represent: a configuration/grid whose "
            "SimpleITK write->read does not reproduce the model image is skipped and counted), nibabel, the float64 grid model "
            "of vlib/ref.py. Tolerances: data bit-exact; grid 8*eps32 relative for double-precision headers, 64*eps32 for NIfTI "
            "(float32 header) and for comparisons against the float64 model (deepali stores grid attributes in float32). "
            ".nia is not exercised (SimpleITK cannot read or write it); .tif/.png/.jpg/.bmp/.gipl/.mrc/.dcm lose origin or "
            "direction in SimpleITK itself and are outside 'supported'.",
    "technique": "property-based testing (Hypothesis) with exhaustive enumeration of the finite configuration space, round-trip "
                 "and differential oracles against SimpleITK and a float64 reference grid model",
}
ASSUMPTIONS = [
    "grids: size 1..6 per axis, spacing in [0.05, 20], |center| <= 500, |det direction| = 1 (.vtk: identity direction, the only "
    "orientation SimpleITK's VTK writer keeps)",
    "a (configuration, grid) that SimpleITK itself cannot write and read back unchanged (e.g. vector images in .h5, 3-D .vtk "
    "with one slice, NIfTI vector images whose last axis has one sample) is skipped and counted, independent of deepali's behaviour",
    "finite voxel values only (no NaN/inf/-0.0); files live in a per-case directory under ./.scratch which is always removed",
]

K_MODEL = 64.0   # vs float64 model: float32 grid attributes + header precision
K_TEXT = 8.0     # deepali -> file -> deepali through double-precision headers
K_NIFTI = 64.0   # NIfTI: float32 sform/pixdim

META_NATIVE = (".mha",)
NIFTI = (".nii", ".nii.gz", ".hdr", ".img", ".hdr.gz", ".img.gz")
SITK_ONLY = (".mhd", ".nrrd", ".nhdr", ".vtk", ".mnc", ".h5")
SUFFIXES = META_NATIVE + NIFTI + SITK_ONLY
DIMS = (2, 3)
CHANNELS = (1, 2, 3)
DTYPES = ("uint8", "int16", "int32", "float32", "float64")
NPDT = {"uint8": np.uint8, "int16": np.int16, "int32": np.int32, "float32": np.float32, "float64": np.float64}
FLOW_AXES = ("world", "grid", "cube", "cube_corners")
IDENTITY_ONLY = (".vtk",)   # SimpleITK's VTK writer does not store the direction cosines


def dispatch_of(suffix: str) -> str:
    return "meta" if suffix in META_NATIVE else "nifti" if suffix in NIFTI else "sitk"


def _axes(name):
    from deepali.core import Axes

    return Axes(name)


# ---------------------------------------------------------------------------------------
# scratch files


class Scratch:
    """Per-case directory under <cwd>/.scratch; always removed."""

    def __enter__(self):
        base = os.path.join(os.getcwd(), ".scratch")
        os.makedirs(base, exist_ok=True)
        self.dir = tempfile.mkdtemp(prefix="c18_", dir=base)
        return self

    def path(self, stem: str, suffix: str) -> str:
        d = os.path.join(self.dir, stem)
        os.makedirs(d, exist_ok=True)
        return os.path.join(d, "image" + suffix)

    def __exit__(self, *exc):
        shutil.rmtree(self.dir, ignore_errors=True)
        return False


# ---------------------------------------------------------------------------------------
# content, model images


def content(shape, dtype: str, key: int) -> np.ndarray:
    """Hash noise over the whole range of the dtype; shape (C, ..., X). First/last element = extremes."""
    dt = NPDT[dtype]
    if np.issubdtype(dt, np.integer):
        info = np.iinfo(dt)
        a = np.floor(hash_noise(shape, key, float(info.min), float(info.max) + 1.0))
        a = np.clip(a, info.min, info.max).astype(dt)
        a.flat[0] = info.max
        a.flat[-1] = info.min
        return a
    info = np.finfo(dt)
    u = hash_noise(shape, key, -1.0, 1.0)
    top = 30 if dt == np.float32 else 300
    exps = np.array([0, 3, -3, top, -top, 1, -1, 6], dtype=np.float64)
    e = exps[np.arange(u.size) % len(exps)].reshape(u.shape)
    a = (u * 10.0 ** e).astype(dt)
    a[a == 0] = 1  # no -0.0 / 0.0 ambiguity
    a.flat[0] = info.max
    a.flat[-1] = -info.max
    if a.size > 2:
        a.flat[1] = info.tiny
    return a


def vector_content(shape, key: int) -> np.ndarray:
    """Flow vectors in [-1, 1) (units of whatever axes the case names); shape (D, ..., X), float64."""
    return hash_noise(shape, key, -1.0, 1.0)


def sitk_array(arr: np.ndarray) -> np.ndarray:
    """(C, ..., X) -> SimpleITK array layout (..., X) or (..., X, C)."""
    return np.ascontiguousarray(arr[0] if arr.shape[0] == 1 else np.moveaxis(arr, 0, -1))


def model_image(m: ref.GridModel, arr: np.ndarray):
    """SimpleITK image built from the float64 grid model and a (C, ..., X) array - no deepali involved."""
    import SimpleITK as sitk

    img = sitk.GetImageFromArray(sitk_array(arr), isVector=arr.shape[0] > 1)
    img.SetOrigin([float(v) for v in m.o])
    img.SetSpacing([float(v) for v in m.s])
    img.SetDirection([float(v) for v in m.R.ravel()])
    return img


def world_scale(m: ref.GridModel) -> float:
    return m.cond("grid", "world")


def sitk_mismatch(img, m: ref.GridModel, arr: np.ndarray, K: float = K_MODEL):
    """Compare a SimpleITK image with (model grid, (C,...,X) array). Returns (what, detail, ratio): what None if equal."""
    import SimpleITK as sitk

    D = m.D
    if img.GetDimension() != D:
        return "dimension", f"{img.GetDimension()}-D image, expected {D}-D (size {img.GetSize()})", 0.0
    size = tuple(int(v) for v in m.n)
    if tuple(img.GetSize()) != size:
        return "size", f"size {tuple(img.GetSize())} expected {size}", 0.0
    C = arr.shape[0]
    if img.GetNumberOfComponentsPerPixel() != C:
        return "components", f"{img.GetNumberOfComponentsPerPixel()} components expected {C}", 0.0
    a = sitk.GetArrayFromImage(img)
    if a.dtype != arr.dtype:
        return "dtype", f"pixel type {a.dtype} expected {arr.dtype}", 0.0
    W = world_scale(m)
    ratio = 0.0
    for name, act, exp, bound in (
        ("spacing", np.asarray(img.GetSpacing()) / m.s, np.ones(D), K * EPS32),
        ("direction", np.asarray(img.GetDirection()), m.R.ravel(), K * EPS32),
        ("origin", np.asarray(img.GetOrigin()), m.o, K * EPS32 * W),
    ):
        err = float(np.abs(act - exp).max())
        if not err <= bound:
            return name, f"{name} {np.asarray(act).tolist()} expected {np.asarray(exp).tolist()} (err {err:.3g} > {bound:.3g})", 0.0
        ratio = max(ratio, err / bound)
    exp_arr = sitk_array(arr)
    if a.shape != exp_arr.shape:
        return "pixels", f"array shape {a.shape} expected {exp_arr.shape}", 0.0
    if a.tobytes() != exp_arr.tobytes():
        nbad = int((a != exp_arr).sum())
        return "pixels", f"{nbad} of {a.size} stored values differ", 0.0
    return None, "", ratio


def sitk_write_read(m, arr, path, compress):
    """SimpleITK's own round trip of the model image. Returns (image or None, reason)."""
    import SimpleITK as sitk

    try:
        sitk.WriteImage(model_image(m, arr), path, bool(compress))
        back = sitk.ReadImage(path)
    except RuntimeError as e:
        return None, "error"
    what, _, _ = sitk_mismatch(back, m, arr)
    if what is not None:
        return None, what
    return back, ""


def sitk_read(path, kind):
    import SimpleITK as sitk

    if not os.path.exists(path):
        raise Violation("file_not_written", f"{os.path.basename(path)} does not exist after write")
    try:
        return sitk.ReadImage(path)
    except RuntimeError as e:
        raise Violation(kind, f"SimpleITK cannot read the file written by deepali: {str(e).strip().splitlines()[-1][:200]}")


def grid_attrs(grid):
    return (tuple(int(v) for v in grid.size()), grid.origin().double().numpy(), grid.spacing().double().numpy(),
            grid.direction().double().numpy())


def check_grid_vs_model(grid, m: ref.GridModel, prefix: str, what: str, K: float = K_MODEL) -> float:
    if grid.ndim != m.D:
        raise Violation(prefix + "_grid_ndim", f"{what}: {grid.ndim}-D grid (size {tuple(grid.size())}) expected {m.D}-D")
    size, o, s, R = grid_attrs(grid)
    if size != tuple(int(v) for v in m.n):
        raise Violation(prefix + "_grid_size", f"{what}: size {size} expected {tuple(int(v) for v in m.n)}")
    r = check_close(s / m.s, np.ones(m.D), K * EPS32, prefix + "_grid_spacing", f"{what}: spacing {s.tolist()} vs {m.s.tolist()}")
    r = max(r, check_close(R, m.R, K * EPS32, prefix + "_grid_direction", f"{what}: direction"))
    r = max(r, check_close(o, m.o, K * EPS32 * world_scale(m), prefix + "_grid_origin", f"{what}: origin"))
    return r


def check_grid_vs_grid(back, grid, m, prefix: str, what: str, K: float) -> float:
    """Read-back grid against the grid that was written (float32 attributes), header precision K*eps32."""
    if back.ndim != grid.ndim:
        raise Violation(prefix + "_grid_ndim", f"{what}: {back.ndim}-D grid (size {tuple(back.size())}) expected {grid.ndim}-D")
    size, o, s, R = grid_attrs(back)
    size0, o0, s0, R0 = grid_attrs(grid)
    if size != size0:
        raise Violation(prefix + "_grid_size", f"{what}: size {size} expected {size0}")
    r = check_close(s / s0, np.ones(len(s0)), K * EPS32, prefix + "_grid_spacing", f"{what}: spacing {s.tolist()} vs {s0.tolist()}")
    r = max(r, check_close(R, R0, K * EPS32, prefix + "_grid_direction", f"{what}: direction"))
    r = max(r, check_close(o, o0, K * EPS32 * world_scale(m), prefix + "_grid_origin", f"{what}: origin"))
    return r


def check_tensor(t, arr: np.ndarray, prefix: str, what: str):
    """Shape, channel count, dtype, bit-exact values of a deepali tensor against the (C, ..., X) array."""
    tt = torch.as_tensor(t).as_subclass(torch.Tensor) if isinstance(t, torch.Tensor) else t
    if tt.ndim != arr.ndim:
        raise Violation(prefix + "_ndim", f"{what}: tensor shape {tuple(tt.shape)} expected {arr.shape}")
    if tt.shape[0] != arr.shape[0]:
        raise Violation(prefix + "_channels", f"{what}: tensor shape {tuple(tt.shape)} expected {arr.shape}")
    if tuple(tt.shape) != arr.shape:
        raise Violation(prefix + "_shape", f"{what}: tensor shape {tuple(tt.shape)} expected {arr.shape}")
    a = tt.detach().cpu().numpy()
    if a.dtype != arr.dtype:
        raise Violation(prefix + "_dtype", f"{what}: dtype {a.dtype} expected {arr.dtype}")
    if np.ascontiguousarray(a).tobytes() != np.ascontiguousarray(arr).tobytes():
        nbad = int((a != arr).sum())
        idx = int(np.argmax((a != arr).ravel()))
        raise Violation(prefix + "_values", f"{what}: {nbad} of {a.size} values differ (first at flat index {idx}: "
                                            f"{a.ravel()[idx]!r} expected {arr.ravel()[idx]!r})")


def labels_of(case):
    g = case["grid"]
    out = [case["suffix"], f"dispatch={dispatch_of(case['suffix'])}", f"D={case['D']}", f"compress={case['compress']}", g["kind"]]
    if "C" in case:
        out.append(f"C={case['C']}")
    if "dtype" in case:
        out.append(case["dtype"])
    if gen.grid_is_oblique(g):
        out.append("oblique")
    if gen.grid_is_anisotropic(g):
        out.append("anisotropic")
    return out


def grid_nontrivial(g) -> bool:
    m = ref.GridModel.from_desc(g)
    return gen.grid_is_oblique(g) and gen.grid_is_anisotropic(g) and float(np.abs(m.o).max()) > 1e-3


def image_nontrivial(case) -> bool:
    return grid_nontrivial(case["grid"]) and (case["C"] > 1 or case["D"] == 2 or not case["dtype"].startswith("float"))


# ---------------------------------------------------------------------------------------
# enumeration: configurations x Hypothesis-drawn grids


def _seed() -> int:
    return int(os.environ.get("VERIF_SEED", "0") or 0)


_POOLS = {}
KIND_MIX = ("rotation", "perm", "rotation", "reflection", "rotation", "identity")


def _direction(r, D: int, kind: str) -> dict:
    """Direction descriptor (vlib.gen.directions format) from a Hypothesis-seeded Random; |det| = 1 by construction."""
    nrot = 1 if D == 2 else 3
    rot, perm, flip = [0.0] * nrot, list(range(D)), [1] * D
    if kind in ("perm", "reflection"):
        perm = r.sample(range(D), D)
        flip = [r.choice([1, -1]) for _ in range(D)]
        sign, p = 1, list(perm)
        for i in range(D):
            while p[i] != i:
                j = p[i]
                p[i], p[j] = p[j], p[i]
                sign = -sign
        det = sign * int(np.prod(flip))
        if (kind == "perm" and det < 0) or (kind == "reflection" and det > 0):
            flip[0] = -flip[0]
    if kind in ("rotation", "reflection"):
        rot = [round(r.uniform(-np.pi, np.pi), 3) for _ in range(nrot)]
    return {"rot": rot, "perm": perm, "flip": flip, "kind": kind}


@st.composite
def io_grids(draw, D: int, kind: str, min_size: int = 1):
    """Grid descriptor (format of vlib.gen.grids) with a fixed direction class.

    One draw in four uses the plain Hypothesis strategies (which favour boundary values: zero centre, zero angles, equal
    sizes, size 1); the others spread the values with a Random instance seeded by Hypothesis (st.randoms), because the
    enumeration wants an even cover of oblique anisotropic off-centre grids rather than shrinkable minimal ones."""
    if draw(st.integers(0, 3)) == 0:
        d = draw(gen.directions(D, (kind,)))
        return {"size": draw(st.lists(st.integers(min_size, 6), min_size=D, max_size=D)), "spacing": draw(gen.spacings(D)),
                "center": draw(gen.centers(D)), "rot": d["rot"], "perm": d["perm"], "flip": d["flip"], "kind": d["kind"],
                "ac": draw(st.booleans())}
    r = draw(st.randoms(use_true_random=True))
    d = _direction(r, D, kind)
    s0 = float(f"{np.exp(r.uniform(np.log(0.05), np.log(20.0))):.3g}")
    spacing = [s0] * D if r.random() < 0.25 else [float(f"{np.exp(r.uniform(np.log(0.05), np.log(20.0))):.3g}") for _ in range(D)]
    center = [0.0] * D if r.random() < 0.15 else [round(r.uniform(-500.0, 500.0), 2) for _ in range(D)]
    sizes = [n for n in (1, 2, 2, 3, 3, 4, 5, 6) if n >= min_size]
    return {"size": [r.choice(sizes) for _ in range(D)], "spacing": spacing, "center": center, "rot": d["rot"], "perm": d["perm"],
            "flip": d["flip"], "kind": d["kind"], "ac": r.random() < 0.5}


def _draw(strategy, n: int, tag: str):
    import hypothesis
    from hypothesis import HealthCheck, Phase, given, settings

    out, seen = [], set()

    def body(g):
        h = repr(sorted(g.items()))
        if h not in seen:
            seen.add(h)
            out.append(g)

    hs = int(hashlib.sha1(f"{_seed()}|C18|pool|{tag}".encode()).hexdigest()[:12], 16)
    test = hypothesis.seed(hs)(settings(max_examples=n, database=None, deadline=None, derandomize=False, phases=[Phase.generate],
                                        suppress_health_check=list(HealthCheck))(given(strategy)(body)))
    test()
    return out


def grid_pool(D: int, n: int, identity_only: bool = False, min_size: int = 1):
    """About n distinct grid descriptors drawn by Hypothesis (seeded from VERIF_SEED), stratified by direction class
    (3 rotation : 1 permutation : 1 reflection : 1 identity); deterministic per (seed, D, n)."""
    key = (_seed(), D, n, identity_only, min_size)
    if key in _POOLS:
        return _POOLS[key]
    kinds = ("identity",) if identity_only else KIND_MIX
    per = {k: _draw(io_grids(D, k, min_size), max(8, (n * kinds.count(k)) // len(kinds)), f"{D}|{k}|{min_size}") for k in set(kinds)}
    out, pos = [], {k: 0 for k in per}
    while len(out) < n and any(pos[k] < len(per[k]) for k in per):
        for k in kinds:
            if pos[k] < len(per[k]):
                out.append(per[k][pos[k]])
                pos[k] += 1
    _POOLS[key] = out
    return out


def per_config(tier: str) -> int:
    return 2 if tier == "quick" else 20


def _grids_for(tier, min_size: int = 1):
    k = per_config(tier)
    n = 300 if tier == "quick" else 1500
    pools = {(D, ident): grid_pool(D, n // 6 if ident else n, ident, min_size) for D in DIMS for ident in (False, True)}
    return k, pools


_KNOWN = None


def excluded_known(suffix, D, C) -> bool:
    """Sub-domains behind a *known* (unrepaired) finding are not enumerated while the entry is listed."""
    global _KNOWN
    if _KNOWN is None:
        _KNOWN = Known(PROPERTY)
    known = _KNOWN
    if known.active("N18-1") and suffix in NIFTI and (C > 1 or D == 2):
        return True
    if known.active("N18-2") and suffix in NIFTI and C > 1 and D == 2:
        return True
    return False


def image_enum(tier, offset=0):
    k, pools = _grids_for(tier)
    i = offset
    for suffix in SUFFIXES:
        for D in DIMS:
            for C in CHANNELS:
                if excluded_known(suffix, D, C):
                    continue
                for dtype in DTYPES:
                    for compress in (True, False):
                        pool = pools[(D, suffix in IDENTITY_ONLY)]
                        for j in range(k):
                            g = pool[(i * k + j) % len(pool)]
                            yield {"suffix": suffix, "D": D, "C": C, "dtype": dtype, "compress": compress, "grid": g,
                                   "key": (i * k + j) % 1000}
                        i += 1


def flow_enum(tier):
    k, pools = _grids_for(tier, min_size=2)   # cube axes need two samples per axis
    i = 0
    for suffix in SUFFIXES:
        for D in DIMS:
            if excluded_known(suffix, D, D):
                continue
            for dtype in ("float32", "float64"):
                for axes in FLOW_AXES:
                    for store in ("default", "grid"):
                        for compress in (True, False):
                            pool = pools[(D, suffix in IDENTITY_ONLY)]
                            for j in range(k):
                                g = pool[(i * k + j) % len(pool)]
                                yield {"suffix": suffix, "D": D, "dtype": dtype, "axes": axes, "store": store,
                                       "compress": compress, "grid": g, "key": (i * k + j) % 1000}
                            i += 1


def meta_enum(tier):
    k, pools = _grids_for(tier)
    i = 7
    for D in DIMS:
        for C in CHANNELS:
            for dtype in DTYPES:
                for compress in (True, False):
                    for via in ("bytes", "reader", "path", "str"):
                        pool = pools[(D, False)]
                        for j in range(k):
                            g = pool[(i * k + j) % len(pool)]
                            yield {"suffix": ".mha", "D": D, "C": C, "dtype": dtype, "compress": compress, "via": via,
                                   "grid": g, "key": (i * k + j) % 1000}
                        i += 1


# ---------------------------------------------------------------------------------------
# facet 1: deepali writes; deepali and SimpleITK read


def _case_objects(case):
    g = case["grid"]
    m = ref.GridModel.from_desc(g)
    grid = make_grid(g)
    shape = (case["C"],) + tuple(int(v) for v in m.n[::-1])
    arr = content(shape, case["dtype"], case["key"])
    return g, m, grid, arr


def run_deepali_write(case):
    from deepali.core import Grid
    from deepali.data import Image

    g, m, grid, arr = _case_objects(case)
    suffix, compress = case["suffix"], case["compress"]
    K_rt = K_NIFTI if suffix in NIFTI else K_TEXT
    with Scratch() as tmp:
        # what can the format hold? decided by SimpleITK alone
        _, why = sitk_write_read(m, arr, tmp.path("sitk", suffix), compress)
        if why:
            raise Skip(f"sitk_cannot_represent:{dispatch_of(suffix)}:{why}")
        data = torch.from_numpy(arr.copy())
        image = Image(data, grid)
        path = tmp.path("deepali", suffix)
        image.write(path, compress=compress)
        if not os.path.exists(path):
            raise Violation("file_not_written", f"Image.write({suffix}) left no file {os.path.basename(path)}")
        if not torch.equal(image.tensor(), torch.from_numpy(arr)):
            raise Violation("write_modified_image", f"Image.write({suffix}) changed the image data")
        # (1) deepali reads its own file
        back = Image.read(path, align_corners=bool(g["ac"]))
        if type(back) is not Image:
            raise Violation("readback_type", f"Image.read returned {type(back).__name__}")
        what = f"Image.write->Image.read {suffix} D={case['D']} C={case['C']} {case['dtype']} compress={compress}"
        check_tensor(back.tensor(), arr, "readback", what)
        r = check_grid_vs_grid(back.grid(), grid, m, "readback", what, K_rt)
        if back.grid().align_corners() != bool(g["ac"]):
            raise Violation("readback_align_corners", f"Image.read(align_corners={g['ac']}) grid has {back.grid().align_corners()}")
        # (2) SimpleITK reads deepali's file: compared with the independent model
        simg = sitk_read(path, "sitk_cannot_read_deepali_file")
        bad, detail, r2 = sitk_mismatch(simg, m, arr)
        if bad is not None:
            raise Violation("sitk_reads_deepali_file_" + bad, f"{what}: {detail}")
        # header-only route
        gf = Grid.from_file(path, align_corners=bool(g["ac"]))
        r3 = check_grid_vs_model(gf, m, "grid_from_deepali_file", f"Grid.from_file({suffix}) of a file written by deepali")
    return {"ratio": max(r, r2, r3), "nontrivial": image_nontrivial(case), "labels": labels_of(case)}


# ---------------------------------------------------------------------------------------
# facet 2: SimpleITK writes; deepali reads


def run_sitk_write(case):
    from deepali.core import Grid
    from deepali.data import Image
    from deepali.utils.imageio import read_image

    g, m, grid, arr = _case_objects(case)
    suffix, compress = case["suffix"], case["compress"]
    with Scratch() as tmp:
        path = tmp.path("sitk", suffix)
        _, why = sitk_write_read(m, arr, path, compress)
        if why:
            raise Skip(f"sitk_cannot_represent:{dispatch_of(suffix)}:{why}")
        what = f"sitk.WriteImage->Image.read {suffix} D={case['D']} C={case['C']} {case['dtype']} compress={compress}"
        img = Image.read(path, align_corners=bool(g["ac"]))
        check_tensor(img.tensor(), arr, "reads_sitk_file", what)
        r = check_grid_vs_model(img.grid(), m, "reads_sitk_file", what)
        gf = Grid.from_file(path, align_corners=bool(g["ac"]))
        r = max(r, check_grid_vs_model(gf, m, "grid_from_sitk_file", f"Grid.from_file({suffix})"))
        if gf.align_corners() != bool(g["ac"]) or img.grid().align_corners() != bool(g["ac"]):
            raise Violation("reads_sitk_file_align_corners", "align_corners argument not applied")
        data2, grid2 = read_image(pathlib.Path(path))
        check_tensor(data2, arr, "read_image_sitk_file", what + " (read_image, Path)")
        r = max(r, check_grid_vs_model(grid2, m, "read_image_sitk_file", what + " (read_image, Path)"))
    return {"ratio": r, "nontrivial": image_nontrivial(case), "labels": labels_of(case)}


# ---------------------------------------------------------------------------------------
# facet 3: flow fields


def flow_bounds(m: ref.GridModel, v: np.ndarray, a: str, b: str):
    """v: (..., D) vectors w.r.t. axes a. Returns (expected vectors w.r.t. b, forward bound, round-trip bound in a)."""
    L = m.matrix(a, b)[:, : m.D]
    Li = m.matrix(b, a)[:, : m.D]
    w = v @ L.T
    vmax = max(float(np.abs(v).max()), 1e-30)
    fwd = K_MODEL * EPS32 * max(float(np.abs(L).sum(1).max()) * vmax, 1e-30)
    back = K_MODEL * EPS32 * vmax + float(np.abs(Li).sum(1).max()) * fwd
    return w, fwd, back


def run_flow(case):
    import SimpleITK as sitk
    from deepali.data import FlowField

    g = case["grid"]
    m = ref.GridModel.from_desc(g)
    grid = make_grid(g)
    D = case["D"]
    suffix, compress = case["suffix"], case["compress"]
    a = case["axes"]
    stored = "world" if case["store"] == "default" else case["store"]
    npdt = NPDT[case["dtype"]]
    shape = (D,) + tuple(int(v) for v in m.n[::-1])
    v = vector_content(shape, case["key"]).astype(npdt)          # (D, ..., X) w.r.t. axes a
    v_last = np.moveaxis(v.astype(np.float64), 0, -1)              # (..., X, D)
    w_last, fwd, back_bound = flow_bounds(m, v_last, a, stored)
    w = np.moveaxis(w_last, -1, 0).astype(npdt)                    # model: what the file should hold
    with Scratch() as tmp:
        _, why = sitk_write_read(m, w, tmp.path("sitk", suffix), compress)
        if why:
            raise Skip(f"sitk_cannot_represent:{dispatch_of(suffix)}:{why}")
        flow = FlowField(torch.from_numpy(v.copy()), grid, _axes(a))
        path = tmp.path("deepali", suffix)
        if case["store"] == "default":
            flow.write(path, compress=compress)
        else:
            flow.write(path, axes=_axes(stored), compress=compress)
        if not torch.equal(flow.tensor(), torch.from_numpy(v)) or flow.axes() != _axes(a):
            raise Violation("write_modified_flow", "FlowField.write changed the flow field")
        what = f"FlowField({a}).write({suffix}, axes={case['store']}) D={D} {case['dtype']} compress={compress}"
        simg = sitk_read(path, "sitk_cannot_read_deepali_file")
        bad, detail, r0 = sitk_mismatch(simg, m, np.zeros_like(w))
        if bad is not None and bad != "pixels":
            raise Violation("flow_file_" + bad, f"{what}: {detail}")
        stored_arr = sitk.GetArrayFromImage(simg)                  # (..., X, D)
        r1 = check_close(stored_arr, w_last, fwd, "flow_file_vectors_not_world" if stored == "world" else "flow_file_vectors_axes",
                         f"{what}: vectors in the file (read by SimpleITK) vs model {stored} vectors")
        # read back: vectors are tagged with the stored axes and convert back to the original representation
        if case["store"] == "default":
            rd = FlowField.read(path, align_corners=bool(g["ac"]))
        else:
            rd = FlowField.read(path, axes=_axes(stored), align_corners=bool(g["ac"]))
        if not isinstance(rd, FlowField):
            raise Violation("flow_read_type", f"FlowField.read returned {type(rd).__name__}")
        if rd.axes() != _axes(stored):
            raise Violation("flow_read_axes", f"{what}: FlowField.read(...).axes() is {rd.axes()}, file holds {stored} vectors")
        if tuple(rd.shape) != shape:
            raise Violation("flow_read_shape", f"{what}: shape {tuple(rd.shape)} expected {shape}")
        if rd.dtype != tdtype(case["dtype"]):
            raise Violation("flow_read_dtype", f"{what}: dtype {rd.dtype}")
        r2 = check_grid_vs_grid(rd.grid(), grid, m, "flow_read", what, K_NIFTI if suffix in NIFTI else K_TEXT)
        check_close(rd.tensor(), w, fwd, "flow_read_vectors", f"{what}: FlowField.read tensor vs model {stored} vectors")
        orig = rd.axes(_axes(a))
        if orig.axes() != _axes(a):
            raise Violation("flow_read_axes", f"{what}: .axes({a}) result is tagged {orig.axes()}")
        r3 = check_close(orig.tensor(), v, back_bound, "flow_roundtrip_vectors",
                         f"{what}: FlowField.read(...).axes({a}) vs original vectors")
    nt = grid_nontrivial(g) and a != stored
    return {"ratio": max(r0, r1, r2, r3), "nontrivial": nt,
            "labels": labels_of(case) + [f"axes={a}", f"store={case['store']}", f"ac={g['ac']}"]}


# ---------------------------------------------------------------------------------------
# facet 4: MetaImage serialisation in memory


def run_meta_bytes(case):
    from deepali.utils.imageio.meta import meta_image_bytes, read_meta_image

    g, m, grid, arr = _case_objects(case)
    C, compress, via = case["C"], case["compress"], case["via"]
    what = f"meta_image_bytes->read_meta_image({via}) D={case['D']} C={C} {case['dtype']} compress={compress}"
    # MetaImage element order: x fastest, channels interleaved -> array (..., X) or (..., X, C)
    blob = meta_image_bytes(sitk_array(arr), {
        "CompressedData": compress, "ElementNumberOfChannels": C,
        "ElementSpacing": m.s.copy(), "Offset": m.o.copy(), "TransformMatrix": m.R.copy()})
    if not isinstance(blob, bytes):
        raise Violation("meta_bytes_type", f"meta_image_bytes returned {type(blob).__name__}")
    with Scratch() as tmp:
        path = tmp.path("deepali", ".mha")
        with open(path, "wb") as f:
            f.write(blob)
        # the serialised bytes are a MetaImage file SimpleITK understands
        simg = sitk_read(path, "sitk_cannot_read_meta_image_bytes")
        bad, detail, r = sitk_mismatch(simg, m, arr)
        if bad is not None:
            raise Violation("sitk_reads_meta_image_bytes_" + bad, f"{what}: {detail}")
        # and deepali reads them back, from memory / an open file / a path
        spath = tmp.path("sitk", ".mha")
        _, why = sitk_write_read(m, arr, spath, compress)
        if why:
            raise Skip(f"sitk_cannot_represent:meta:{why}")
        for origin_of_bytes, p in (("deepali", path), ("sitk", spath)):
            if via == "bytes":
                with open(p, "rb") as f:
                    data, gr = read_meta_image(f.read())
            elif via == "reader":
                with open(p, "rb") as f:
                    data, gr = read_meta_image(f)
            elif via == "path":
                data, gr = read_meta_image(pathlib.Path(p))
            else:
                data, gr = read_meta_image(str(p))
            pre = "meta_bytes_readback" if origin_of_bytes == "deepali" else "meta_reads_sitk_bytes"
            check_tensor(data, arr, pre, f"{what} [{origin_of_bytes} bytes]")
            r = max(r, check_grid_vs_model(gr, m, pre, f"{what} [{origin_of_bytes} bytes]", K_TEXT))
    return {"ratio": r, "nontrivial": image_nontrivial(case), "labels": labels_of(case) + [f"via={via}"]}


# ---------------------------------------------------------------------------------------
# facet 5: in-memory conversion to and from SimpleITK images


@st.composite
def memory_cases(draw):
    D = draw(gen.dims())
    C = draw(st.sampled_from([1, 2, 3]))
    kind = draw(st.sampled_from(list(KIND_MIX)))
    return {"D": D, "C": C, "dtype": draw(st.sampled_from(list(DTYPES))), "grid": draw(io_grids(D, kind)),
            "key": draw(st.integers(0, 999))}


def run_memory(case):
    import SimpleITK as sitk
    from deepali.core import Grid
    from deepali.data import Image
    from deepali.utils.simpleitk.torch import image_from_tensor, tensor_from_image

    g = case["grid"]
    m = ref.GridModel.from_desc(g)
    grid = make_grid(g)
    D, C = case["D"], case["C"]
    shape = (C,) + tuple(int(v) for v in m.n[::-1])
    arr = content(shape, case["dtype"], case["key"])
    what = f"D={D} C={C} {case['dtype']}"
    image = Image(torch.from_numpy(arr.copy()), grid)
    simg = image.sitk()
    bad, detail, r = sitk_mismatch(simg, m, arr)
    if bad is not None:
        raise Violation("image_sitk_" + bad, f"Image.sitk() {what}: {detail}")
    plain = image_from_tensor(torch.from_numpy(arr.copy()))
    if sitk.GetArrayFromImage(plain).tobytes() != sitk_array(arr).tobytes() or plain.GetNumberOfComponentsPerPixel() != C:
        raise Violation("image_from_tensor_pixels", f"image_from_tensor {what}")
    mimg = model_image(m, arr)
    check_tensor(tensor_from_image(mimg), arr, "tensor_from_image", f"tensor_from_image {what}")
    back = Image.from_sitk(mimg, align_corners=bool(g["ac"]))
    check_tensor(back.tensor(), arr, "image_from_sitk", f"Image.from_sitk {what}")
    r = max(r, check_grid_vs_model(back.grid(), m, "image_from_sitk", f"Image.from_sitk {what}"))
    r = max(r, check_grid_vs_model(Grid.from_sitk(mimg), m, "grid_from_sitk", "Grid.from_sitk"))
    labels = [f"D={D}", f"C={C}", case["dtype"], g["kind"]]
    return {"ratio": r, "nontrivial": grid_nontrivial(g) and (C > 1 or D == 2 or not case["dtype"].startswith("float")),
            "labels": labels}


# ---------------------------------------------------------------------------------------
# facet 6: flow fields to and from SimpleITK images in memory


def flow_memory_enum(tier):
    k, pools = _grids_for(tier, min_size=2)   # cube axes need two samples per axis
    i = 3
    for D in DIMS:
        for dtype in ("float32", "float64"):
            for axes in FLOW_AXES:
                for to in ("default",) + FLOW_AXES:
                    pool = pools[(D, False)]
                    for j in range(2 * k):
                        yield {"D": D, "dtype": dtype, "axes": axes, "to_axes": to, "grid": pool[(2 * i * k + j) % len(pool)],
                               "key": (2 * i * k + j) % 1000}
                    i += 1


def run_flow_memory(case):
    import SimpleITK as sitk
    from deepali.data import FlowField

    g = case["grid"]
    m = ref.GridModel.from_desc(g)
    grid = make_grid(g)
    D = case["D"]
    a, to = case["axes"], case["to_axes"]
    stored = "world" if to == "default" else to
    npdt = NPDT[case["dtype"]]
    shape = (D,) + tuple(int(v) for v in m.n[::-1])
    v = vector_content(shape, case["key"]).astype(npdt)
    v_last = np.moveaxis(v.astype(np.float64), 0, -1)
    w_last, fwd, back_bound = flow_bounds(m, v_last, a, stored)
    what = f"D={D} {case['dtype']}"
    flow = FlowField(torch.from_numpy(v.copy()), grid, _axes(a))
    fimg = flow.sitk() if to == "default" else flow.sitk(axes=_axes(to))
    if not torch.equal(flow.tensor(), torch.from_numpy(v)) or flow.axes() != _axes(a):
        raise Violation("sitk_modified_flow", "FlowField.sitk() changed the flow field")
    bad, detail, r = sitk_mismatch(fimg, m, np.zeros_like(v))
    if bad is not None and bad != "pixels":
        raise Violation("flow_sitk_" + bad, f"FlowField.sitk() {what}: {detail}")
    r = max(r, check_close(sitk.GetArrayFromImage(fimg), w_last, fwd,
                           "flow_sitk_vectors_not_world" if stored == "world" else "flow_sitk_vectors_axes",
                           f"FlowField({a}).sitk(axes={to}) vs model {stored} vectors"))
    wimg = model_image(m, np.moveaxis(w_last, -1, 0).astype(npdt))
    f2 = FlowField.from_sitk(wimg, align_corners=bool(g["ac"])) if to == "default" else \
        FlowField.from_sitk(wimg, axes=_axes(to), align_corners=bool(g["ac"]))
    if not isinstance(f2, FlowField):
        raise Violation("flow_from_sitk_type", f"FlowField.from_sitk returned {type(f2).__name__}")
    if f2.axes() != _axes(stored):
        raise Violation("flow_from_sitk_axes", f"FlowField.from_sitk(axes={to}).axes() is {f2.axes()}")
    if f2.dtype != tdtype(case["dtype"]) or tuple(f2.shape) != shape:
        raise Violation("flow_from_sitk_shape", f"FlowField.from_sitk: shape {tuple(f2.shape)} dtype {f2.dtype}")
    r = max(r, check_grid_vs_model(f2.grid(), m, "flow_from_sitk", f"FlowField.from_sitk {what}"))
    r = max(r, check_close(f2.axes(_axes(a)).tensor(), v, back_bound + K_MODEL * EPS32, "flow_from_sitk_vectors",
                           f"FlowField.from_sitk(model {stored} vectors).axes({a}) vs original"))
    return {"ratio": r, "nontrivial": grid_nontrivial(g) and a != stored,
            "labels": [f"D={D}", case["dtype"], f"axes={a}", f"to={to}", g["kind"], f"ac={g['ac']}"]}


# ---------------------------------------------------------------------------------------


def selftest():
    import SimpleITK as sitk

    g = {"size": [5, 4, 3], "spacing": [2.0, 0.5, 1.25], "center": [10.0, -3.0, 7.0], "rot": [0.3, -0.2, 0.9], "perm": [0, 1, 2],
         "flip": [1, 1, 1], "ac": True, "kind": "rotation"}
    m = ref.GridModel.from_desc(g)
    arr = content((2, 3, 4, 5), "int16", 3)
    assert arr.min() == -32768 and arr.max() == 32767
    img = model_image(m, arr)
    assert img.GetSize() == (5, 4, 3) and img.GetNumberOfComponentsPerPixel() == 2
    # the model's index->world map is ITK's
    idx = [4, 3, 2]
    assert np.allclose(img.TransformIndexToPhysicalPoint(idx), m.points(np.array([idx], float), "grid", "world")[0])
    assert img.GetPixel(1, 2, 0) == tuple(int(x) for x in arr[:, 0, 2, 1])
    assert sitk_mismatch(img, m, arr)[0] is None
    f = content((1, 2, 2), "float32", 0)
    assert np.isfinite(f).all() and f.dtype == np.float32


_RULE = ("configuration space suffix x D x C x dtype x compress enumerated completely, each configuration crossed with "
         "Hypothesis-drawn grids (quick 2, thorough 20; .vtk identity direction) and hash-noise content over the dtype's range; "
         "non-trivial = oblique anisotropic grid with non-zero origin and (C > 1 or D = 2 or integer dtype); "
         "skipped = SimpleITK itself cannot represent the case in that format")

FACETS = [
    Facet("deepali_writes", run_deepali_write, enumerate=lambda tier: image_enum(tier, 0), exhaustive_tiers=("quick", "thorough"),
          quick=0, thorough=0, shards=16, quick_shards=4, nontrivial=image_nontrivial,
          rule="Image.write -> Image.read / sitk.ReadImage / Grid.from_file; " + _RULE),
    Facet("sitk_writes", run_sitk_write, enumerate=lambda tier: image_enum(tier, 1), exhaustive_tiers=("quick", "thorough"),
          quick=0, thorough=0, shards=16, quick_shards=4, nontrivial=image_nontrivial,
          rule="sitk.WriteImage(model image) -> Image.read / Grid.from_file / read_image; " + _RULE),
    Facet("flow_files", run_flow, enumerate=flow_enum, exhaustive_tiers=("quick", "thorough"),
          quick=0, thorough=0, shards=16, quick_shards=4,
          rule="suffix x D x {float32,float64} x vector axes x stored axes {default=world, grid} x compress enumerated x drawn grids; "
               "FlowField.write -> SimpleITK (world vectors vs model) and FlowField.read(...).axes(original); non-trivial = oblique "
               "anisotropic grid with non-zero origin and original axes != stored axes"),
    Facet("meta_bytes", run_meta_bytes, enumerate=meta_enum, exhaustive_tiers=("quick", "thorough"),
          quick=0, thorough=0, shards=8, quick_shards=2, nontrivial=image_nontrivial,
          rule="D x C x dtype x compress x input kind {bytes, reader, Path, str} enumerated x drawn grids; meta_image_bytes -> "
               "SimpleITK and read_meta_image, SimpleITK .mha bytes -> read_meta_image; non-trivial as for images"),
    Facet("sitk_memory", run_memory, strategy=memory_cases, quick=300, thorough=6000, shards=8, quick_shards=1,
          rule="drawn D, C, dtype, grid: Image.sitk/from_sitk, image_from_tensor/tensor_from_image, Grid.from_sitk against the "
               "model; non-trivial as for images"),
    Facet("flow_sitk", run_flow_memory, enumerate=flow_memory_enum, exhaustive_tiers=("quick", "thorough"),
          quick=0, thorough=0, shards=8, quick_shards=1,
          rule="D x {float32,float64} x vector axes x target axes {default=world, world, grid, cube, cube_corners} enumerated x drawn "
               "grids (quick 4, thorough 40 each): FlowField.sitk() holds the model's vectors, FlowField.from_sitk(...).axes(original) "
               "restores them; non-trivial = oblique anisotropic off-centre grid and original axes != target axes"),
]
